"""C03 / C13 / C05 — aiokafka/consumer/fetcher.py: Fetcher._proc_fetch_request (the only place a fetch response
is turned into buffered records, a pending offset reset or a buffered error) and Fetcher._set_error."""
from pyvc.contract import contract, classmodel, specfn, SPEC_TYPES, CLASSES
from pyvc.ty import V, INT, BOOL, REAL, STR, NONE, EXC, BYTES, Opt, Tup, List, Set, Dict, Ref, Opaque
from pyvc.exec_base import Fut, PyThing
from .common import TP, tp_ctor
from . import fetch_result, subscription_state, fetcher, fetcher_handout     # noqa: F401

MOD = "aiokafka.consumer.fetcher"

FIELD = Opaque("FetchField")                 # one decoded field of a partition entry after `high_watermark`
SPEC_TYPES["FIELD"] = FIELD
# partition entry of a FetchResponse: (partition, error_code, high_watermark, *rest); the tail is kept as a list whose
# length is fixed by the response version (aiokafka/protocol/fetch.py schemas):
#   v0-3 [message_set]; v4 [lso, aborted, message_set]; v5-10 [lso, log_start, aborted, message_set];
#   v11 [lso, log_start, aborted, preferred_read_replica, message_set]
#   (modelled at the maximal width, v11; the real tuple has 3 + fetch_rest_arity(version) components, so that
#    `partition, error_code, highwater, *part_data = entry` gives part_data exactly that many elements - quantifier-free)
FPART = Tup(INT, INT, INT, FIELD, FIELD, FIELD, FIELD, FIELD)
FPART.flex_arity = "3 + fetch_rest_arity(response.API_VERSION)"
classmodel("FetchResponse", {"API_VERSION": INT, "topics": List(Tup(STR, List(FPART)))})
classmodel("FetchReq", {"_topics": List(Tup(STR, List(Tup(INT, INT, INT))))}, props={"topics": "self._topics"})
classmodel("ClientObj", {})

F = CLASSES["Fetcher"].fields
F.update({
    "_client": Ref("ClientObj"), "_client_rack": Opt(STR), "_rack_warning_logged": BOOL, "_retry_backoff": REAL,
    "_default_reset_strategy": INT, "_max_partition_fetch_bytes": INT, "_prefetch_backoff": REAL,
    "_check_crcs": BOOL, "_isolation_level": INT,
    "_key_deserializer": Opt(Ref("Deserializer")), "_value_deserializer": Opt(Ref("Deserializer")),
    "_preferred_read_replica": Dict(TP, Tup(INT, REAL)),
})
classmodel("Deserializer", {})
T_ = CLASSES["TPState"].fields
T_.update({"highwater": Opt(INT), "lso": Opt(FIELD), "timestamp": Opt(INT)})
CLASSES["FetchResult"].fields["g_error"] = EXC          # ghost: the error a FetchError carries


@specfn("fetch_rest_arity")
def fetch_rest_arity(ex, st, v):
    import z3
    from pyvc import ty as T
    i = lambda n: T.intval(n).t
    return V(INT, z3.If(v.t < i(4), i(1), z3.If(v.t == i(4), i(3), z3.If(v.t <= i(10), i(4), i(5)))))


WF_RESP = ("forall(lambda i, j: implies(0 <= i < len(result.topics) and 0 <= j < len(result.topics[i][1]),"
           " len(result.topics[i][1][j][3]) == fetch_rest_arity(result.API_VERSION)))")
WF_RESP_L = WF_RESP.replace("result.", "response.")


@contract(MOD + ":Fetcher._set_error", ["C03", "C13"])
def _(c):
    c.self_("Fetcher")
    c.param("tp", TP)
    c.param("error", EXC)
    c.modifies("self._records")
    c.call("FetchError", returns=Ref("FetchResult"), post=["fresh(result)", "result.g_is_error", "result.g_error == kw_error"],
           note="FetchError(error=, backoff=) constructor: stores its arguments")
    c.raises("something-already-buffered-for-the-partition", "AssertionError", when="tp in self._records",
             ensures=[("no-effect", "self._records == old(self._records)")], exact=True)
    c.ensures("error-buffered-for-that-partition-only",
              "tp in self._records and self._records[tp].g_is_error and self._records[tp].g_error == error"
              " and forall(TP, lambda q: implies(q != tp, (q in self._records) == (q in old(self._records))"
              " and implies(q in self._records, self._records[q] == old(self._records[q]))))")


@contract(MOD + ":Fetcher._proc_fetch_request", ["C03", "C13", "C05", "C04", "C08"])
def _(c):
    c.self_("Fetcher")
    c.param("assignment", Ref("Assignment"))
    c.param("node_id", INT)
    c.param("request", Ref("FetchReq"))
    c.returns(BOOL)
    c.bind("TopicPartition", tp_ctor)
    c.local("fetch_offsets", Dict(TP, INT))
    c.local("lso", Opt(FIELD))
    c.local("aborted_transactions", Opt(FIELD))
    c.owns("self._client", "self._subscriptions")
    c.requires("self._default_reset_strategy == OffsetResetStrategy.LATEST or self._default_reset_strategy == OffsetResetStrategy.EARLIEST"
               " or self._default_reset_strategy == OffsetResetStrategy.NONE", "reset-policy-is-a-strategy-constant")
    c.call("self._client.send", returns=Ref("FetchResponse"), havoc_all=True, raises=["KafkaError", "CancelledError"],
           post=["fresh(result)", "0 <= result.API_VERSION <= 11"],
           note="AIOKafkaClient.send: suspends; returns the decoded FetchResponse of the negotiated version, whose "
                "partition entries have the arity of that version's schema (bounded C11 checks the schema tables)")
    c.call("asyncio.sleep", havoc_all=True, raises=["CancelledError"], note="suspends")
    c.call("time.time", returns=REAL, note="clock")
    c.call("self._invalidate_preferred_read_replica_for_node", modifies=["self._preferred_read_replica"],
           note="KIP-392 cache maintenance; touches only the preferred-replica cache")
    c.call("self._update_preferred_read_replica", modifies=["self._preferred_read_replica"],
           note="KIP-392 cache maintenance; touches only the preferred-replica cache")
    c.call("self._client.force_metadata_update", note="requests a metadata refresh; touches nothing modelled here")
    c.call("MemoryRecords", returns=Ref("Records"), post=["fresh(result)"], note="wraps the fetched bytes")
    c.call("records.has_next", returns=BOOL, note="MemoryRecords.has_next: a whole batch is available")
    c.call("records.size_in_bytes", returns=INT, note="MemoryRecords.size_in_bytes")
    c.call("PartitionRecords", returns=Ref("PartitionRecords"),
           post=["fresh(result)", "result._tp == a0", "result._records == a1", "result.next_fetch_offset == a3"],
           note="PartitionRecords.__init__: stores tp, records and fetch_offset (next_fetch_offset starts at fetch_offset)")
    c.call("FetchResult", returns=Ref("FetchResult"),
           post=["fresh(result)", "not result.g_is_error", "result._topic_partition == a0",
                 "result._partition_records == kw_partition_records", "result._assignment == kw_assignment"],
           note="FetchResult.__init__: stores its arguments")
    c.modifies("self._records", "self._rack_warning_logged", "self._preferred_read_replica",
               "TPState.highwater", "TPState.lso", "TPState.timestamp", "TPState._position", "TPState._reset_strategy",
               "TPState._status", "TPState._position_fut", "Future.state", "Future.nres", "Future.exc", "Future.res")
    # KeyError from fetch_offsets[tp], AttributeError from assignment.state_value(tp) being None (both: the broker
    # answered for a partition that was not asked for), AssertionError from _set_error
    c.none_raises = True
    c.raises("response-names-an-unrequested-partition-or-buffer-occupied", "Exception")
    c.raises("cancelled-while-backing-off", "CancelledError")
    c.loop(0, header="for topic, partitions in request.topics", invariants=[])
    c.loop(1, header="for partition, offset, _ in partitions", invariants=[])
    ACTIVE = ("assignment-still-active", "not assignment.unassign_future.done()")
    # (the response object is never written: what client.send promised about it - the arity of its partition entries -
    #  stays in the path condition across the loop cuts, it need not be restated as an invariant)
    c.loop(2, header="for topic, partitions in response.topics", invariants=[ACTIVE])
    c.loop(3, header="for partition, error_code, highwater, *part_data in partitions", invariants=[ACTIVE])
    # ---- C03/C05: data is buffered only for the live assignment and only if it was fetched from the current position
    FRESHPOS = "tp_state._position is not None and tp_state._position == fetch_offset"
    c.hook("before", "PartitionRecords", [
        ("assert", "records-start-at-the-requested-offset", "a0 == tp and a3 == fetch_offset"),
        # C08: the aborted-transaction index and the last stable offset exist from FetchResponse v4 on (KIP-98); whenever the
        # broker sent them they reach the record iterator / the partition state, at that version's place in the entry
        # (v4: [lso, aborted, records]; v5+: [lso, log_start, aborted, ...])
        ("assert", "the-aborted-transaction-index-the-broker-sent-reaches-the-record-iterator",
         "implies(response.API_VERSION >= 4, a2 is not None and a2 == part_data[1 if response.API_VERSION == 4 else 2])"
         " and implies(response.API_VERSION < 4, a2 is None)"),
        ("assert", "the-last-stable-offset-the-broker-sent-is-recorded",
         "implies(response.API_VERSION >= 4, tp_state.lso is not None and tp_state.lso == part_data[0])"
         " and implies(response.API_VERSION < 4, tp_state.lso is None)"),
        ("assert", "the-isolation-level-configured-reaches-the-record-iterator", "a7 == self._isolation_level and a6 == self._check_crcs"),
    ])
    c.hook("before", "FetchResult", [
        ("assert", "buffered-only-under-the-live-assignment", "not assignment.unassign_future.done() and kw_assignment == assignment"),
        ("assert", "buffered-only-if-fetched-from-the-current-position", FRESHPOS),
        ("assert", "buffered-under-its-own-partition", "a0 == tp and kw_partition_records.next_fetch_offset == fetch_offset"
         " and tp_state == assignment._tp_state[tp]"),
        ("assert", "only-a-successful-partition-response-is-buffered", "error_type == Errors.NoError"),
    ])
    # ---- C13: a fetch answer resets the position only if it is OFFSET_OUT_OF_RANGE for the *current* position
    c.hook("before", "tp_state.await_reset", [
        ("assert", "reset-only-on-offset-out-of-range", "error_type == Errors.OffsetOutOfRangeError"),
        ("assert", "a-stale-answer-never-resets-a-sought-position", FRESHPOS),
        ("assert", "reset-follows-the-configured-policy", "a0 == self._default_reset_strategy"
         " and self._default_reset_strategy != OffsetResetStrategy.NONE"),
    ])
    c.hook("before", "self._set_error", [
        # (an authorisation failure is about the topic, not about an offset: the property does not say whether a
        #  stale answer may report it, so it is left free)
        ("assert", "offset-errors-surface-only-for-the-current-position",
         "a0 == tp and implies(error_type != Errors.TopicAuthorizationFailedError, " + FRESHPOS + ")"),
        ("assert", "policy-none-raises-offset-out-of-range",
         "implies(error_type == Errors.OffsetOutOfRangeError, a1 == Errors.OffsetOutOfRangeError"
         " and self._default_reset_strategy == OffsetResetStrategy.NONE)"),
    ])
    c.hook("before", "tp_state.consumed_to", [
        ("assert", "skips-exactly-the-oversized-record-at-the-current-position", FRESHPOS + " and a0 == fetch_offset + 1"),
    ])

    @c.replay
    def replay(model, ob=None):
        return {"script": _PROC_SCRIPT}


# scenario sweep on the real Fetcher._proc_fetch_request (stubbed client, real SubscriptionState): every combination of
# response version, partition error, reset policy and 'the application sought elsewhere while the fetch was in flight'
_PROC_SCRIPT = '''
import asyncio, types, logging, itertools
logging.disable(logging.CRITICAL)
from aiokafka.client import AIOKafkaClient
from aiokafka.consumer.fetcher import Fetcher, FetchResult, FetchError, OffsetResetStrategy
from aiokafka.consumer.subscription_state import SubscriptionState
from aiokafka.structs import TopicPartition
from aiokafka.record.default_records import DefaultRecordBatchBuilder
from aiokafka import errors as E

def batch(offset):
    b = DefaultRecordBatchBuilder(magic=2, compression_type=0, batch_size=999999, is_transactional=0,
                                  producer_id=-1, producer_epoch=-1, base_sequence=0)
    b.append(offset=0, value=b"v", key=None, timestamp=None, headers=[])
    raw = bytearray(b.build())
    import struct
    raw[0:8] = struct.pack(">q", offset)
    return bytes(raw)

def rest(version, raw):
    if version < 4: return [raw]
    if version == 4: return [100, [(77, 2)], raw]
    if version <= 10: return [100, 0, [(77, 2)], raw]
    return [100, 0, [(77, 2)], -1, raw]

async def one(version, code, policy, stale, payload):
    client = AIOKafkaClient(bootstrap_servers=[])
    subs = SubscriptionState()
    fetcher = Fetcher(client, subs, auto_offset_reset=policy)
    try:
        tp = TopicPartition("t", 0)
        subs.assign_from_user({tp})
        assignment = subs.subscription.assignment
        st = assignment.state_value(tp)
        subs.seek(tp, 4)
        req = types.SimpleNamespace(topics=[("t", [(0, 4, 1000)])])
        raw = {"batch": batch(4), "empty": b"", "partial": batch(4)[:20]}[payload]
        resp = types.SimpleNamespace(API_VERSION=version, topics=[("t", [(0, code, 9, *rest(version, raw))])])
        async def send(node, request):
            if stale:
                subs.seek(tp, 50)            # the application seeks while the fetch is in flight
            return resp
        client.send = send
        client.force_metadata_update = lambda: None
        await fetcher._proc_fetch_request(assignment, 0, req)
        buf = fetcher._records.get(tp)
        what = "v%d code=%d policy=%s stale=%s payload=%s" % (version, code, policy, stale, payload)
        if stale:
            if not st.has_valid_position or st.position != 50:
                return what + ": the sought position 50 was lost (has_valid_position=%s awaiting_reset=%s)" % (st.has_valid_position, st.awaiting_reset)
            if isinstance(buf, FetchResult):
                return what + ": a stale response was buffered"
            if isinstance(buf, FetchError) and not isinstance(buf._error, E.TopicAuthorizationFailedError):
                return what + ": a stale response surfaced %r" % (buf._error,)
            return None
        if code == 1:
            if policy == "none":
                if not (isinstance(buf, FetchError) and isinstance(buf._error, E.OffsetOutOfRangeError)):
                    return what + ": policy none must surface OffsetOutOfRangeError, buffered %r" % (buf,)
            else:
                want = OffsetResetStrategy.from_str(policy)
                if not (st.awaiting_reset and st.reset_strategy == want) or buf is not None:
                    return what + ": expected a pending reset to %s" % policy
            return None
        if code == 0 and payload == "batch":
            if not isinstance(buf, FetchResult) or buf._partition_records.next_fetch_offset != 4 or st.position != 4:
                return what + ": expected the batch buffered at offset 4, got %r" % (buf,)
            want_aborted, want_lso = ([(77, 2)], 100) if version >= 4 else ([], None)
            if buf._partition_records._aborted_transactions != want_aborted or st.lso != want_lso:
                return what + ": the broker's aborted-transaction index / last stable offset did not arrive: iterator has %r, lso %r" % (
                    buf._partition_records._aborted_transactions, st.lso)
            rec = buf.getone()
            if rec is None or rec.offset != 4:
                return what + ": first record handed out is %r" % (rec,)
        if code == 0 and payload == "partial":
            if not isinstance(buf, FetchError) or st.position != 5:
                return what + ": oversized record must surface RecordTooLargeError and skip exactly one offset"
        if code == 0 and payload == "empty" and (buf is not None or st.position != 4):
            return what + ": empty answer must change nothing"
        return None
    finally:
        await fetcher.close()

async def main():
    bad = []
    for version, code, policy, stale, payload in itertools.product((0, 3, 4, 5, 10, 11), (0, 1, 3, 6, 29, 2), ("latest", "earliest", "none"),
                                                                  (False, True), ("batch", "empty", "partial")):
        r = await one(version, code, policy, stale, payload)
        if r: bad.append(r)
    return bad
bad = asyncio.run(main())
VIOLATED = bool(bad); DETAIL = "%d scenario(s) fail; first: %s" % (len(bad), bad[:2])
'''
