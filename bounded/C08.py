"""C08 — bounded stand-in (never counted as proved): the real PartitionRecords run over every small
transactional log, against two oracles:
  * the Java consumer's filter algorithm (specs/kip98_filter.py), and
  * ground truth derived from the generated transaction structure itself (a record is visible to a
    read_committed reader iff its batch is non-transactional or its transaction committed; markers never).

Space: all sequences of <= L events over {N, D1, C1, A1, D2, C2, A2} (plain batch, data batch / commit marker /
abort marker of producers 1 and 2; solitary markers allowed = compaction), every cut of the log at a batch
boundary or inside the first batch as fetch start, both isolation levels. L = 4 (quick) / 6 (thorough).
"""
import argparse
import itertools
import json
import struct
import sys

from specs.kip98_filter import deliver, READ_COMMITTED, READ_UNCOMMITTED


from bounded import codec_common as cc      # noqa: E402

cc.use_fresh_extensions()                   # the package copy with the extensions built from the tree under test


def emit(d):
    print("BOUNDED " + json.dumps(d, default=str))


class Rec:
    def __init__(self, offset, key=b"k", value=b"v"):
        self.offset, self.key, self.value = offset, key, value
        self.timestamp, self.timestamp_type, self.headers, self.checksum = 0, 0, [], None


class Batch:
    def __init__(self, d):
        self.d = d
        self.base_offset, self.next_offset = d["base"], d["next"]
        self.producer_id = d["pid"]
        self.is_transactional = d["txn"]
        self.is_control_batch = d["control"] is not None
        if self.is_control_batch:
            key = struct.pack(">HH", 0, 0 if d["control"] == "ABORT" else 1)
            self._recs = [Rec(d["base"], key=key, value=b"")]
        else:
            self._recs = [Rec(o) for o in d["offsets"]]
        self._it = iter(self._recs)

    def validate_crc(self):
        return True

    def __iter__(self):
        return self

    def __next__(self):
        return next(self._it)


class Records:
    def __init__(self, batches):
        self._b = [Batch(b) for b in batches]
        self._i = 0

    def has_next(self):
        return self._i < len(self._b)

    def next_batch(self):
        b = self._b[self._i]
        self._i += 1
        return b


EVENTS = ["N", "D1", "C1", "A1", "D2", "C2", "A2"]


def build(seq):
    """-> (batches, aborted index entries, set of visible-committed offsets, all data offsets)"""
    off = 0
    batches, aborted, committed_visible, data = [], [], set(), set()
    open_first = {}          # pid -> first offset of its open transaction
    open_offs = {}           # pid -> offsets written in the open transaction
    for ev in seq:
        if ev == "N":
            b = {"base": off, "next": off + 2, "pid": None, "txn": False, "control": None, "offsets": [off, off + 1]}
            committed_visible.update(b["offsets"]); data.update(b["offsets"])
            off += 2
        elif ev[0] == "D":
            p = int(ev[1])
            b = {"base": off, "next": off + 2, "pid": p, "txn": True, "control": None, "offsets": [off, off + 1]}
            open_first.setdefault(p, off)
            open_offs.setdefault(p, []).extend(b["offsets"]); data.update(b["offsets"])
            off += 2
        else:
            p = int(ev[1])
            kind = "COMMIT" if ev[0] == "C" else "ABORT"
            b = {"base": off, "next": off + 1, "pid": p, "txn": True, "control": kind, "offsets": []}
            first = open_first.pop(p, None)
            offs = open_offs.pop(p, [])
            if kind == "COMMIT":
                committed_visible.update(offs)
            else:
                # the broker's aborted-transaction index lists the transaction by its first offset; for a
                # solitary marker (data compacted away) that offset lies before the marker
                aborted.append((p, first if first is not None else max(off - 1, 0), off))      # (pid, first offset, marker offset)
            off += 1
        batches.append(b)
    # transactions still open at the end lie above the last stable offset: the broker does not return them
    # to a read_committed reader; drop them from the slice
    for p in list(open_offs):
        return None
    return batches, aborted, committed_visible, data


def run_real(batches, aborted, fetch_offset, isolation):
    from aiokafka.consumer.fetcher import PartitionRecords
    from aiokafka.structs import TopicPartition
    pr = PartitionRecords(TopicPartition("t", 0), Records(batches), list(aborted), fetch_offset, None, None, True, isolation)
    out = [r.offset for r in pr]
    return out, pr.next_fetch_offset


PIDS = {1: 2 ** 40 + 1000, 2: 2 ** 31}      # real producer ids are 64-bit: both beyond the int32 range


def encode(batches):
    """the slice as real v2 bytes: data batches by the pure-Python builder (transactional flag, producer id), markers as
    control batches with the KIP-98 marker key (control bit set, CRC re-sealed)"""
    from aiokafka.record.default_records import _DefaultRecordBatchBuilderPy
    from aiokafka.record.util import calc_crc32c
    out = b""
    for d in batches:
        pid = PIDS[d["pid"]] if d["pid"] is not None else -1
        b = _DefaultRecordBatchBuilderPy(magic=2, compression_type=0, is_transactional=1 if d["txn"] else 0, producer_id=pid,
                                         producer_epoch=0 if d["pid"] is not None else -1,
                                         # markers are written by the coordinator: they carry the producer's id and
                                         # epoch but no sequence number (-1)
                                         base_sequence=0 if (d["pid"] is not None and d["control"] is None) else -1,
                                         batch_size=1 << 20)
        if d["control"] is None:
            for i, _ in enumerate(d["offsets"]):
                b.append(offset=i, timestamp=1000 + i, key=b"k", value=b"v", headers=[])
        else:
            b.append(offset=0, timestamp=1000, key=struct.pack(">HH", 0, 0 if d["control"] == "ABORT" else 1), value=b"", headers=[])
        raw = bytearray(b.build())
        if d["control"] is not None:
            (attrs,) = struct.unpack_from(">h", raw, 21)
            struct.pack_into(">h", raw, 21, attrs | 0x20)
            struct.pack_into(">I", raw, 17, calc_crc32c(bytes(raw[21:])))
        struct.pack_into(">q", raw, 0, d["base"])
        out += bytes(raw)
    return out


def run_bytes(impl, batches, aborted, fetch_offset, isolation):
    from aiokafka.consumer.fetcher import PartitionRecords
    from aiokafka.structs import TopicPartition
    from bounded import codec_common as cc
    mem = cc.impls()[impl]["mem"](encode(batches))
    index = [(PIDS[p], first) for p, first in aborted]
    pr = PartitionRecords(TopicPartition("t", 0), mem, index, fetch_offset, None, None, True, isolation)
    out = [r.offset for r in pr]
    return out, pr.next_fetch_offset


def sweep_bytes(L, limit=None):
    """the same logs as real bytes through the real decoders (compiled and pure Python) into the real filter"""
    cases, fails = 0, []
    for n in range(1, L + 1):
        for seq in itertools.product(EVENTS, repeat=n):
            built = build(seq)
            if built is None:
                continue
            batches, aborted_all, visible, data = built
            for cut in range(len(batches)):
                sl = batches[cut:]
                aborted = [(p, first) for p, first, marker in aborted_all if marker >= sl[0]["base"]]
                fo = sl[0]["base"]
                for iso in (READ_UNCOMMITTED, READ_COMMITTED):
                    truth = sorted(o for o in (visible if iso == READ_COMMITTED else data) if o >= fo)
                    for impl in ("c", "py"):
                        cases += 1
                        try:
                            got, nfo = run_bytes(impl, sl, aborted, fo, iso)
                        except Exception as e:
                            got, nfo = "raised %s: %s" % (type(e).__name__, e), None
                        if got != truth or nfo != sl[-1]["next"]:
                            fails.append({"events": list(seq), "cut": cut, "isolation": iso, "decoder": impl,
                                          "aborted_index": [(PIDS[p], f) for p, f in aborted], "delivered": got,
                                          "ground_truth": truth, "position": nfo, "log_end": sl[-1]["next"]})
                            if limit and len(fails) >= limit:
                                return cases, fails
    return cases, fails


def sweep(L, limit=None):
    cases = nontrivial = 0
    fails = []
    for n in range(1, L + 1):
        for seq in itertools.product(EVENTS, repeat=n):
            built = build(seq)
            if built is None:
                continue
            batches, aborted, visible, data = built
            aborted_all = aborted
            for cut in range(len(batches)):
                sl = batches[cut:]
                # the broker lists the aborted transactions that overlap the fetched range: those whose abort
                # marker lies at or after the first returned batch
                aborted = [(p, first) for p, first, marker in aborted_all if marker >= sl[0]["base"]]
                for fo in {sl[0]["base"], sl[0]["base"] + (1 if sl[0]["next"] - sl[0]["base"] > 1 else 0)}:
                    for iso in (READ_UNCOMMITTED, READ_COMMITTED):
                        cases += 1
                        want, want_nfo = deliver(sl, aborted, fo, iso)
                        truth = sorted(o for o in (visible if iso == READ_COMMITTED else data) if o >= fo)
                        try:
                            got, nfo = run_real(sl, aborted, fo, iso)
                        except Exception as e:
                            got, nfo = "raised %s: %s" % (type(e).__name__, e), None
                        if len(aborted) and iso == READ_COMMITTED:
                            nontrivial += 1
                        if got != want or nfo != want_nfo or got != truth or nfo != sl[-1]["next"]:
                            fails.append({"events": list(seq), "cut": cut, "fetch_offset": fo, "isolation": iso,
                                          "aborted_index": aborted, "delivered": got, "java_filter": want,
                                          "ground_truth": truth, "position": nfo, "log_end": sl[-1]["next"]})
                            if limit and len(fails) >= limit:
                                return cases, nontrivial, fails
    return cases, nontrivial, fails


def sweep_holes(L, limit=None):
    """'logs ... after compaction': every log of sweep() with one whole data batch deleted (compaction removed all its
    records: the offsets stay unused, the broker's aborted-transaction index still names the transaction by its original first
    offset), fetched from every batch boundary at or before the hole and from inside the hole"""
    cases, fails = 0, []
    for n in range(2, L + 1):
        for seq in itertools.product(EVENTS, repeat=n):
            built = build(seq)
            if built is None:
                continue
            batches, aborted_all, visible, data = built
            for k, gone in enumerate(batches):
                if gone["control"] is not None:
                    continue
                log = batches[:k] + batches[k + 1:]
                if not log:
                    continue
                lost = set(gone["offsets"])
                starts = {b["base"] for b in log} | {gone["base"], gone["base"] + 1}
                for fo in sorted(starts):
                    sl = [b for b in log if b["next"] > fo]
                    if not sl:
                        continue
                    aborted = [(p, first) for p, first, marker in aborted_all if marker >= sl[0]["base"]]
                    for iso in (READ_UNCOMMITTED, READ_COMMITTED):
                        cases += 1
                        truth = sorted(o for o in (visible if iso == READ_COMMITTED else data) if o >= fo and o not in lost)
                        want, want_nfo = deliver(sl, aborted, fo, iso)
                        try:
                            got, nfo = run_real(sl, aborted, fo, iso)
                        except Exception as e:
                            got, nfo = "raised %s: %s" % (type(e).__name__, e), None
                        if got != truth or got != want or nfo != sl[-1]["next"]:
                            fails.append({"events": list(seq), "deleted_batch": k, "fetch_offset": fo, "isolation": iso,
                                          "aborted_index": aborted, "delivered": got, "java_filter": want, "ground_truth": truth,
                                          "position": nfo, "log_end": sl[-1]["next"]})
                            if limit and len(fails) >= limit:
                                return cases, fails
    return cases, fails


def main():
    ap = argparse.ArgumentParser()
    ap.add_argument("--tier", default="quick")
    ap.add_argument("--seed", type=int, default=0)
    a = ap.parse_args()
    L = 5 if a.tier == "quick" else 6
    cases, nontrivial, fails = sweep(L, limit=10)
    emit({"name": "isolation-filter-small-logs", "exhaustive": True, "cases": cases, "distinct_nontrivial": nontrivial,
          "bound": "all event sequences of length <= %d over %s, every batch-boundary cut, fetch offset at or inside the first "
                   "batch, both isolation levels" % (L, EVENTS),
          "failures": fails, "replay": {"script": REPLAY}})
    Lh = 4 if a.tier == "quick" else 5
    cases, fails = sweep_holes(Lh, limit=10)
    emit({"name": "isolation-filter-compacted-logs", "exhaustive": True, "cases": cases, "distinct_nontrivial": cases,
          "bound": "all event sequences of length <= %d with one whole data batch deleted (an offset hole), fetched from every batch "
                   "boundary and from inside the hole, both isolation levels; against the ground truth and the Java filter" % Lh,
          "failures": fails, "replay": {"script": REPLAY_HOLES}})
    Lb = 4 if a.tier == "quick" else 5
    cases, fails = sweep_bytes(Lb, limit=10)
    emit({"name": "isolation-filter-over-real-bytes", "exhaustive": True, "cases": cases, "distinct_nontrivial": cases,
          "bound": "all event sequences of length <= %d encoded as real v2 batches (producer ids 2^40+1000 and 2^31, control batches "
                   "with the KIP-98 marker key), every batch-boundary cut, both isolation levels, through the compiled and the "
                   "pure-Python decoders into the real PartitionRecords; compared with the ground truth" % Lb,
          "failures": fails, "replay": {"script": REPLAY_BYTES}})


REPLAY_HOLES = '''
import sys
sys.path.insert(0, "/verif")
from bounded import C08
cases, fails = C08.sweep_holes(3, limit=1)
VIOLATED = bool(fails)
DETAIL = "real PartitionRecords over compacted logs, %d cases: %r" % (cases, fails[:1])
'''


REPLAY_BYTES = '''
import sys
sys.path.insert(0, "/verif")
from bounded import C08
cases, fails = C08.sweep_bytes(3, limit=1)
VIOLATED = bool(fails)
DETAIL = "real PartitionRecords over real v2 bytes, %d cases: %r" % (cases, fails[:1])
'''


REPLAY = '''
import sys
sys.path.insert(0, "/verif")
from bounded import C08
cases, nontrivial, fails = C08.sweep(4, limit=1)
VIOLATED = bool(fails)
DETAIL = "real PartitionRecords vs oracles on %d small logs: %r" % (cases, fails[:1])
'''

if __name__ == "__main__":
    main()
