"""C11 — aiokafka/conn.py: where the version table a connection negotiates with comes from
(AIOKafkaConnection._do_version_lookup).

C11 "The version placed in the request header is the highest one both sides support, lies inside the broker's advertised
range": Request.prepare (under contract) picks the version from the table it is handed, send() hands it this connection's
`_versions`. "The broker" is the broker at the other end of *this* connection: after the lookup the table holds exactly
the ranges that broker's ApiVersions reply advertised - nothing left over from another reply or another connection (a
cluster in a rolling upgrade has brokers with different ranges)."""
from pyvc.contract import contract, classmodel, CLASSES
from pyvc.ty import INT, Tup, List, Dict, Ref
from . import conn as CN

MOD = CN.MOD
RANGE = Tup(INT, INT)
CLASSES["Conn"].fields["_versions"] = Dict(INT, RANGE)
classmodel("ApiVersionResponse", {"api_versions": List(Tup(INT, INT, INT))})
AV = "$resp.api_versions"


@contract(MOD + ":AIOKafkaConnection._do_version_lookup", ["C11"])
def _(c):
    c.self_("Conn")
    c.no_class_inv = True
    c.local("versions", Dict(INT, RANGE))
    c.ghost("$resp", Ref("ApiVersionResponse"), None)
    c.call("ApiVersionRequest", returns=Ref("RequestObj"), note="request builder object (its wire form: C11's stand-ins)")
    c.call("self.send", returns=Ref("ApiVersionResponse"), havoc_all=True, raises=["Exception"], ghost={"$resp": "result"},
           post=["result == $resp"],
           note="AIOKafkaConnection.send (under contract, conn_send.py), awaited: this connection's broker's ApiVersions reply")
    c.modifies("self._versions")
    c.raises("send-failed-or-a-range-with-min-above-max", "Exception")
    c.loop(0, header="for api_key, min_version, max_version in response.api_versions", invariants=[
        ("the-reply-is-the-one-awaited", "response == $resp"),
        ("keys-so-far", "forall(INT, lambda k: (k in versions) == exists(lambda j: 0 <= j < $i and %s[j][0] == k))" % AV),
        ("ranges-so-far", "forall(INT, lambda k: implies(k in versions, exists(lambda j: 0 <= j < $i and %s[j][0] == k"
                          " and %s[j][1] == versions[k][0] and %s[j][2] == versions[k][1])))" % (AV, AV, AV)),
    ])
    c.ensures("the-table-has-exactly-the-apis-this-brokers-reply-advertised",
              "forall(INT, lambda k: (k in self._versions) == exists(lambda j: 0 <= j < len(%s) and %s[j][0] == k))" % (AV, AV))
    c.ensures("each-range-is-one-this-brokers-reply-advertised-for-that-api",
              "forall(INT, lambda k: implies(k in self._versions, exists(lambda j: 0 <= j < len(%s) and %s[j][0] == k"
              " and %s[j][1] == self._versions[k][0] and %s[j][2] == self._versions[k][1])))" % (AV, AV, AV, AV))
    c.replay_fn = lambda model, ob=None: {"script": _LOOKUP_SCRIPT}


# replay: two real connection objects whose brokers advertise different ranges (a rolling upgrade), looked up in both orders
_LOOKUP_SCRIPT = '''
import asyncio, logging
logging.disable(logging.CRITICAL)
from aiokafka.conn import AIOKafkaConnection
from aiokafka.protocol.admin import ApiVersionResponse_v0
OLD = [(18, 0, 2), (10, 0, 0), (3, 0, 4)]
NEW = [(18, 0, 2), (10, 0, 1), (21, 0, 1)]
async def main():
    bad = []
    for first, second in ((OLD, NEW), (NEW, OLD)):
        conns = []
        for table in (first, second):
            conn = AIOKafkaConnection("h", 9092)
            async def send(request, table=table):
                return ApiVersionResponse_v0(0, list(table))
            conn.send = send
            await conn._do_version_lookup()
            conns.append((conn, table))
        for conn, table in conns:
            want = {k: (lo, hi) for k, lo, hi in table}
            if dict(conn._versions) != want:
                bad.append((want, dict(conn._versions)))
        for conn, _ in conns:
            conn._closed_fut = None
    return bad
bad = asyncio.run(main())
VIOLATED = bool(bad)
DETAIL = "after the lookup a connection's version table is not its own broker's reply (advertised, table): %r" % (bad[:2],) if bad else "ok"
'''
