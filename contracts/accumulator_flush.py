"""C02 / C07 — aiokafka/producer/message_accumulator.py: MessageAccumulator.flush and flush_for_commit.

C02: "flush() and stop() return only after every previously accepted record is resolved";
C07: "never ends a transaction while one of its batches is unacknowledged" (Sender._do_txn_commit awaits
flush_for_commit before it builds EndTxn: sender_txn.py).

An accepted record lives in a MessageBatch that is either queued (self._batches[tp]) or drained and in flight
(self._pending_batches) until its batch future is resolved (drain_by_nodes / reenqueue / MessageBatch.done|failure
contracts, message_accumulator.py). So the clause is: on normal return every batch that was queued or in flight when the
call started has a resolved future."""
from pyvc.contract import contract, classmodel, specfn, SPEC_TYPES
from pyvc.ty import V, INT, BOOL, REAL, STR, NONE, EXC, BYTES, Opt, Tup, List, Set, Dict, Ref
from pyvc.exec_base import Fut
from .common import TP
from . import message_accumulator as MA

MOD = MA.MOD
SPEC_TYPES["BATCH"] = MA.BATCH

ALL_RESOLVED = ("forall(BATCH, lambda b: implies(b in old(self._pending_batches), b.future.done()))"
                " and forall(TP, lambda q: forall(lambda j: implies(q in old(self._batches) and 0 <= j < len(old(self._batches)[q]),"
                " old(self._batches)[q][j].future.done())))")


def _common(c):
    c.self_("MessageAccumulator")
    c.local("waiters", List(MA.MSGFUT))
    c.no_class_inv = True
    # a batch's future is created in MessageBatch.__init__ and never replaced (checked over the package on every run)
    c.immutable("MessageBatch.future")
    c.call("asyncio.wait", returns=Tup(Set(MA.MSGFUT), Set(MA.MSGFUT)), havoc_all=True, raises=["CancelledError"],
           kwargs=[], nargs=1,     # no timeout=, no return_when=: any other call shape leaves this model
           post=["forall(lambda k: implies(0 <= k < len(a0), a0[k].done()))"],
           note="asyncio.wait(futures) with the default ALL_COMPLETED and no timeout: suspends; when it returns every "
                "future it was given is done")
    c.raises("cancelled", "CancelledError")
    c.ensures("every-batch-queued-or-in-flight-at-the-call-is-resolved", ALL_RESOLVED)
    c.replay_fn = lambda model, ob=None: {"script": _FLUSH_SCRIPT}


QUEUED_DONE = ("forall(TP, lambda q: forall(lambda j: implies(q in %s and 0 <= j < len(self._batches[q]),"
               " self._batches[q][j].future.done())))")
UNTOUCHED = "self._batches == old(self._batches) and self._pending_batches == old(self._pending_batches)"


@contract(MOD + ":MessageAccumulator.fail_all", ["C02", "C16"])
def _(c):
    """the sender task died (fatal error): every record accepted so far - queued or in flight - is failed"""
    c.self_("MessageAccumulator")
    c.param("exception", EXC)
    c.no_class_inv = True
    c.callee_view("MessageBatch.failure", ["all-resolved"])
    c.modifies("self._exception", "Future.state", "Future.nres", "Future.exc")
    c.raises("a-batch-future-was-cancelled", "CancelledError")
    c.loop(0, header="for batches in self._batches.values()", invariants=[
        ("queues-untouched", UNTOUCHED), ("visited-queues-resolved", QUEUED_DONE % "$done")])
    c.loop(1, header="for batch in batches", invariants=[
        ("queues-untouched", UNTOUCHED), ("visited-queues-resolved", QUEUED_DONE % "$done_0"),
        ("visited-batches-of-this-queue-resolved", "forall(lambda j: implies(0 <= j < $i, batches[j].future.done()))")])
    c.loop(2, header="for batch in self._pending_batches", invariants=[
        ("queues-untouched", UNTOUCHED), ("all-queues-resolved", QUEUED_DONE % "self._batches"),
        ("visited-in-flight-batches-resolved", "forall(BATCH, lambda b: implies(b in $done, b.future.done()))")])
    c.ensures("every-batch-queued-or-in-flight-is-resolved", ALL_RESOLVED)
    c.ensures("later-sends-see-the-error", "self._exception == exception")
    c.replay_fn = lambda model, ob=None: {"script": _FLUSH_SCRIPT.replace("flush_replay.sweep()", "flush_replay.fail_all_sweep()")}


_FLUSH_SCRIPT = '''
import sys
sys.path.insert(0, "/verif")
from specs import flush_replay
bad = flush_replay.sweep()
VIOLATED = bool(bad); DETAIL = repr(bad)
'''


@contract(MOD + ":MessageAccumulator.flush", ["C02"])
def _(c):
    _common(c)


@contract(MOD + ":MessageAccumulator.close", ["C02", "C19"])
def _(c):
    """producer.stop(): no record is accepted any more (add_message refuses once _closed is set), then everything
    accepted so far is flushed. The order matters: a record accepted after the flush took its snapshot of the batches
    would be covered by no flush, and stop() would return with its future unresolved."""
    c.self_("MessageAccumulator")
    c.no_class_inv = True
    c.immutable("MessageBatch.future")
    c.modifies("self._closed")
    c.raises("cancelled", "CancelledError")
    c.hook("before", "self.flush", [
        ("assert", "nothing-is-accepted-any-more-when-the-final-flush-takes-its-snapshot", "self._closed"),
    ])
    c.replay_fn = lambda model, ob=None: {"script": _FLUSH_SCRIPT.replace("flush_replay.sweep()", "flush_replay.close_sweep()")}
    c.ensures("every-batch-queued-or-in-flight-at-the-call-is-resolved", ALL_RESOLVED)


@contract(MOD + ":MessageAccumulator.flush_for_commit", ["C07", "C02"])
def _(c):
    _common(c)
    c.modifies("BatchBuilder._closed", "Future.state", "Future.nres", "Future.res")
    c.loop(0, header="for batches in self._batches.values()", invariants=[
        ("queues-untouched", "self._batches == old(self._batches) and self._pending_batches == old(self._pending_batches)"),
        ("visited-queues-are-waited-for",
         "forall(TP, lambda q: forall(lambda j: implies(q in $done and 0 <= j < len(self._batches[q]),"
         " exists(lambda k: 0 <= k < len(waiters) and waiters[k] == self._batches[q][j].future))))"),
    ])
    c.loop(1, header="for batch in batches", invariants=[
        ("queues-untouched", "self._batches == old(self._batches) and self._pending_batches == old(self._pending_batches)"),
        ("visited-queues-are-waited-for",
         "forall(TP, lambda q: forall(lambda j: implies(q in $done_0 and 0 <= j < len(self._batches[q]),"
         " exists(lambda k: 0 <= k < len(waiters) and waiters[k] == self._batches[q][j].future))))"),
        ("visited-batches-of-this-queue-are-waited-for",
         "forall(lambda j: implies(0 <= j < $i, exists(lambda k: 0 <= k < len(waiters) and waiters[k] == batches[j].future)))"),
    ])
