"""Shared by bounded/C06.py and bounded/C07.py: the handlers decide what a reply means by comparing
`Errors.for_code(code)` with error classes *by identity* (`error_type is CoordinatorLoadInProgressError`). That is only right
if for_code() returns that very class object for the class's own errno - which the error table in aiokafka/errors.py decides
(two classes with one errno, an alias turned into a subclass: for_code returns one of them, the comparison names the other)."""
import ast
import os


def identity_comparisons(relpaths):
    """-> (cases, failures) over every `x is <ErrorClass>` / `x is not <ErrorClass>` in the given repository files"""
    import aiokafka
    from aiokafka import errors as E
    root = os.path.dirname(os.path.dirname(os.path.abspath(aiokafka.__file__)))
    cases, fails, seen = 0, [], set()
    for rel in relpaths:
        path = os.path.join(root, rel)
        tree = ast.parse(open(path).read())
        modname = rel[:-3].replace("/", ".")
        mod = __import__(modname, fromlist=["x"])
        for n in ast.walk(tree):
            if not isinstance(n, ast.Compare) or not any(isinstance(op, (ast.Is, ast.IsNot)) for op in n.ops):
                continue
            for comp in n.comparators:
                name = ast.unparse(comp)
                try:
                    obj = eval(name, vars(mod))
                except Exception:
                    continue
                if not (isinstance(obj, type) and issubclass(obj, E.BrokerResponseError) and getattr(obj, "errno", None) is not None):
                    continue
                if (rel, name) in seen:
                    continue
                seen.add((rel, name))
                cases += 1
                got = E.for_code(obj.errno)
                if got is not obj:
                    fails.append({"file": rel, "compared_with": name, "errno": obj.errno, "for_code_returns": got.__name__,
                                  "line": n.lineno})
    return cases, fails
