"""C13 — aiokafka/consumer/fetcher.py: Fetcher._update_fetch_positions (start position of a partition: committed
offset, else the reset policy, a seek in flight wins) and the committed-offset waiters of TopicPartitionState."""
import z3
from pyvc import ty as T
from pyvc.contract import contract, classmodel, specfn, SPEC_TYPES, CLASSES
from pyvc.ty import V, INT, BOOL, REAL, STR, NONE, EXC, BYTES, Opt, Tup, List, Set, Dict, Ref, Opaque
from pyvc.exec_base import Fut, PyThing
from .common import TP, tp_ctor
from .subscription_state import OAM
from . import fetch_result, subscription_state, fetcher, fetcher_handout, fetcher_proc     # noqa: F401

MOD = "aiokafka.consumer.fetcher"
SMOD = "aiokafka.consumer.subscription_state"
STRATEGY_OK = ("self._default_reset_strategy == OffsetResetStrategy.LATEST or self._default_reset_strategy == OffsetResetStrategy.EARLIEST"
               " or self._default_reset_strategy == OffsetResetStrategy.NONE")
REQUESTED = Dict(TP, INT)
SPEC_TYPES["FUT_OAM"] = Fut(OAM)


@specfn("no_requests")
def no_requests(ex, st):
    return T.dict_mk(REQUESTED, z3.K(TP.sort(), False), z3.K(TP.sort(), T.intval(0).t))


@specfn("with_request")
def with_request(ex, st, d, k, v):
    if isinstance(v.ty, Opt):
        v = T.opt_val(v)              # callers pass a strategy already known not to be None
    return T.dict_mk(REQUESTED, z3.Store(T.dict_dom(d), k.t, True), z3.Store(T.dict_val(d), k.t, v.t))


# ------------------------------------------------------------------ committed-offset waiters
@contract(SMOD + ":TopicPartitionState.fetch_committed", ["C13", "C04"])
def _(c):
    c.self_("TPState")
    c.returns(Fut(OAM))
    c.local("fut", Fut(OAM))
    c.modifies("self._committed_futs", "Event.g_set")
    c.call("self._assignment.commit_refresh_needed.set", modifies=["self_.g_set"], post=["self_.g_set"],
           note="asyncio.Event.set(): wakes the coordinator's commit-refresh routine")
    c.ensures("a-new-pending-waiter-is-registered-last",
              "fresh(result) and not result.done() and len(self._committed_futs) == len(old(self._committed_futs)) + 1"
              " and self._committed_futs[len(self._committed_futs) - 1] == result"
              " and forall(lambda j: implies(0 <= j < len(old(self._committed_futs)), self._committed_futs[j] == old(self._committed_futs)[j]))")
    c.ensures("coordinator-is-asked-to-refresh", "self._assignment.commit_refresh_needed.g_set")


@contract(SMOD + ":TopicPartitionState.update_committed", ["C13", "C04"])
def _(c):
    c.self_("TPState")
    c.param("offset_meta", OAM)
    c.modifies("self._committed_futs", "Future.state", "Future.nres", "Future.res")
    c.loop(0, header="for fut in self._committed_futs", invariants=[
        ("list-fixed", "self._committed_futs == old(self._committed_futs)"),
        ("answered-prefix", "forall(lambda j: implies(0 <= j < $i, self._committed_futs[j].done()))"),
        # (the same future may be listed twice: stated over futures, not over list positions)
        ("answered-only-with-that-offset", "forall(FUT_OAM, lambda r: implies(r.done() and not old(r.done()), r.result() == offset_meta))"),
    ])
    c.ensures("every-pending-waiter-gets-that-offset",
              "forall(lambda j: implies(0 <= j < len(old(self._committed_futs)), old(self._committed_futs)[j].done()"
              " and (old(self._committed_futs[j].done()) or old(self._committed_futs)[j].result() == offset_meta)))")
    c.ensures("no-waiter-is-answered-twice", "len(self._committed_futs) == 0")


# ------------------------------------------------------------------ Fetcher._update_fetch_positions
@contract(MOD + ":Fetcher._update_fetch_positions", ["C13", "C03", "C04"])
def _(c):
    c.self_("Fetcher")
    c.param("assignment", Ref("Assignment"))
    c.param("node_id", INT)
    c.param("tps", List(TP))
    c.returns(BOOL)
    c.local("topic_data", Dict(STR, List(Tup(INT, INT)), default="list"))
    c.local("needs_reset", List(Tup(TP, INT)))
    c.local("offsets", Dict(TP, Tup(INT, INT)))
    c.ghost("$requested", REQUESTED, "no_requests()")        # partition -> the reset strategy put into the ListOffsets request
    # "raises NoOffsetForPartition ... to the caller": the error is parked in the partition's buffer slot; a caller already
    # waiting in getone()/getmany() learns of it only if this call reports that something was parked (the fetch routine wakes
    # the waiters exactly then) - whatever else happens in the same call
    c.ghost("$parked", BOOL, "False")
    c.local("needs_wakeup", BOOL)
    c.owns("self._client", "self._subscriptions", "self._default_reset_strategy")
    c.requires(STRATEGY_OK, "reset-policy-is-a-strategy-constant")
    c.none_raises = True
    c.call("asyncio.sleep", havoc_all=True, raises=["CancelledError"], note="suspends")
    c.call("self._proc_offset_request", returns=Dict(TP, Tup(INT, INT)), havoc_all=True, raises=["KafkaError", "CancelledError"],
           note="sends ListOffsets(node_id, {topic: [(partition, strategy)]}) and returns {tp: (offset, timestamp)} as the broker "
                "reports it for the consumer's isolation level (request construction: C11 contract on OffsetRequest.build)")
    c.call("OffsetResetStrategy.to_str", returns=STR, note="strategy constant to text, for logging")
    c.modifies("self._records", "TPState._position", "TPState._reset_strategy", "TPState._status", "TPState._position_fut",
               "TPState._committed_futs", "Event.g_set", "Future.state", "Future.nres", "Future.exc", "Future.res")
    # AttributeError (a partition outside the assignment), KeyError (ListOffsets answer without the partition),
    # AssertionError from _set_error, an exception stored in the committed-offset future
    c.raises("lookup-failed-partition-unknown-or-cancelled-while-backing-off", "BaseException")
    c.loop(0, header="for tp in tps", invariants=[("nothing-requested-yet", "$requested == no_requests()"),
                                                  ("an-error-parked-so-far-will-be-announced", "implies($parked, needs_wakeup)")])
    c.ensures("an-error-parked-for-the-caller-is-announced-to-the-waiting-callers", "implies($parked, result)")
    STATE_OF = "assignment._tp_state[%s]._reset_strategy"
    c.loop(1, header="for tp in tps", invariants=[
        ("requests-carry-the-pending-strategy",
         "forall(TP, lambda q: implies(q in $requested, q in assignment._tp_state and assignment._tp_state[q]._reset_strategy is not None"
         " and $requested[q] == assignment._tp_state[q]._reset_strategy))"),
        ("asked-with-the-recorded-strategy", "forall(lambda k: implies(0 <= k < len(needs_reset), needs_reset[k][0] in $requested"
         " and $requested[needs_reset[k][0]] == needs_reset[k][1]))"),
    ])
    c.loop(2, header="for tp, strategy in needs_reset", invariants=[
        ("asked-with-the-recorded-strategy", "forall(lambda k: implies(0 <= k < len(needs_reset), needs_reset[k][0] in $requested"
         " and $requested[needs_reset[k][0]] == needs_reset[k][1]))"),
    ])
    UNPOSITIONED = "tp_state._position is None and tp_state._reset_strategy is None"
    # ---- first pass: committed offset, else the policy
    c.hook("before", "tp_state.await_reset", [
        ("assert", "policy-applies-only-when-the-group-has-no-committed-offset", "committed.offset == UNKNOWN_OFFSET"),
        ("assert", "a-seek-or-reset-issued-meanwhile-takes-precedence", UNPOSITIONED),
        ("assert", "reset-follows-the-configured-policy", "a0 == self._default_reset_strategy"
         " and self._default_reset_strategy != OffsetResetStrategy.NONE"),
    ])
    c.hook("before", "tp_state.reset_to#0", [
        ("assert", "starts-at-the-committed-offset", "a0 == committed.offset and committed.offset != UNKNOWN_OFFSET"),
        ("assert", "a-seek-or-reset-issued-meanwhile-takes-precedence", UNPOSITIONED),
    ])
    c.hook("before", "self._set_error", [
        ("assert", "policy-none-raises-no-offset-for-partition",
         "a0 == tp and a1 == Errors.NoOffsetForPartitionError and committed.offset == UNKNOWN_OFFSET"
         " and self._default_reset_strategy == OffsetResetStrategy.NONE"),
        ("assert", "a-seek-or-reset-issued-meanwhile-takes-precedence", UNPOSITIONED),
        ("set", "$parked", "True"),
    ])
    # ---- second pass: ListOffsets for the partitions awaiting a reset
    c.hook("before", "topic_data*.append", [
        ("assert", "asks-with-the-pending-strategy", "a0[0] == tp.partition and tp_state._reset_strategy is not None"
         " and a0[1] == tp_state._reset_strategy"),
        ("set", "$requested", "with_request($requested, tp, a0[1])"),
    ])
    c.hook("before", "tp_state.reset_to#1", [
        ("assert", "applies-the-offset-the-broker-reported-for-that-partition", "a0 == offsets[tp][0]"),
        ("assert", "a-seek-issued-meanwhile-takes-precedence", "tp_state._reset_strategy is not None"),
        ("assert", "offset-was-looked-up-with-the-strategy-still-pending", "tp in $requested and tp_state._reset_strategy == $requested[tp]"),
    ])

    @c.replay
    def replay(model, ob=None):
        return {"script": _POS_SCRIPT}


# scenario sweep on the real Fetcher._update_fetch_positions (real SubscriptionState; the committed-offset answer and the
# ListOffsets answer are stubs that report log start 10 / log end 90): committed offset present or absent, the three
# policies, and a user action landing while the committed-offset lookup or the ListOffsets request is in flight
_POS_SCRIPT = '''
import asyncio, logging, itertools
logging.disable(logging.CRITICAL)
from aiokafka.client import AIOKafkaClient
from aiokafka.consumer.fetcher import Fetcher, FetchError, OffsetResetStrategy
from aiokafka.consumer.subscription_state import SubscriptionState
from aiokafka.structs import TopicPartition, OffsetAndMetadata
from aiokafka import errors as E

LOG = {OffsetResetStrategy.EARLIEST: 10, OffsetResetStrategy.LATEST: 90}
ACTIONS = (None, "seek", "seek_to_beginning", "seek_to_end")

async def one(policy, committed, act1, act2, start):
    """start: 'fresh' (just assigned) or a strategy already pending (out-of-range / seek_to_* earlier)"""
    client = AIOKafkaClient(bootstrap_servers=[])
    subs = SubscriptionState()
    fetcher = Fetcher(client, subs, auto_offset_reset=policy)
    try:
        tp = TopicPartition("t", 0)
        subs.assign_from_user({tp})
        assignment = subs.subscription.assignment
        st = assignment.state_value(tp)
        if start != "fresh":
            st.await_reset(start)
        last = {"explicit": None}
        def act(a):
            if a == "seek":
                fetcher.seek_to(tp, 55); last["explicit"] = ("offset", 55)
            elif a == "seek_to_beginning":
                fetcher.request_offset_reset([tp], OffsetResetStrategy.EARLIEST); last["explicit"] = ("strategy", OffsetResetStrategy.EARLIEST)
            elif a == "seek_to_end":
                fetcher.request_offset_reset([tp], OffsetResetStrategy.LATEST); last["explicit"] = ("strategy", OffsetResetStrategy.LATEST)
        asked = []
        async def proc_offset_request(node_id, topic_data):
            strategies = {p: s for t, ps in topic_data.items() for p, s in ps}
            asked.append(strategies[0])
            await asyncio.sleep(0)
            act(act2)                                     # lands while ListOffsets is in flight
            return {tp: (LOG[strategies[0]], -1)}
        fetcher._proc_offset_request = proc_offset_request
        task = asyncio.ensure_future(fetcher._update_fetch_positions(assignment, 0, [tp]))
        await asyncio.sleep(0)
        if start == "fresh":
            act(act1)                                     # lands while the committed-offset lookup is in flight
            st.update_committed(OffsetAndMetadata(committed, ""))
        await task
        what = "policy=%s committed=%s start=%s during-commit-lookup=%s during-list-offsets=%s" % (policy, committed, start, act1, act2)
        buf = fetcher._records.get(tp)
        # what the partition must look like now
        exp = last["explicit"]
        if exp is not None and exp[0] == "offset":
            ok = st.has_valid_position and st.position == 55
            return None if ok else what + ": seek(55) lost: position=%s awaiting_reset=%s" % (st._position, st.awaiting_reset)
        if exp is not None:
            # an explicit seek_to_* is pending or was served with ITS strategy
            if st.has_valid_position:
                ok = st.position == LOG[exp[1]]
            else:
                ok = st.awaiting_reset and st.reset_strategy == exp[1]
            return None if ok else what + ": explicit reset to %s was answered with position=%s (awaiting=%s strategy=%s)" % (exp[1], st._position, st.awaiting_reset, st._reset_strategy)
        if start != "fresh":
            ok = st.has_valid_position and st.position == LOG[start]
            return None if ok else what + ": pending reset %s ended at %s" % (start, st._position)
        if committed != -1:
            ok = st.has_valid_position and st.position == committed
            return None if ok else what + ": must start at the committed offset, position=%s" % (st._position,)
        if policy == "none":
            ok = isinstance(buf, FetchError) and isinstance(buf._error, E.NoOffsetForPartitionError) and not st.has_valid_position
            return None if ok else what + ": policy none must surface NoOffsetForPartitionError, got %r" % (buf,)
        want = LOG[OffsetResetStrategy.from_str(policy)]
        ok = st.has_valid_position and st.position == want
        return None if ok else what + ": expected position %d, got %s" % (want, st._position)
    finally:
        await fetcher.close()

async def two(fault):
    """policy none: partition a has nothing committed (its error is parked), partition b waits for seek_to_end() and its
    ListOffsets fails in the same call: the call must still report that something was parked"""
    client = AIOKafkaClient(bootstrap_servers=[])
    subs = SubscriptionState()
    fetcher = Fetcher(client, subs, auto_offset_reset="none", retry_backoff_ms=1)
    try:
        a, b = TopicPartition("t", 0), TopicPartition("t", 1)
        subs.assign_from_user({a, b})
        assignment = subs.subscription.assignment
        assignment.state_value(b).await_reset(OffsetResetStrategy.LATEST)
        async def proc_offset_request(node_id, topic_data):
            if fault is None:
                return {b: (90, -1)}
            raise fault
        fetcher._proc_offset_request = proc_offset_request
        task = asyncio.ensure_future(fetcher._update_fetch_positions(assignment, 0, [a, b]))
        await asyncio.sleep(0)
        assignment.state_value(a).update_committed(OffsetAndMetadata(-1, ""))
        woke = await task
        parked = isinstance(fetcher._records.get(a), FetchError)
        if parked and not woke:
            return "policy none, ListOffsets for another partition of the same call %s: NoOffsetForPartitionError was parked but the call reported nothing to wake the waiting getone()/getmany() for" % ("fails with %s" % type(fault).__name__ if fault else "succeeds")
        if not parked:
            return "policy none: no error parked for the partition without a committed offset"
        return None
    finally:
        await fetcher.close()

async def main():
    bad = []
    for fault in (None, E.RequestTimedOutError(), E.NotLeaderForPartitionError()):
        r = await two(fault)
        if r: bad.append(r)
    for policy, committed, a1, a2 in itertools.product(("latest", "earliest", "none"), (-1, 0, 42), ACTIONS, ACTIONS):
        r = await one(policy, committed, a1, a2, "fresh")
        if r: bad.append(r)
    for policy, start, a2 in itertools.product(("latest", "earliest", "none"), (OffsetResetStrategy.EARLIEST, OffsetResetStrategy.LATEST), ACTIONS):
        r = await one(policy, -1, None, a2, start)
        if r: bad.append(r)
    return bad
bad = asyncio.run(main())
VIOLATED = bool(bad); DETAIL = "%d scenario(s) fail; first: %s" % (len(bad), bad[:2])
'''
