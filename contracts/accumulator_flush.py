"""C02 / C07 — aiokafka/producer/message_accumulator.py: MessageAccumulator.flush and flush_for_commit.

C02: "flush() and stop() return only after every previously accepted record is resolved";
C07: "never ends a transaction while one of its batches is unacknowledged" (Sender._do_txn_commit awaits
flush_for_commit before it builds EndTxn: sender_txn.py).

An accepted record lives in a MessageBatch that is either queued (self._batches[tp]) or drained and in flight
(self._pending_batches) until its batch future is resolved (drain_by_nodes / reenqueue / MessageBatch.done|failure
contracts, message_accumulator.py). So the clause is: on normal return every batch that was queued or in flight when the
call started has a resolved future."""
from pyvc.contract import contract, classmodel, specfn, SPEC_TYPES
from pyvc.ty import V, INT, BOOL, REAL, STR, NONE, EXC, BYTES, Opt, Tup, List, Set, Dict, Ref
from pyvc.exec_base import Fut
from .common import TP
from . import message_accumulator as MA

MOD = MA.MOD
SPEC_TYPES["BATCH"] = MA.BATCH

ALL_RESOLVED = ("forall(BATCH, lambda b: implies(b in old(self._pending_batches), b.future.done()))"
                " and forall(TP, lambda q: forall(lambda j: implies(q in old(self._batches) and 0 <= j < len(old(self._batches)[q]),"
                " old(self._batches)[q][j].future.done())))")


def _common(c):
    c.self_("MessageAccumulator")
    c.local("waiters", List(MA.MSGFUT))
    c.no_class_inv = True
    # a batch's future is created in MessageBatch.__init__ and never replaced (checked over the package on every run)
    c.immutable("MessageBatch.future")
    c.call("asyncio.wait", returns=Tup(Set(MA.MSGFUT), Set(MA.MSGFUT)), havoc_all=True, raises=["CancelledError"],
           kwargs=[], nargs=1,     # no timeout=, no return_when=: any other call shape leaves this model
           post=["forall(lambda k: implies(0 <= k < len(a0), a0[k].done()))"],
           note="asyncio.wait(futures) with the default ALL_COMPLETED and no timeout: suspends; when it returns every "
                "future it was given is done")
    c.raises("cancelled", "CancelledError")
    c.ensures("every-batch-queued-or-in-flight-at-the-call-is-resolved", ALL_RESOLVED)
    c.replay_fn = lambda model, ob=None: {"script": _FLUSH_SCRIPT}


QUEUED_DONE = ("forall(TP, lambda q: forall(lambda j: implies(q in %s and 0 <= j < len(self._batches[q]),"
               " self._batches[q][j].future.done())))")
UNTOUCHED = "self._batches == old(self._batches) and self._pending_batches == old(self._pending_batches)"


@contract(MOD + ":MessageAccumulator.fail_all", ["C02", "C16"])
def _(c):
    """the sender task died (fatal error): every record accepted so far - queued or in flight - is failed"""
    c.self_("MessageAccumulator")
    c.param("exception", EXC)
    c.no_class_inv = True
    c.callee_view("MessageBatch.failure", ["all-resolved"])
    c.modifies("self._exception", "Future.state", "Future.nres", "Future.exc")
    c.raises("a-batch-future-was-cancelled", "CancelledError")
    c.loop(0, header="for batches in self._batches.values()", invariants=[
        ("queues-untouched", UNTOUCHED), ("visited-queues-resolved", QUEUED_DONE % "$done")])
    c.loop(1, header="for batch in batches", invariants=[
        ("queues-untouched", UNTOUCHED), ("visited-queues-resolved", QUEUED_DONE % "$done_0"),
        ("visited-batches-of-this-queue-resolved", "forall(lambda j: implies(0 <= j < $i, batches[j].future.done()))")])
    c.loop(2, header="for batch in self._pending_batches", invariants=[
        ("queues-untouched", UNTOUCHED), ("all-queues-resolved", QUEUED_DONE % "self._batches"),
        ("visited-in-flight-batches-resolved", "forall(BATCH, lambda b: implies(b in $done, b.future.done()))")])
    c.ensures("every-batch-queued-or-in-flight-is-resolved", ALL_RESOLVED)
    c.ensures("later-sends-see-the-error", "self._exception == exception")
    c.replay_fn = lambda model, ob=None: {"script": _FLUSH_SCRIPT.replace("flush_replay.sweep()", "flush_replay.fail_all_sweep()")}


_FLUSH_SCRIPT = '''
import sys
sys.path.insert(0, "/verif")
from specs import flush_replay
bad = flush_replay.sweep()
VIOLATED = bool(bad); DETAIL = repr(bad)
'''


@contract(MOD + ":MessageAccumulator.flush", ["C02"])
def _(c):
    _common(c)


@contract(MOD + ":MessageAccumulator.close", ["C02", "C19"])
def _(c):
    """producer.stop(): no record is accepted any more (add_message refuses once _closed is set), then everything
    accepted so far is flushed. The order matters: a record accepted after the flush took its snapshot of the batches
    would be covered by no flush, and stop() would return with its future unresolved."""
    c.self_("MessageAccumulator")
    c.no_class_inv = True
    c.immutable("MessageBatch.future")
    c.modifies("self._closed")
    c.raises("cancelled", "CancelledError")
    c.hook("before", "self.flush", [
        ("assert", "nothing-is-accepted-any-more-when-the-final-flush-takes-its-snapshot", "self._closed"),
    ])
    c.replay_fn = lambda model, ob=None: {"script": _FLUSH_SCRIPT.replace("flush_replay.sweep()", "flush_replay.close_sweep()")}
    c.ensures("every-batch-queued-or-in-flight-at-the-call-is-resolved", ALL_RESOLVED)


@contract(MOD + ":MessageAccumulator.flush_for_commit", ["C07", "C02"])
def _(c):
    _common(c)
    c.modifies("BatchBuilder._closed", "Future.state", "Future.nres", "Future.res")
    c.loop(0, header="for batches in self._batches.values()", invariants=[
        ("queues-untouched", "self._batches == old(self._batches) and self._pending_batches == old(self._pending_batches)"),
        ("visited-queues-are-waited-for",
         "forall(TP, lambda q: forall(lambda j: implies(q in $done and 0 <= j < len(self._batches[q]),"
         " exists(lambda k: 0 <= k < len(waiters) and waiters[k] == self._batches[q][j].future))))"),
    ])
    c.loop(1, header="for batch in batches", invariants=[
        ("queues-untouched", "self._batches == old(self._batches) and self._pending_batches == old(self._pending_batches)"),
        ("visited-queues-are-waited-for",
         "forall(TP, lambda q: forall(lambda j: implies(q in $done_0 and 0 <= j < len(self._batches[q]),"
         " exists(lambda k: 0 <= k < len(waiters) and waiters[k] == self._batches[q][j].future))))"),
        ("visited-batches-of-this-queue-are-waited-for",
         "forall(lambda j: implies(0 <= j < $i, exists(lambda k: 0 <= k < len(waiters) and waiters[k] == batches[j].future)))"),
    ])


# ------------------------------------------------------------------ MessageAccumulator.fail_undrained (fix be87f86)
ONLY_RETRIES = ("forall(TP, lambda q: forall(lambda j: implies(q in self._batches and 0 <= j < len(self._batches[q]),"
                " self._batches[q][j]._retry_count > 0)))")


@contract(MOD + ":MessageAccumulator.fail_undrained", ["C07", "C16", "C02"])
def _(c):
    """C07 'never writes to a partition before the coordinator acknowledged adding it': once the transaction has an
    abortable error the partitions awaiting registration are forgotten and nothing mutes them any more; what was never
    sent is failed here, so that the drain that follows (Sender._sender_routine, hook
    with-an-abortable-error-nothing-unsent-is-left-to-drain) finds only batches waiting for a retry"""
    c.self_("MessageAccumulator")
    c.param("exception", EXC)
    c.no_class_inv = True
    c.local("retries", List(MA.BATCH))
    c.callee_view("MessageBatch.failure", ["all-resolved"])
    c.call("collections.deque", returns="a0", note="deque(list): the same batches in the same order")
    c.modifies("self._batches", "Future.state", "Future.nres", "Future.exc")
    c.raises("a-batch-future-was-cancelled", "CancelledError")
    c.loop(0, header="for tp in list(self._batches.keys())", invariants=[
        ("visited-queues-hold-only-retries", "forall(TP, lambda q: forall(lambda j: implies(q in $done and q in self._batches"
         " and 0 <= j < len(self._batches[q]), self._batches[q][j]._retry_count > 0)))"),
        ("unvisited-queues-untouched", "forall(TP, lambda q: implies(q not in $done, (q in self._batches) == (q in old(self._batches))"
         " and implies(q in self._batches, self._batches[q] == old(self._batches)[q])))"),
        ("no-queue-appears", "forall(TP, lambda q: implies(q in self._batches, q in old(self._batches)))"),
        ("visited-queues-unsent-batches-resolved", "forall(TP, lambda q: forall(lambda j: implies(q in $done and q in old(self._batches)"
         " and 0 <= j < len(old(self._batches)[q]) and old(self._batches)[q][j]._retry_count == 0, old(self._batches)[q][j].future.done())))"),
        ("only-listed-queues-exist", "forall(TP, lambda q: implies(q in old(self._batches), q in $dom))"),
    ])
    c.loop(1, header="for batch in batches", invariants=[
        ("visited-queues-unsent-batches-resolved", "forall(TP, lambda q: forall(lambda j: implies(q in $done_0 and q in old(self._batches)"
         " and 0 <= j < len(old(self._batches)[q]) and old(self._batches)[q][j]._retry_count == 0, old(self._batches)[q][j].future.done())))"),
        
        ("visited-queues-hold-only-retries", "forall(TP, lambda q: forall(lambda j: implies(q in $done_0 and q in self._batches"
         " and 0 <= j < len(self._batches[q]), self._batches[q][j]._retry_count > 0)))"),
        ("unvisited-queues-untouched", "forall(TP, lambda q: implies(q not in $done_0, (q in self._batches) == (q in old(self._batches))"
         " and implies(q in self._batches, self._batches[q] == old(self._batches)[q])))"),
        ("no-queue-appears", "forall(TP, lambda q: implies(q in self._batches, q in old(self._batches)))"),
        ("this-queue-not-replaced-yet", "tp in self._batches and batches == self._batches[tp] and batches == old(self._batches)[tp]"),
        ("retries-are-the-drained-batches-of-this-queue", "forall(lambda k: implies(0 <= k < len(retries), retries[k]._retry_count > 0))"),
        ("visited-unsent-batches-resolved", "forall(lambda j: implies(0 <= j < $i and batches[j]._retry_count == 0, batches[j].future.done()))"),
    ])
    c.ensures("everything-still-queued-waits-for-a-retry", ONLY_RETRIES)
    c.ensures("what-was-never-sent-is-resolved",
              "forall(TP, lambda q: forall(lambda j: implies(q in old(self._batches) and 0 <= j < len(old(self._batches)[q])"
              " and old(self._batches)[q][j]._retry_count == 0, old(self._batches)[q][j].future.done())))")
    c.replay_fn = lambda model, ob=None: {"script": _UNDRAINED_SCRIPT}


# replay: real accumulator: a retried batch (drained once, re-enqueued) and two never-drained batches on two partitions
_UNDRAINED_SCRIPT = '''
import asyncio, logging
logging.disable(logging.CRITICAL)
from aiokafka.producer.message_accumulator import MessageAccumulator
from aiokafka.structs import TopicPartition

class Cluster:
    def leader_for_partition(self, tp):
        return 1

async def main():
    bad = []
    acc = MessageAccumulator(Cluster(), 1 << 16, 0, 1000)
    t0, t1 = TopicPartition("t", 0), TopicPartition("t", 1)
    f_retry = await acc.add_message(t0, None, b"retry", 1)
    nodes, _ = acc.drain_by_nodes(ignore_nodes=set(), muted_partitions={t1})
    retried = nodes[1][t0]
    f_new0 = await acc.add_message(t0, None, b"new0", 1)        # a send() while the first batch is in flight: a new batch
    acc.reenqueue(retried)                                      # the request failed retriably: queue [retry, never-sent]
    f_new1 = await acc.add_message(t1, None, b"new1", 1)
    acc.fail_undrained(RuntimeError("abortable"))
    for f in (f_new0, f_new1):
        if not (f.done() and isinstance(f.exception(), RuntimeError)):
            bad.append("a batch that was never sent is still unresolved: %r" % (f,))
    if f_retry.done():
        bad.append("a batch waiting for a retry (it may have reached the broker) was failed")
    left = {tp: [b.retry_count for b in q] for tp, q in acc._batches.items()}
    if left != {t0: [1]}:
        bad.append("queues afterwards (retry counts): %r" % (left,))
    retried.done_noack()
    return bad
bad = asyncio.run(main())
VIOLATED = bool(bad); DETAIL = "; ".join(bad)
'''
