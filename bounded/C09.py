"""C09 — bounded stand-in (never counted as proved). The statement's clauses as runtime contracts on the real codecs,
compiled implementation rebuilt from the tree's .pyx sources: round trip, cross-implementation decoding, well-formed
header fields, concatenations of mixed formats with a trailing partial batch, size accounting."""
import argparse
import itertools
import json
import random
import struct

from bounded import codec_common as cc

cc.use_fresh_extensions()


def emit(d):
    print("BOUNDED " + json.dumps(d, default=str))


def expected(magic, records, base=0):
    out = []
    for i, (ts, k, v, h) in enumerate(records):
        out.append((base + i, ts if magic > 0 else None, k, v, [(a, b) for a, b in h] if magic == 2 else []))
    return out


def roundtrips(tier):
    fails, n, nontrivial = [], 0, 0
    codecs = cc.codecs_available()
    for magic, codec, enc, recs in itertools.product((0, 1, 2), codecs, ("py", "c"), cc.record_sets()):
        if magic < 2 and codec == 4:
            continue                                    # zstd needs v2
        if magic == 0 and codec == 3:
            continue                                    # lz4 is refused for v0 (KAFKA-3160)
        if magic < 2 and any(h for _, _, _, h in recs):
            recs = [(ts, k, v, []) for ts, k, v, _ in recs]
        try:
            data = cc.build(enc, magic, codec, recs)
        except (SystemError, MemoryError) as e:
            fails.append({"clause": "build", "magic": magic, "codec": codec, "encoder": enc, "error": repr(e)})
            continue
        except Exception as e:
            fails.append({"clause": "build", "magic": magic, "codec": codec, "encoder": enc, "error": repr(e), "records": repr(recs)[:200]})
            continue
        if data is None:
            continue
        want = expected(magic, recs)
        for dec in ("py", "c"):
            n += 1
            nontrivial += len(recs) > 1
            try:
                got = cc.decode(dec, data, validate=True)
            except (SystemError, MemoryError) as e:
                got = ("internal", repr(e))
            ok = got[0] == "ok" and got[1] == want and all(got[2])
            if not ok:
                fails.append({"clause": "round-trip", "magic": magic, "codec": codec, "encoder": enc, "decoder": dec,
                              "got": repr(got)[:300], "want": repr(want)[:300], "bytes": data.hex()[:400]})
        # header fields of the produced bytes (v2): lengths, record count, last offset delta, timestamps
        if magic == 2 and len(data) >= 61:
            length = struct.unpack(">i", data[8:12])[0]
            lod, fts, mts = struct.unpack(">i", data[23:27])[0], struct.unpack(">q", data[27:35])[0], struct.unpack(">q", data[35:43])[0]
            cnt = struct.unpack(">i", data[57:61])[0]
            tss = [ts for ts, _, _, _ in recs]
            if not (length == len(data) - 12 and cnt == len(recs) and lod == len(recs) - 1 and fts == tss[0] and mts == max(tss)):
                fails.append({"clause": "header-fields", "encoder": enc, "codec": codec, "length": length, "len": len(data), "count": cnt,
                              "last_offset_delta": lod, "first_ts": fts, "max_ts": mts, "records": len(recs)})
        if len(fails) >= 20:
            break
    return n, nontrivial, fails


def concatenations(tier, seed):
    rnd = random.Random(seed)
    sets = cc.record_sets()
    pool = []
    for magic in (0, 1, 2):
        for codec in (0, 1):
            for enc in ("py", "c"):
                recs = [(ts, k, v, h if magic == 2 else []) for ts, k, v, h in rnd.choice(sets)]
                data = cc.build(enc, magic, codec, recs)
                if data is not None:
                    pool.append((magic, data))
    fails, n = [], 0
    rounds = 60 if tier == "quick" else 600
    for _ in range(rounds):
        parts = [rnd.choice(pool) for _ in range(rnd.randint(1, 4))]
        whole = b"".join(d for _, d in parts)
        cut = rnd.choice(pool)[1]
        trailing = cut[:rnd.randint(0, len(cut) - 1)]
        for dec in ("py", "c"):
            n += 1
            try:
                # (a cut through an uncompressed v0/v1 message set may still contain whole messages: the expected result
                #  is the whole entries of every piece, the cut piece included, and nothing of its partial tail)
                each = [cc.decode(dec, d) for _, d in parts] + [cc.decode(dec, trailing)]
                got = cc.decode(dec, whole + trailing)
            except (SystemError, MemoryError) as e:
                fails.append({"clause": "concatenation", "decoder": dec, "error": repr(e), "magics": [m for m, _ in parts]})
                continue
            want = [r for e in each for r in (e[1] if e[0] == "ok" else [])]
            if not (got[0] == "ok" and got[1] == want):
                fails.append({"clause": "concatenation", "decoder": dec, "magics": [m for m, _ in parts], "trailing": len(trailing),
                              "got": repr(got)[:300], "want": repr(want)[:300]})
        if len(fails) >= 10:
            break
    return n, fails


def log_append_time():
    """a compressed v1 wrapper stamped by the broker (LogAppendTime: timestamp type bit set in the wrapper's attributes,
    broker time in the wrapper): every inner record takes the wrapper's timestamp and reports timestamp_type 1; with
    CreateTime (bit clear) the inner timestamps are kept (Kafka message format v1)"""
    fails, n = [], 0
    I = cc.impls()
    recs = [(100 + i, b"k%d" % i, b"v", []) for i in range(3)]
    for enc in ("py", "c"):
        for codec in (1,) + tuple(c for c in (2, 3) if c in cc.codecs_available()):
            data = bytearray(cc.build(enc, 1, codec, recs))
            for lat in (False, True):
                buf = bytearray(data)
                if lat:
                    buf[17] |= 0x08                                  # wrapper attributes: LogAppendTime
                    buf[18:26] = struct.pack(">q", 999999)           # the broker's append time
                for dec in ("py", "c"):
                    n += 1
                    try:
                        b = I[dec]["mem"](bytes(buf)).next_batch()
                        got = [(r.offset, r.timestamp, r.timestamp_type) for r in b]
                    except Exception as e:
                        got = "raised %r" % e
                    want = [(i, 999999 if lat else 100 + i, 1 if lat else 0) for i in range(3)]
                    if got != want:
                        fails.append({"clause": "log-append-time", "encoder": enc, "decoder": dec, "codec": codec, "log_append_time": lat,
                                      "got": repr(got), "want": repr(want)})
    return n, fails


def size_accounting():
    fails, n = [], 0
    for impl in ("py", "c"):
        I = cc.impls()[impl]
        for recs in cc.record_sets():
            n += 1
            b = I["v2b"](magic=2, compression_type=0, is_transactional=0, producer_id=-1, producer_epoch=-1, base_sequence=-1, batch_size=1 << 22)
            for i, (ts, k, v, h) in enumerate(recs):
                est_before = b.size()
                sz = b.size_in_bytes(i, ts, k, v, h)
                md = b.append(i, ts, k, v, h)
                if md is not None and b.size() - est_before > sz:
                    fails.append({"clause": "size-upper-bound", "impl": impl, "record": i, "estimate": sz, "grew": b.size() - est_before})
            size_claim = b.size()
            data = bytes(b.build())
            if size_claim != len(data):
                fails.append({"clause": "size-equals-bytes", "impl": impl, "size()": size_claim, "len": len(data)})
            # batch_size limit: a builder whose limit equals the bytes produced must accept exactly these records;
            # one byte less must refuse the last one (the first record is always accepted)
            if len(recs) > 1:
                for limit, want_all in ((len(data), True), (len(data) - 1, False)):
                    b2 = I["v2b"](magic=2, compression_type=0, is_transactional=0, producer_id=-1, producer_epoch=-1, base_sequence=-1, batch_size=limit)
                    acc = [b2.append(i, ts, k, v, h) is not None for i, (ts, k, v, h) in enumerate(recs)]
                    if all(acc) != want_all:
                        fails.append({"clause": "batch-size-limit", "impl": impl, "limit": limit, "bytes": len(data), "accepted": acc})
    return n, fails


def refused_appends():
    """The accumulator's way of using a builder: records are appended until one is refused for size (None), the refused
    one goes to the next batch, the batch is built. The bytes must be the well-formed batch of exactly the accepted
    records - a refused append leaves no trace - and both implementations must produce the same bytes for the same
    sequence of calls."""
    fails, n = [], 0
    for magic, codec in ((2, 0), (2, 1), (1, 0), (1, 1), (0, 0)):
        built = {}
        for impl in ("py", "c"):
            I = cc.impls()[impl]

            def mk(limit):
                if magic == 2:
                    return I["v2b"](magic=2, compression_type=codec, is_transactional=0, producer_id=-1, producer_epoch=-1,
                                    base_sequence=-1, batch_size=limit)
                return I["v01b"](magic=magic, compression_type=codec, batch_size=limit)

            def add(b, i, ts, k, v):
                if magic == 2:
                    return b.append(i, ts, k, v, [])
                return b.append(i, timestamp=ts, key=k, value=v, headers=[])
            for keep in (1, 2, 3):
                # records 0..keep-1 fit exactly; the following ones, with ever larger timestamps and sizes, are refused
                recs = [(1000 * (i + 1), b"k%d" % i, b"v" * (40 + i), []) for i in range(keep)]
                late = [(1000 * (keep + j + 1) + 777, b"late%d" % j, b"w" * (60 + 500 * j), []) for j in range(3)]
                full = mk(1 << 22)
                for i, (ts, k, v, _) in enumerate(recs):
                    add(full, i, ts, k, v)
                limit = len(bytes(full.build())) if codec == 0 else None
                if limit is None:
                    # compressed: the limit applies to the uncompressed estimate; take the uncompressed size of the kept records
                    plain = (I["v2b"](magic=2, compression_type=0, is_transactional=0, producer_id=-1, producer_epoch=-1,
                                      base_sequence=-1, batch_size=1 << 22) if magic == 2
                             else I["v01b"](magic=magic, compression_type=0, batch_size=1 << 22))
                    for i, (ts, k, v, _) in enumerate(recs):
                        add(plain, i, ts, k, v)
                    limit = len(bytes(plain.build()))
                b = mk(limit)
                accepted = []
                for i, (ts, k, v, h) in enumerate(recs + late):
                    if add(b, len(accepted), ts, k, v) is not None:
                        accepted.append((ts, k, v, h))
                data = bytes(b.build())
                built[(impl, keep)] = (data, len(accepted))
                n += 1
                want = expected(magic, accepted)
                for dec in ("py", "c"):
                    got = cc.decode(dec, data, validate=True)
                    if not (got[0] == "ok" and got[1] == want and all(got[2])):
                        fails.append({"clause": "refused-append-leaves-no-trace", "magic": magic, "codec": codec, "builder": impl,
                                      "decoder": dec, "accepted": len(accepted), "got": repr(got)[:300], "want": repr(want)[:300]})
                if magic == 2 and len(data) >= 61 and accepted:
                    fts, mts = struct.unpack(">q", data[27:35])[0], struct.unpack(">q", data[35:43])[0]
                    cnt = struct.unpack(">i", data[57:61])[0]
                    tss = [ts for ts, _, _, _ in accepted]
                    if not (cnt == len(accepted) and fts == tss[0] and mts == max(tss)):
                        fails.append({"clause": "header-describes-the-accepted-records-only", "codec": codec, "builder": impl,
                                      "accepted": len(accepted), "count": cnt, "first_ts": fts, "max_ts": mts, "want_max_ts": max(tss)})
        for keep in (1, 2, 3):
            if built[("py", keep)] != built[("c", keep)] and codec == 0:
                fails.append({"clause": "both-builders-produce-the-same-bytes-for-the-same-calls", "magic": magic, "keep": keep,
                              "py": built[("py", keep)][0].hex()[:200], "c": built[("c", keep)][0].hex()[:200],
                              "accepted": (built[("py", keep)][1], built[("c", keep)][1])})
    return n, fails


def header_fields():
    """the batch-level fields of a v2 batch (what the isolation filter, the idempotence logic and the fetcher read): both
    decoders must report exactly what the builder was given, over the whole range of each field"""
    fails, n = [], 0
    I = cc.impls()
    pids = [-1, 0, 1, 2 ** 31 - 1, 2 ** 31, 2 ** 32 + 7, 2 ** 40 + 1000, 2 ** 63 - 1]
    epochs = [-1, 0, 1, 2 ** 15 - 1]
    seqs = [-1, 0, 2 ** 31 - 1]
    for enc in ("py", "c"):
        for codec in (0, 1):
            for pid in pids:
                for epoch in epochs:
                    for seq in seqs:
                        for txn in (0, 1):
                            b = I[enc]["v2b"](magic=2, compression_type=codec, is_transactional=txn, producer_id=pid,
                                              producer_epoch=epoch, base_sequence=seq, batch_size=1 << 20)
                            b.append(0, 1000, b"k", b"v", [])
                            b.append(1, 1001, None, b"w", [])
                            raw = bytearray(b.build())
                            raw[0:8] = struct.pack(">q", 2 ** 40 + 5)          # the broker assigns the base offset (outside the crc)
                            want = {"base_offset": 2 ** 40 + 5, "producer_id": pid, "producer_epoch": epoch, "base_sequence": seq,
                                    "is_transactional": bool(txn), "is_control_batch": False, "next_offset": 2 ** 40 + 7,
                                    "offsets": [2 ** 40 + 5, 2 ** 40 + 6]}
                            for dec in ("py", "c"):
                                n += 1
                                try:
                                    bt = I[dec]["mem"](bytes(raw)).next_batch()
                                    got = {k: getattr(bt, k) for k in want if k != "offsets"}
                                    got["is_transactional"], got["is_control_batch"] = bool(got["is_transactional"]), bool(got["is_control_batch"])
                                    got["offsets"] = [r.offset for r in bt]
                                except Exception as e:
                                    got = "raised %r" % (e,)
                                if got != want:
                                    fails.append({"clause": "v2-header-fields", "encoder": enc, "decoder": dec, "codec": codec,
                                                  "got": repr(got), "want": repr(want)})
                                    if len(fails) >= 10:
                                        return n, fails
    return n, fails


def sparse_inner_offsets():
    """a compressed v1 message set whose inner messages do not carry the dense relative offsets 0..n-1 (a compacted topic:
    inner messages were removed, the others kept their offsets; the wrapper carries the absolute offset of the LAST inner
    message): absolute offset = wrapper offset - last inner offset + inner offset, for both decoders (Kafka message format
    v1; for v0 the inner offsets are absolute already)"""
    import gzip
    import zlib
    fails, n = [], 0
    I = cc.impls()

    def msg(magic, key, value, offset, attrs=0):
        body = struct.pack(">bb", magic, attrs) + (struct.pack(">q", 1000) if magic else b"")
        body += struct.pack(">i", -1 if key is None else len(key)) + (key or b"")
        body += struct.pack(">i", len(value)) + value
        m = struct.pack(">I", zlib.crc32(body) & 0xffffffff) + body
        return struct.pack(">qi", offset, len(m)) + m
    for rel in ([0, 1, 2], [0, 1, 4], [2, 5], [7], [0, 3], [1, 2, 3, 9]):
        for wrapper_offset in (rel[-1], 104, 10 ** 12):
            inner = b"".join(msg(1, b"k", b"v%d" % r, r) for r in rel)
            data = msg(1, None, gzip.compress(inner), wrapper_offset, attrs=1)
            want = [wrapper_offset - rel[-1] + r for r in rel]
            for dec in ("py", "c"):
                n += 1
                try:
                    got = [r.offset for r in I[dec]["mem"](data).next_batch()]
                except Exception as e:
                    got = "raised %r" % (e,)
                if got != want:
                    fails.append({"clause": "v1-relative-offsets", "decoder": dec, "inner_offsets": rel, "wrapper_offset": wrapper_offset,
                                  "got": repr(got), "want": repr(want)})
    return n, fails


def main():
    ap = argparse.ArgumentParser()
    ap.add_argument("--tier", default="quick")
    ap.add_argument("--seed", type=int, default=0)
    a = ap.parse_args()
    n, nontrivial, fails = roundtrips(a.tier)
    emit({"name": "codec-round-trip-and-cross-decode", "exhaustive": True, "cases": n, "distinct_nontrivial": nontrivial,
          "bound": "magic 0/1/2 x codecs available here %r x encoder py/compiled x decoder py/compiled x %d boundary-heavy record sets "
                   "(null/empty/8 KiB keys and values, varint boundaries 63/64/8191/8192, headers with null values and non-ASCII keys, "
                   "decreasing timestamps, deltas beyond int32); CRC validated; v2 header fields checked"
                   % (cc.codecs_available(), len(cc.record_sets())),
          "failures": fails, "replay": {"script": REPLAY}})
    n, fails = concatenations(a.tier, a.seed)
    emit({"name": "codec-mixed-concatenations", "exhaustive": False, "cases": n, "distinct_nontrivial": n,
          "bound": "seeded concatenations of 1..4 batches of any mix of magic 0/1/2 (plain and gzip, both encoders) plus a trailing "
                   "partial batch cut at a random point; both decoders; seed %d" % a.seed,
          "failures": fails, "replay": {"script": REPLAY}})
    n, fails = log_append_time()
    emit({"name": "codec-v1-wrapper-timestamps", "exhaustive": True, "cases": n, "distinct_nontrivial": n,
          "bound": "compressed v1 wrappers (every codec available) built by both encoders, with and without the LogAppendTime bit, "
                   "decoded by both decoders: inner timestamps and timestamp types per the v1 message format",
          "failures": fails, "replay": {"script": REPLAY}})
    n, fails = header_fields()
    emit({"name": "codec-v2-header-field-ranges", "exhaustive": True, "cases": n, "distinct_nontrivial": n,
          "bound": "v2 batches from both builders (plain, gzip) for producer ids {-1, 0, 1, 2^31-1, 2^31, 2^32+7, 2^40+1000, 2^63-1} x "
                   "epochs {-1, 0, 1, 2^15-1} x base sequences {-1, 0, 2^31-1} x transactional flag, base offset 2^40+5: both "
                   "decoders report the batch-level fields and record offsets exactly",
          "failures": fails, "replay": {"script": REPLAY_FIELDS}})
    n, fails = sparse_inner_offsets()
    emit({"name": "codec-v1-sparse-inner-offsets", "exhaustive": True, "cases": n, "distinct_nontrivial": n,
          "bound": "gzip v1 wrappers around inner messages with relative offsets [0,1,2] [0,1,4] [2,5] [7] [0,3] [1,2,3,9], wrapper "
                   "offset = last inner offset / 104 / 10^12: both decoders, absolute offsets per the v1 message format",
          "failures": fails, "replay": {"script": REPLAY_FIELDS}})
    n, fails = refused_appends()
    emit({"name": "codec-refused-appends", "exhaustive": True, "cases": n, "distinct_nontrivial": n,
          "bound": "magic 0/1/2 (plain, gzip for 1/2) x both builders x 1..3 records that fill batch_size exactly, followed by three "
                   "appends with larger timestamps that are refused for size: decoded by both decoders, v2 header fields, byte "
                   "equality of the two builders (uncompressed)",
          "failures": fails, "replay": {"script": REPLAY}})
    n, fails = size_accounting()
    emit({"name": "codec-size-accounting", "exhaustive": True, "cases": n, "distinct_nontrivial": n,
          "bound": "v2 builders of both implementations over the record sets: size() equals the bytes built, size_in_bytes is an upper "
                   "bound of the growth, batch_size equal to / one below the bytes produced accepts / refuses the last record",
          "failures": fails, "replay": {"script": REPLAY}})


REPLAY_FIELDS = '''
import sys
sys.path.insert(0, "/verif")
from bounded import C09
n1, f1 = C09.header_fields()
n2, f2 = C09.sparse_inner_offsets()
VIOLATED = bool(f1 or f2); DETAIL = "%d of %d decodes differ from what was encoded; first: %r" % (len(f1) + len(f2), n1 + n2, (f1 + f2)[:1])
'''


REPLAY = '''
import sys
sys.path.insert(0, "/verif")
from bounded import C09
n, nt, f1 = C09.roundtrips("quick")
n2, f2 = C09.concatenations("quick", 0)
n3, f3 = C09.size_accounting()
n4, f4 = C09.log_append_time()
n5, f5 = C09.refused_appends()
bad = f1 + f2 + f3 + f4 + f5
VIOLATED = bool(bad); DETAIL = "%d of %d codec cases fail; first: %r" % (len(bad), n + n2 + n3, bad[:1])
'''

if __name__ == "__main__":
    main()
