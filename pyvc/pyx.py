"""Cython (.pyx) front end: a mechanical, line-oriented translation of a .pyx file of /repo into Python text that the
symbolic executor can parse. It is re-done from the working tree on every run; nothing is kept.

Supported subset and what the translation does (everything else makes the *function* untranslatable, which a contract
on it reports as a source error, never as a pass):

  DEF NAME = e                      -> NAME = e                               (compile-time constants)
  include "x.pxi"                   -> the translation of x.pxi, inlined
  cimport / ctypedef / cdef extern  -> dropped (C declarations)
  @cython.* decorators              -> dropped
  cdef class C:                     -> class C:
  class-level `cdef:` blocks        -> dropped (attribute declarations)
  cdef [inline] T f(T a, U* p) [except x] [nogil]:   -> def f(a, p__null, p__in):
  def f(self, object a, char b):    -> def f(self, a, b): b = __cast__("char", b)   (header types stripped; a NARROW
                                       integer parameter type is re-applied as a cast on entry)
  cdef: / cdef T x [= e]            -> x = e when initialised; an uninitialised C scalar -> x = __undef__()
                                       every later store to a local of a NARROW integer type -> x = __cast__("T", e)
  <T> e                             -> __cast__("T", e)                       (operand = one unary/primary expression)
  &buf[e]                           -> __addr__(buf, e)
  p[0] for a pointer parameter p    -> p__v (a local initialised from p__in); `p == NULL` -> p__null
  return e  in a function with pointer parameters p, q -> return (e, p__v, q__v)
  x = f(a, &v, &w) / f(a, &v, &w)   -> (x, v, w) = f(a, False, v, False, w)   (callee known to take pointers)
  f(..., NULL, ...)                 -> f(..., True, 0, ...)
  o._buffer.len / o._buffer.buf     -> len(o._buffer) / o._buffer             (Py_buffer viewed as the bytes it exposes)
  NULL                              -> None
  with nogil:                       -> if True:

C integer widths: 64-bit and pointer-sized types (int64_t, Py_ssize_t, size_t, long long, pointers) are the machine
word of the executor's bv64 mode (a no-overflow obligation per operation; signedness of 64-bit casts is not tracked).
Narrow types (char, short, int, int8/16/32_t, their unsigned forms, bint) are made explicit: __cast__ masks unsigned
and sign-extend-truncates signed values (what gcc/clang do), at parameter entry and at every store, so that a change
of a declared C type changes the verified text (seeded change C10-b)."""
import os
import re

CTYPES = r"(?:unsigned\s+|signed\s+|const\s+)*(?:Py_ssize_t|ssize_t|size_t|int64_t|int32_t|int16_t|int8_t|uint64_t|uint32_t|uint16_t|uint8_t|" \
         r"long\s+long|unsigned\s+long|long|int|short|char|double|float|bint|void|object|bytes|bytearray|list|dict|tuple|str|Py_buffer|[A-Z]\w*)"
PARAM_RE = re.compile(r"^\s*(?P<ty>%s)\s*(?P<ptr>\*+)?\s*(?P<name>[A-Za-z_]\w*)\s*(?P<default>=.*)?$" % CTYPES)


SCALAR_DECL_RE = re.compile(r"^((?:unsigned\s+|signed\s+)?(?:Py_ssize_t|ssize_t|size_t|int64_t|int32_t|int16_t|int8_t|uint64_t|uint32_t|uint16_t|"
                            r"uint8_t|long\s+long|long|int|short|char|bint))\s+[A-Za-z_]\w*(\s*,\s*[A-Za-z_]\w*)*$")


class PyxError(Exception):
    pass


def _split_top(s, sep=","):
    out, depth, cur = [], 0, ""
    for ch in s:
        if ch in "([{":
            depth += 1
        elif ch in ")]}":
            depth -= 1
        if ch == sep and depth == 0:
            out.append(cur)
            cur = ""
        else:
            cur += ch
    if cur.strip():
        out.append(cur)
    return out


def _parse_params(argtext):
    """-> [(name, is_pointer, default_text or None)]"""
    res = []
    for a in _split_top(argtext):
        a = a.strip()
        if not a:
            continue
        if a in ("self", "cls") or re.match(r"^[A-Za-z_]\w*(\s*=.*)?$", a) or a.startswith("*"):
            m = re.match(r"^(\**[A-Za-z_]\w*)\s*(=.*)?$", a)
            res.append((m.group(1), False, m.group(2)))
            continue
        m = PARAM_RE.match(a)
        if not m:
            raise PyxError("parameter %r" % a)
        is_ptr = bool(m.group("ptr")) and m.group("ty").strip() not in ("char", "const char", "unsigned char", "void")
        res.append((m.group("name"), is_ptr, m.group("default")))
        cty = " ".join(m.group("ty").split())
        if not m.group("ptr") and cty in NARROW_INTS:
            NARROW_PARAMS.setdefault(id(res), {})[m.group("name")] = cty
    return res


# C integer types narrower than the 64-bit word the verifier computes in: a value stored into a variable or passed as an
# argument of such a type is converted (the translation makes that conversion explicit with __cast__)
NARROW_INTS = {"int32_t", "int16_t", "int8_t", "char", "int", "short", "uint32_t", "uint16_t", "uint8_t", "unsigned char",
               "unsigned int", "signed char"}
NARROW_PARAMS = {}


def _scan_primary(s, i):
    """index just after one unary/primary expression starting at s[i] (after optional spaces)"""
    n = len(s)
    while i < n and s[i] == " ":
        i += 1
    if i < n and s[i] in "-~&":
        i += 1
        while i < n and s[i] == " ":
            i += 1
    if s.startswith("__cast__(", i) or s.startswith("__addr__(", i):
        pass
    if i < n and s[i] == "(":
        i = _match(s, i)
    else:
        m = re.compile(r"[A-Za-z_0-9.]+").match(s, i)
        if not m:
            raise PyxError("cast operand in %r" % s)
        i = m.end()
    while i < n and s[i] in "([":
        i = _match(s, i)
        m = re.compile(r"(\.[A-Za-z_]\w*)+").match(s, i)
        if m:
            i = m.end()
    return i


def _match(s, i):
    close = {"(": ")", "[": "]"}[s[i]]
    depth = 0
    for j in range(i, len(s)):
        if s[j] in "([":
            depth += 1
        elif s[j] in ")]":
            depth -= 1
            if depth == 0:
                if s[j] != close:
                    raise PyxError("bracket mismatch in %r" % s)
                return j + 1
    raise PyxError("unbalanced %r" % s)


CAST_RE = re.compile(r"<\s*((?:unsigned\s+|const\s+)?[A-Za-z_]\w*(?:\s+[A-Za-z_]\w*)?\s*\**)\s*>")


def _rewrite_expr(s, ptr_params):
    """casts, address-of, NULL, Py_buffer views, pointer parameters; string literals are left alone only loosely
    (the functions in scope have none that contain these tokens)."""
    # Py_buffer views
    s = re.sub(r"<\s*(?:unsigned\s+)?(?:char|void)\s*\*\s*>\s*((?:[A-Za-z_]\w*\.)*_buffer)\.buf", r"\1", s)
    s = re.sub(r"((?:[A-Za-z_]\w*\.)*_buffer)\.len\b", r"len(\1)", s)
    s = re.sub(r"((?:[A-Za-z_]\w*\.)*_buffer)\.buf\b", r"\1", s)
    # address-of a buffer element / a scalar local
    out = ""
    i = 0
    while i < len(s):
        if s[i] == "&" and (i == 0 or s[i - 1] in "(, =") and i + 1 < len(s) and (s[i + 1].isalpha() or s[i + 1] == "_"):
            m = re.compile(r"[A-Za-z_][\w.]*").match(s, i + 1)
            j = m.end()
            if j < len(s) and s[j] == "[":
                k = _match(s, j)
                out += "__addr__(%s, %s)" % (m.group(0), s[j + 1:k - 1])
                i = k
            else:
                out += "__ref__(%s)" % m.group(0)
                i = j
            continue
        out += s[i]
        i += 1
    s = out
    # casts, innermost last: repeatedly rewrite the right-most cast
    while True:
        ms = list(CAST_RE.finditer(s))
        ms = [m for m in ms if not _in_comparison(s, m)]
        if not ms:
            break
        m = ms[-1]
        end = _scan_primary(s, m.end())
        ty = " ".join(m.group(1).split())
        s = s[:m.start()] + '__cast__("%s", %s)' % (ty, s[m.end():end].strip()) + s[end:]
    for p in ptr_params:
        s = re.sub(r"\b%s\s*==\s*NULL\b" % p, "%s__null" % p, s)
        s = re.sub(r"\b%s\s*!=\s*NULL\b" % p, "(not %s__null)" % p, s)
        s = re.sub(r"\b%s\[0\]" % p, "%s__v" % p, s)
    s = re.sub(r"\bNULL\b", "None", s)
    return s


def _in_comparison(s, m):
    """`a < b > c` style false positives: a cast's `<` is preceded by an operator / bracket / start, never by a name"""
    j = m.start() - 1
    while j >= 0 and s[j] == " ":
        j -= 1
    return j >= 0 and (s[j].isalnum() or s[j] in "_)]")


def _join_logical_lines(lines):
    """physical -> logical lines (brackets / backslashes), keeping the first line's indentation"""
    out, cur, depth = [], None, 0
    for ln in lines:
        code = _strip_comment(ln)
        if cur is None:
            cur = ln.rstrip("\n") if code.strip() == "" else code.rstrip()
        else:
            cur += " " + code.strip()
        depth += sum(code.count(c) for c in "([{") - sum(code.count(c) for c in ")]}")
        if depth <= 0 and not code.rstrip().endswith("\\"):
            out.append(cur.replace("\\ ", " "))
            cur, depth = None, 0
        else:
            cur = cur.rstrip("\\")
    if cur is not None:
        out.append(cur)
    return out


def _strip_comment(ln):
    """the line without its trailing comment (a '#' outside string literals)"""
    q = None
    for i, ch in enumerate(ln):
        if q:
            if ch == q and ln[i - 1] != "\\":
                q = None
        elif ch in "\"'":
            q = ch
        elif ch == "#":
            return ln[:i]
    return ln


def _indent(s):
    return len(s) - len(s.lstrip(" "))


HEADER_RE = re.compile(r"^(?P<ind>\s*)(?:cdef|cpdef|def)\s+(?:inline\s+)?(?P<ret>.*?)(?P<name>[A-Za-z_]\w*)\s*\((?P<args>.*)\)\s*"
                       r"(?:except\s*\??\s*[-\w*]+|noexcept)?\s*(?:nogil)?\s*:\s*$")


def signatures(repo, relpaths):
    """function name -> list of parameter (name, is_pointer) for every cdef function of the given files (.pyx/.pxd)"""
    sigs = {}
    for rel in relpaths:
        p = os.path.join(repo, rel)
        if not os.path.exists(p):
            continue
        for ln in _join_logical_lines(open(p, encoding="utf-8").read().splitlines()):
            st = ln.strip()
            if not st.startswith(("cdef ", "cpdef ")) or "(" not in st or st.startswith("cdef class") or st.startswith("cdef extern"):
                continue
            m = HEADER_RE.match(ln if st.endswith(":") else ln + ":")
            if not m:
                continue
            try:
                ps = _parse_params(m.group("args"))
            except PyxError:
                continue
            sigs[m.group("name")] = [(n, ptr) for n, ptr, _ in ps]
    return sigs


def translate(repo, relpath, sigs=None, _depth=0):
    path = os.path.join(repo, relpath)
    raw = open(path, encoding="utf-8").read().splitlines()
    lines = _join_logical_lines(raw)
    sigs = sigs if sigs is not None else {}
    out = []
    dropped = []
    i = 0
    fn_stack = []          # (indent of def, ptr params, name)
    while i < len(lines):
        ln = lines[i]
        st = ln.strip()
        ind = _indent(ln)
        while fn_stack and st and ind <= fn_stack[-1][0]:
            fn_stack.pop()
        if not st or st.startswith("#"):
            out.append(ln)
            i += 1
            continue
        if st.startswith("include "):
            inc = st.split('"')[1]
            sub, d2 = translate(repo, os.path.join(os.path.dirname(relpath), inc), sigs, _depth + 1)
            out.append(sub)
            dropped += d2
            i += 1
            continue
        if st.startswith("DEF "):
            out.append(" " * ind + st[4:])
            i += 1
            continue
        if re.match(r"^(from\s+\S+\s+cimport|cimport|ctypedef)\b", st) or st.startswith("@cython."):
            dropped.append(st.split()[0])
            i += 1
            continue
        if re.match(r"^(IF|ELIF|ELSE)\b", st) or st.startswith("cdef extern") or st.startswith("cdef union") or st.startswith("cdef struct"):
            # compile-time conditionals and C declarations: drop the whole block
            j = i + 1
            while j < len(lines) and (not lines[j].strip() or _indent(lines[j]) > ind):
                j += 1
            dropped.append(st.split(":")[0])
            i = j
            continue
        if st.startswith("cdef class "):
            out.append(" " * ind + "class " + st[len("cdef class "):])
            i += 1
            continue
        if st == "cdef:" or (st.startswith("cdef ") and "(" not in st.split("=")[0]):
            # declaration block or one-line declaration
            if st == "cdef:":
                j = i + 1
                decls = []
                while j < len(lines) and (not lines[j].strip() or _indent(lines[j]) > ind):
                    if lines[j].strip() and not lines[j].strip().startswith("#"):
                        decls.append(lines[j].strip())
                    j += 1
                i = j
            else:
                decls = [st[5:]]
                i += 1
            emitted = False
            for d in decls:
                d = d.rstrip(",").strip()
                md = re.match(r"^((?:unsigned\s+|signed\s+)?[A-Za-z_]\w*)\s+(?!\*)(.+)$", d)
                if fn_stack and md and " ".join(md.group(1).split()) in NARROW_INTS and "*" not in d:
                    for nm in _split_top(md.group(2)):
                        fn_stack[-1][3][nm.split("=")[0].strip()] = " ".join(md.group(1).split())
                if "=" in d and fn_stack:
                    lhs, rhs = d.split("=", 1)
                    name = lhs.replace("*", " ").split()[-1]
                    val = _rewrite_expr(rhs.strip(), fn_stack[-1][1])
                    if name in fn_stack[-1][3]:
                        val = '__cast__("%s", %s)' % (fn_stack[-1][3][name], val)
                    out.append(" " * ind + "%s = %s" % (name, val))
                    emitted = True
                elif fn_stack and "*" not in d and SCALAR_DECL_RE.match(d):
                    # an uninitialised C scalar holds an indeterminate value (its address may be passed as an out-parameter)
                    for name in d.split(None, SCALAR_DECL_RE.match(d).group(1).count(" ") + 1)[-1].split(","):
                        out.append(" " * ind + "%s = __undef__()" % name.strip())
                        emitted = True
            if not emitted and fn_stack and ind > fn_stack[-1][0]:
                out.append(" " * ind + "pass")
            continue
        m = HEADER_RE.match(ln) if st.startswith(("cdef ", "cpdef ", "def ")) else None
        if m:
            try:
                ps = _parse_params(m.group("args"))
            except PyxError as e:
                ps = None
                dropped.append("untranslatable header of %s: %s" % (m.group("name"), e))
            if ps is None:
                out.append(" " * ind + "def %s(*a, **k):" % m.group("name"))
                out.append(" " * ind + "    __pyx_untranslated__()")
                j = i + 1
                while j < len(lines) and (not lines[j].strip() or _indent(lines[j]) > ind):
                    j += 1
                i = j
                continue
            ptrs = [n for n, ptr, _ in ps if ptr]
            plist = []
            for n, ptr, dflt in ps:
                if ptr:
                    plist += [n + "__null", n + "__in"]
                else:
                    plist.append(n + (" " + dflt.strip() if dflt else ""))
            out.append(" " * ind + "def %s(%s):" % (m.group("name"), ", ".join(plist)))
            for n in ptrs:
                out.append(" " * (ind + 4) + "%s__v = %s__in" % (n, n))
            narrow = dict(NARROW_PARAMS.pop(id(ps), {}))
            if st.startswith(("cdef ", "cpdef ")):
                # a C-level call converts each argument to the parameter's type (a Python-level `def` raises
                # OverflowError instead: not modelled, such entry points take their arguments as given)
                for n, cty in narrow.items():
                    out.append(" " * (ind + 4) + '%s = __cast__("%s", %s)' % (n, cty, n))
            fn_stack.append((ind, ptrs, m.group("name"), narrow))
            # a declaration-only header (in a .pxd) has no body; .pyx bodies follow
            i += 1
            continue
        ptrs = fn_stack[-1][1] if fn_stack else []
        body = st
        # re-pointing a Py_buffer at a slice of the bytes it exposes: the pair  X._buffer.buf = <void*> &B[P]
        #                                                                      X._buffer.len = E
        mb = re.match(r"^((?:[A-Za-z_]\w*\.)*_buffer)\.buf\s*=\s*<\s*void\s*\*\s*>\s*&\s*([A-Za-z_]\w*)\[(.*)\]$", st)
        if mb and i + 1 < len(lines):
            ml = re.match(r"^%s\.len\s*=\s*(.*)$" % re.escape(mb.group(1)), lines[i + 1].strip())
            if ml:
                out.append(" " * ind + "%s = __slice__(%s, %s, %s)" % (mb.group(1), mb.group(2), mb.group(3), ml.group(1)))
                i += 2
                continue
        mg = re.match(r"^PyObject_GetBuffer\((.*),\s*&\s*([\w.]+),\s*\w+\)$", st)
        if mg:
            out.append(" " * ind + "%s = __getbuffer__(%s)" % (mg.group(2), mg.group(1)))
            i += 1
            continue
        mr = re.match(r"^PyBuffer_Release\(&\s*([\w.]+)\)$", st)
        if mr:
            # kept as a call (a no-op for the values; contracts that track who holds the exported buffer model it)
            out.append(" " * ind + "__release__(%s)" % mr.group(1))
            i += 1
            continue
        if body.startswith("with nogil"):
            out.append(" " * ind + "if True:")
            i += 1
            continue
        try:
            body = _rewrite_expr(body, ptrs)
            body = _rewrite_pointer_call(body, sigs)
        except PyxError as e:
            body = "__pyx_untranslated__(%r)" % str(e)
        narrow = fn_stack[-1][3] if fn_stack else {}
        ma = re.match(r"^([A-Za-z_]\w*)\s*(\+|-|\*|\||&|\^|<<|>>)?=(?!=)\s*(.*)$", body)
        if ma and ma.group(1) in narrow:
            # a store into a C variable of a narrower integer type converts the value
            rhs = ma.group(3) if not ma.group(2) else "%s %s (%s)" % (ma.group(1), ma.group(2), ma.group(3))
            body = '%s = __cast__("%s", %s)' % (ma.group(1), narrow[ma.group(1)], rhs)
        if ptrs and re.match(r"^return\b", body):
            val = body[len("return"):].strip() or "None"
            body = "return (%s, %s)" % (val, ", ".join(p + "__v" for p in ptrs))
        out.append(" " * ind + body)
        i += 1
    return "\n".join(out) + "\n", dropped


CALL_WITH_REF = re.compile(r"^(?:(?P<lhs>[A-Za-z_][\w.]*)\s*=\s*)?(?P<fn>[A-Za-z_][\w.]*)\((?P<args>.*)\)$")


def _rewrite_pointer_call(stmt, sigs):
    """`x = f(a, __ref__(v))` / `f(a, __ref__(v), None)` for a callee that takes pointer parameters"""
    m = CALL_WITH_REF.match(stmt)
    if not m:
        if "__ref__(" in stmt:
            raise PyxError("address of a local outside a simple call statement: %s" % stmt)
        return stmt
    fn = m.group("fn").split(".")[-1]
    sig = sigs.get(fn)
    args = [a.strip() for a in _split_top(m.group("args"))]
    if sig is None or not any(ptr for _, ptr in sig):
        if "__ref__(" in stmt:
            raise PyxError("address of a local passed to %s whose signature is unknown" % fn)
        return stmt
    params = [p for p in sig if p[0] not in ("self", "cls")] if "." in m.group("fn") and sig and sig[0][0] in ("self", "cls") else list(sig)
    if len(args) != len(params):
        raise PyxError("call of %s with %d args, signature has %d" % (fn, len(args), len(params)))
    new_args, outs = [], []
    for a, (pn, ptr) in zip(args, params):
        if not ptr:
            new_args.append(a)
            continue
        r = re.match(r"^__ref__\(([A-Za-z_]\w*)\)$", a)
        if r:
            new_args += ["False", r.group(1)]
            outs.append(r.group(1))
        elif a == "None":
            new_args += ["True", "0"]
            outs.append("_")
        else:
            raise PyxError("pointer argument %r of %s" % (a, fn))
    lhs = m.group("lhs") or "_"
    return "(%s, %s) = %s(%s)" % (lhs, ", ".join(outs), m.group("fn"), ", ".join(new_args))
