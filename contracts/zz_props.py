"""Every `props` entry of a class model is *my* definition of a real @property (attribute reads of modelled objects are
evaluated with it, the real property function is not called). This module puts each of them under contract against the
source: `<RealClass>.<prop>` ensures `result == <the class model's expression>`, generated for every class model that names
its real class, on every run. A property whose body changes (seeded change C01-f: MessageBatch.record_count) then fails
`post/class-model-definition-matches-the-property`.

Not checked (listed as assumptions in DESIGN I.4): props that abstract a property by a ghost field (`self.g_*`)."""
import ast
import importlib
import pkgutil

import contracts as _pkg
for _m in pkgutil.iter_modules(_pkg.__path__):
    if _m.name != "zz_props":
        importlib.import_module("contracts." + _m.name)

from pyvc import source                                             # noqa: E402
from pyvc.contract import contract, CLASSES, REGISTRY               # noqa: E402

# class models declared without their real class
for _name, _real in (("SubscriptionState", "aiokafka.consumer.subscription_state:SubscriptionState"),
                     ("Subscription", "aiokafka.consumer.subscription_state:Subscription")):
    if _name in CLASSES and not CLASSES[_name].real:
        CLASSES[_name].real = _real


def _property_node(mod, cls, name):
    node = source.module(mod).classes.get(cls)
    if node is None:
        return None
    for st in node.body:
        if isinstance(st, ast.FunctionDef) and st.name == name and any(
                isinstance(d, ast.Name) and d.id == "property" for d in st.decorator_list):
            return st
    return None


GENERATED = []
for _cname, _cm in sorted(CLASSES.items()):
    if not _cm.real or not _cm.props:
        continue
    _mod, _cls = _cm.real.split(":")
    _pids = sorted({p for c in REGISTRY.values() if c.module == _mod for p in c.props})
    if not _pids:
        continue
    for _pname, _expr in sorted(_cm.props.items()):
        if "self.g_" in _expr or not _expr.strip() or _expr.strip().lstrip("-").isdigit():
            continue                      # ghost abstraction / class constant
        try:
            _node = _property_node(_mod, _cls, _pname)
        except Exception:
            _node = None
        if _node is None:
            continue
        _qual = "%s:%s.%s" % (_mod, _cls, _pname)
        if _qual in REGISTRY:
            continue

        def _mk(cname=_cname, expr=_expr):
            def body(c):
                c.self_(cname)
                c.no_class_inv = True
                c.none_raises = True
                c.raises("as-the-real-property", "Exception")
                c.ensures("class-model-definition-matches-the-property", "result == (%s)" % expr)
            return body
        contract(_qual, _pids)(_mk())
        GENERATED.append(_qual)


# replay for MessageBatch.record_count: a user-built batch (create_batch / send_batch: records without per-message futures)
# of an idempotent producer must advance the partition's sequence counter by its number of records
_RECORD_COUNT_SCRIPT = '''
import asyncio, logging
logging.disable(logging.CRITICAL)
from aiokafka.producer.message_accumulator import MessageAccumulator
from aiokafka.producer.transaction_manager import TransactionManager
from aiokafka.structs import TopicPartition

class Cluster:
    def leader_for_partition(self, tp):
        return 1

async def main():
    bad = []
    tp = TopicPartition("t", 0)
    tm = TransactionManager(None, 1000)
    tm.set_pid_and_epoch(7, 0)
    acc = MessageAccumulator(Cluster(), 1 << 16, 0, 1000, txn_manager=tm)
    expect = 0
    for n in (3, 1, 2):
        builder = acc.create_builder()
        for i in range(n):
            builder.append(timestamp=None, key=None, value=b"v%d" % i)
        fut = await acc.add_batch(builder, tp, 1)
        nodes, _ = acc.drain_by_nodes(ignore_nodes=set())
        batch = nodes[1][tp]
        if batch.record_count != n:
            bad.append("a user-built batch of %d records reports record_count %r" % (n, batch.record_count))
        expect += n
        if tm.sequence_number(tp) != expect:
            bad.append("after a user-built batch of %d records the sequence counter is %d, expected %d: the next batch "
                       "reuses sequence numbers" % (n, tm.sequence_number(tp), expect))
        batch.done_noack()
    return bad
bad = asyncio.run(main())
VIOLATED = bool(bad); DETAIL = "; ".join(bad[:2])
'''
_q = "aiokafka.producer.message_accumulator:MessageBatch.record_count"
if _q in REGISTRY:
    REGISTRY[_q].replay_fn = lambda model, ob=None: {"script": _RECORD_COUNT_SCRIPT}
