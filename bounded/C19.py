"""C19 — bounded stand-in beside the proofs (never counted as proved): "Afterwards no task, timer or connection created
by that client is still alive." The real AIOKafkaClient (bootstrap, metadata synchroniser, connection table) over fake
connection objects: create_conn is replaced by a factory of in-memory connections that answer Metadata requests, can
hold a request unanswered and take a moment to close. close() is called with the synchroniser idle, with a metadata
request in flight on one broker, and with that request failing over to the next broker while close() runs."""
import argparse
import asyncio
import json
import logging

logging.disable(logging.CRITICAL)


def emit(d):
    print("BOUNDED " + json.dumps(d, default=str))


class FakeConn:
    created = []

    def __init__(self, host, port, hold, close_delay):
        self.host, self.port = host, port
        self.hold = hold                    # requests stay unanswered until the connection is closed
        self.close_delay = close_delay
        self.open = True
        self.waiters = []
        FakeConn.created.append(self)

    def connected(self):
        return self.open

    def send(self, request, expect_response=True):
        from aiokafka import errors as Errors
        from aiokafka.protocol.metadata import MetadataResponse_v1
        loop = asyncio.get_running_loop()
        fut = loop.create_future()
        if not self.open:
            fut.set_exception(Errors.KafkaConnectionError("closed"))
            return fut
        if self.hold:
            self.waiters.append(fut)
        else:
            fut.set_result(MetadataResponse_v1([(0, "b0", 9092, None), (1, "b1", 9092, None)], 0, []))
        return fut

    def close(self, reason=None, exc=None):
        from aiokafka import errors as Errors
        loop = asyncio.get_running_loop()
        self.open = False
        for w in self.waiters:
            if not w.done():
                w.set_exception(Errors.KafkaConnectionError("connection closed"))
        self.waiters = []
        done = loop.create_future()
        loop.call_later(self.close_delay, lambda: done.done() or done.set_result(None))
        return done


async def scenario(kind):
    import aiokafka.client as client_mod
    from aiokafka.client import AIOKafkaClient
    FakeConn.created = []
    hold = {"b0": kind in ("in-flight", "fail-over"), "b1": kind == "in-flight"}

    async def fake_create_conn(host, port, **kw):
        await asyncio.sleep(0)
        return FakeConn(host, port, hold.get(host, False), 0.05 if kind == "fail-over" else 0.0)
    real = client_mod.create_conn
    client_mod.create_conn = fake_create_conn
    before = set(asyncio.all_tasks())
    try:
        client = AIOKafkaClient(bootstrap_servers=["boot:9092"], metadata_max_age_ms=3600000)
        await client.bootstrap()
        if kind != "idle":
            import random
            # make the refresh start on b0: the synchroniser shuffles the node ids
            orig_shuffle = random.shuffle
            client_mod.random.shuffle = lambda seq: seq.sort()
            try:
                client.force_metadata_update()
                await asyncio.sleep(0.02)
            finally:
                client_mod.random.shuffle = orig_shuffle
        await asyncio.wait_for(client.close(), 3)
        await asyncio.sleep(0.1)
        problems = []
        alive = ["%s:%s" % (c.host, c.port) for c in FakeConn.created if c.open]
        if alive:
            problems.append("connections still open after close(): %r" % alive)
        tasks = [t for t in asyncio.all_tasks() if t not in before and t is not asyncio.current_task() and not t.done()]
        if tasks:
            problems.append("tasks still pending after close(): %r" % [t.get_coro().__qualname__ for t in tasks])
            for t in tasks:
                t.cancel()
        for c in FakeConn.created:
            c.open = False
        return ["%s: %s" % (kind, p) for p in problems]
    except asyncio.TimeoutError:
        return ["%s: close() did not return within 3 s" % kind]
    finally:
        client_mod.create_conn = real


def sweep():
    async def main():
        out = []
        for kind in ("idle", "in-flight", "fail-over"):
            out.extend(await scenario(kind))
        return out
    return asyncio.run(main())


def main():
    ap = argparse.ArgumentParser()
    ap.add_argument("--tier", default="quick")
    ap.add_argument("--seed", type=int, default=0)
    ap.parse_args()
    fails = sweep()
    emit({"name": "client-close-leaves-nothing-running", "exhaustive": False, "cases": 3, "distinct_nontrivial": 2,
          "bound": "the real AIOKafkaClient over fake connections (two brokers): close() with the metadata synchroniser idle, with a "
                   "metadata request held unanswered on both brokers, and with the request on the first broker failing over to "
                   "the second while the first connection takes 50 ms to close; afterwards every connection the client ever "
                   "created is closed and no task it created is pending",
          "failures": [{"problem": f} for f in fails], "replay": {"script": REPLAY}})


REPLAY = '''
import sys
sys.path.insert(0, "/verif")
from bounded import C19
bad = C19.sweep()
VIOLATED = bool(bad); DETAIL = repr(bad)
'''

if __name__ == "__main__":
    main()
