"""C11 — finite enumerations and bounded stand-ins, run on the real aiokafka.protocol modules under the
repository's interpreter. Reported separately from the proof obligations (never counted as proved):

  enum-request-classes   (exhaustive)  every Request subclass: _CLASSES non-empty, sorted by API_VERSION, same API_KEY
                                       -> the precondition of Request.prepare's contract
  enum-response-pairing  (exhaustive)  every request struct: the reply is decoded with the schema and header form
                                       of the request's own (API_KEY, API_VERSION)
  enum-builder-arity     (exhaustive)  struct field names by version for the builders under contract
  enum-schema-closure    (exhaustive)  every SCHEMA is built only from the codec classes of protocol/types.py
  roundtrip              (bounded)     decode(encode(x)) == x for every struct, boundary + seeded random values
"""
import argparse
import importlib
import inspect
import io
import json
import random
import sys
import time

MODS = ["produce", "fetch", "offset", "metadata", "commit", "group", "coordination", "transaction", "admin", "api"]


def emit(d):
    print("BOUNDED " + json.dumps(d, default=str))


def schema_sig(t):
    """Structural signature of a schema/type (class identity is irrelevant to the wire format)."""
    from aiokafka.protocol import types as T
    if isinstance(t, T.Schema):
        return ("Schema", tuple((n, schema_sig(f)) for n, f in zip(t.names, t.fields)))
    if isinstance(t, T.CompactArray):
        return ("CompactArray", schema_sig(t.array_of))
    if isinstance(t, T.Array):
        return ("Array", schema_sig(t.array_of))
    if isinstance(t, T.CompactString):
        return ("CompactString", t.encoding)
    if isinstance(t, T.String):
        return ("String", t.encoding)
    if inspect.isclass(t):
        return t.__name__
    return repr(t)


def all_structs():
    from aiokafka.protocol.api import Request, RequestStruct, Response
    reqs, structs, resps = [], [], []
    for m in MODS:
        mod = importlib.import_module("aiokafka.protocol." + m)
        for name, cls in inspect.getmembers(mod, inspect.isclass):
            if cls.__module__ != mod.__name__:
                continue
            if issubclass(cls, Request) and cls is not Request and hasattr(cls, "_CLASSES"):
                reqs.append(cls)
            elif issubclass(cls, RequestStruct) and cls is not RequestStruct and not inspect.isabstract(cls):
                structs.append(cls)
            elif issubclass(cls, Response) and cls is not Response and hasattr(cls, "SCHEMA") and not inspect.isabstract(cls):
                resps.append(cls)
    return reqs, structs, resps


def enum_request_classes(reqs):
    fails = []
    for r in reqs:
        vs = [c.API_VERSION for c in r._CLASSES]
        if not vs or vs != sorted(vs) or any(c.API_KEY != r.API_KEY for c in r._CLASSES):
            fails.append({"request": r.__name__, "versions": vs, "keys": [c.API_KEY for c in r._CLASSES], "API_KEY": r.API_KEY})
    emit({"name": "enum-request-classes", "exhaustive": True, "cases": len(reqs), "distinct_nontrivial": len(reqs),
          "bound": "all %d Request subclasses of aiokafka.protocol.*" % len(reqs), "failures": fails,
          "sample": [(r.__name__, [c.API_VERSION for c in r._CLASSES]) for r in reqs[:3]]})


def enum_pairing(structs, resps):
    import re
    by_name = {c.__name__: c for c in resps}
    fails, checked = [], 0
    for s in structs:
        checked += 1
        rt = s.RESPONSE_TYPE
        if rt.API_KEY != s.API_KEY:
            fails.append({"struct": s.__name__, "why": "RESPONSE_TYPE has API_KEY %r, request %r" % (rt.API_KEY, s.API_KEY)})
            continue
        base = re.sub(r"Request_v\d+$", "", s.__name__)
        want = by_name.get("%sResponse_v%d" % (base, s.API_VERSION))
        if want is not None and schema_sig(rt.SCHEMA) != schema_sig(want.SCHEMA):
            fails.append({"struct": s.__name__, "RESPONSE_TYPE": rt.__name__, "same_version_response": want.__name__,
                          "why": "reply of v%d would be parsed with a different schema" % s.API_VERSION})
        # header form: flexible request <=> flexible reply header (tagged fields present in the schema tail is the
        # module's convention); the reply header class follows the *request's* FLEXIBLE_VERSION by construction
    emit({"name": "enum-response-pairing", "exhaustive": True, "cases": checked, "distinct_nontrivial": checked,
          "bound": "all %d request structs" % checked, "failures": fails,
          "replay": {"script": PAIRING_SCRIPT}})


PAIRING_SCRIPT = '''
import sys, json, subprocess, os
# re-run the pairing enumeration on the current tree
sys.path.insert(0, os.path.dirname(os.path.dirname(os.path.abspath(__file__))) if "__file__" in globals() else "/verif")
sys.path.insert(0, "/verif")
from bounded import C11 as B
reqs, structs, resps = B.all_structs()
import io, contextlib
buf = io.StringIO()
with contextlib.redirect_stdout(buf):
    B.enum_pairing(structs, resps)
d = json.loads(buf.getvalue().split("BOUNDED ", 1)[1])
VIOLATED = bool(d["failures"]); DETAIL = json.dumps(d["failures"][:3])
'''


def enum_builder_arity():
    from aiokafka.protocol import produce, offset, coordination
    want = []
    for c in produce.ProduceRequest._CLASSES:
        want.append((c, ("transactional_id", "required_acks", "timeout", "topics") if c.API_VERSION >= 3
                     else ("required_acks", "timeout", "topics")))
    for c in offset.OffsetRequest._CLASSES:
        want.append((c, ("replica_id", "isolation_level", "topics") if c.API_VERSION >= 2 else ("replica_id", "topics")))
    for c in coordination.FindCoordinatorRequest._CLASSES:
        want.append((c, ("coordinator_key", "coordinator_type") if c.API_VERSION >= 1 else ("consumer_group",)))
    fails = [{"struct": c.__name__, "names": list(c.SCHEMA.names), "expected": list(w)} for c, w in want if tuple(c.SCHEMA.names) != w]
    emit({"name": "enum-builder-arity", "exhaustive": True, "cases": len(want), "distinct_nontrivial": len(want),
          "bound": "every struct version the three builders under contract can instantiate", "failures": fails})


def enum_schema_closure(structs, resps):
    from aiokafka.protocol import types as T
    ok = {"Int8", "Int16", "Int32", "UInt32", "Int64", "Float64", "Boolean", "Bytes", "CompactBytes", "TaggedFields",
          "UnsignedVarInt32", "VarInt32", "VarInt64"}
    used, fails = set(), []

    def walk(t, where):
        if isinstance(t, T.Schema):
            for n, f in zip(t.names, t.fields):
                walk(f, where + "." + n)
        elif isinstance(t, T.Array):
            used.add(type(t).__name__)
            walk(t.array_of, where + "[]")
        elif isinstance(t, T.String):
            used.add(type(t).__name__)
        elif inspect.isclass(t) and t.__name__ in ok:
            used.add(t.__name__)
        else:
            fails.append({"where": where, "type": repr(t)})
    for c in structs + resps:
        walk(c.SCHEMA, c.__name__)
    emit({"name": "enum-schema-closure", "exhaustive": True, "cases": len(structs) + len(resps),
          "distinct_nontrivial": len(used), "bound": "all request and response schemas", "failures": fails,
          "codecs_reachable_from_a_schema": sorted(used)})


# ------------------------------------------------------------------------------------ round trip
def gen(t, rnd, depth=0):
    from aiokafka.protocol import types as T
    if isinstance(t, T.Schema):
        return tuple(gen(f, rnd, depth + 1) for f in t.fields)
    if isinstance(t, T.Array):
        if rnd.random() < 0.15:
            return None
        n = rnd.choice([0, 1, 2]) if depth < 3 else rnd.choice([0, 1])
        return [gen(t.array_of, rnd, depth + 1) for _ in range(n)]
    if isinstance(t, T.String):
        return rnd.choice([None, "", "a", "topic-é中", "x" * 300])
    name = t.__name__
    rng = {"Int8": (-2**7, 2**7 - 1), "Int16": (-2**15, 2**15 - 1), "Int32": (-2**31, 2**31 - 1),
           "UInt32": (0, 2**32 - 1), "Int64": (-2**63, 2**63 - 1)}
    if name in rng:
        lo, hi = rng[name]
        return rnd.choice([lo, hi, 0, -1 if lo < 0 else 1, rnd.randint(lo, hi)])
    if name == "Float64":
        return rnd.choice([0.0, -1.5, 1e300])
    if name == "Boolean":
        return rnd.choice([True, False])
    if name in ("Bytes", "CompactBytes"):
        return rnd.choice([None, b"", b"\x00\xff", bytes(rnd.randrange(256) for _ in range(rnd.choice([1, 127, 128, 300])))])
    if name == "UnsignedVarInt32":
        return rnd.choice([0, 1, 127, 128, 16383, 16384, 2**21 - 1, 2**21, 2**28 - 1, 2**28, 2**32 - 1])
    if name == "TaggedFields":
        return rnd.choice([{}, {1: b"ab"}, {1: b"", 5: b"\x01\x02\x03"}, {3: b"x" * 200}])
    if name in ("VarInt32", "VarInt64"):
        return rnd.choice([0, 1, -1, 63, 64, -64, -65, 2**31 - 1, -2**31])
    raise AssertionError("no generator for %r" % (t,))


def norm(v):
    if isinstance(v, (list, tuple)):
        return [norm(x) for x in v]
    return v


def roundtrip(structs, resps, tier, seed):
    rnd = random.Random(seed)
    per = 40 if tier == "quick" else 600
    fails, cases, nontrivial = [], 0, 0
    for c in structs + resps:
        for _ in range(per):
            val = gen(c.SCHEMA, rnd)
            cases += 1
            try:
                enc = c.SCHEMA.encode(val)
                dec = c.SCHEMA.decode(io.BytesIO(enc))
            except Exception as e:                       # encoding an in-range value must not fail
                fails.append({"struct": c.__name__, "value": repr(val)[:300], "error": "%s: %s" % (type(e).__name__, e)})
                break
            if len(enc) > 8:
                nontrivial += 1
            if norm(dec) != norm(val):
                fails.append({"struct": c.__name__, "value": repr(val)[:300], "decoded": repr(dec)[:300]})
                break
    emit({"name": "roundtrip", "exhaustive": False, "cases": cases, "distinct_nontrivial": nontrivial,
          "bound": "%d generated values per struct (boundary values of every wire type, null/empty/non-ASCII strings, "
                   "null/empty/nested arrays, tagged fields), seed %d" % (per, seed),
          "failures": fails[:10], "failing_structs": len(fails),
          "replay": {"script": ROUNDTRIP_SCRIPT}})


ROUNDTRIP_SCRIPT = '''
import io
from aiokafka.protocol.types import TaggedFields
bad = []
for v in ({1: b"ab"}, {1: b"", 5: b"\\x01\\x02\\x03"}, {3: b"x" * 200}):
    try:
        got = TaggedFields.decode(io.BytesIO(TaggedFields.encode(v)))
    except Exception as e:
        got = "raised %s" % type(e).__name__
    if got != v:
        bad.append((v, got))
VIOLATED = bool(bad); DETAIL = "TaggedFields round trip (value, decoded): %r" % (bad[:2],)
'''


def _leb128(v):
    out = bytearray()
    while True:
        b7 = v & 0x7F
        v >>= 7
        if v:
            out.append(b7 | 0x80)
        else:
            out.append(b7)
            return bytes(out)


def _reference_encoding(name, val):
    """the Kafka protocol's layout of the length-prefixed types, written independently of aiokafka/protocol/types.py:
    COMPACT_* carry length + 1 as an unsigned varint (0 = null), a tagged-field section is the number of fields followed, in
    ascending tag order, by tag, plain byte count and data; STRING has an INT16, BYTES and ARRAY an INT32 length"""
    import struct
    if name.startswith("CompactString"):
        b = val.encode("utf-8"); return _leb128(len(b) + 1) + b
    if name.startswith("CompactBytes"):
        return _leb128(len(val) + 1) + val
    if name.startswith("CompactArray(Int8)"):
        return _leb128(len(val) + 1) + b"".join(struct.pack(">b", x) for x in val)
    if name.startswith("TaggedFields"):
        return _leb128(len(val)) + b"".join(_leb128(t) + _leb128(len(val[t])) + val[t] for t in sorted(val))
    if name.startswith("String"):
        b = val.encode("utf-8"); return struct.pack(">h", len(b)) + b
    if name.startswith("Bytes"):
        return struct.pack(">i", len(val)) + val
    if name.startswith("Array(Int16)"):
        return struct.pack(">i", len(val)) + b"".join(struct.pack(">h", x) for x in val)
    return None


def primitive_boundaries(tier):
    """'varints at every length boundary': the unsigned varint codec against an independent LEB128 encoder for every
    value up to 2^17 and bands around every 7-bit boundary, and every compact (varint-prefixed) type at lengths
    around the values where the prefix grows by a byte."""
    from aiokafka.protocol import types as T
    fails, cases = [], 0
    vals = set(range(0, 1 << (17 if tier == "quick" else 22)))
    for k in (7, 14, 21, 28):
        vals.update(range(max(0, (1 << k) - 300), (1 << k) + 300))
        vals.update(range((1 << k) * 2 - 300, (1 << k) * 2 + 300))
        vals.update(((1 << k) * 128 - 1, (1 << k) * 127))
    vals.update((2**31 - 1, 2**31, 2**32 - 2, 2**32 - 1))
    vals = sorted(v for v in vals if 0 <= v < 2**32)
    for v in vals:
        cases += 1
        try:
            enc = T.UnsignedVarInt32.encode(v)
            dec = T.UnsignedVarInt32.decode(io.BytesIO(enc + b"\xAA"))
        except Exception as e:
            enc, dec = b"", "raised %s" % type(e).__name__
        if enc != _leb128(v) or dec != v:
            fails.append({"type": "UnsignedVarInt32", "value": v, "encoded": enc.hex(), "want": _leb128(v).hex(), "decoded": dec})
            if len(fails) >= 10:
                break
    lens = (0, 1, 2, 126, 127, 128, 129, 255, 256, 16382, 16383, 16384, 16385)
    for n in lens:
        for name, codec, val in (
                ("CompactString", T.CompactString("utf-8"), "x" * n),
                ("CompactBytes", T.CompactBytes, b"\x80" * n),
                ("CompactArray(Int8)", T.CompactArray(T.Int8), [(-1) ** i for i in range(n)]),
                ("TaggedFields", T.TaggedFields, {0: b"\x80" * n} if n else {}),
                ("TaggedFields/2", T.TaggedFields, {n: b"a", n + 1: b"\x81" * (n % 300)}),
                ("TaggedFields/inserted-in-descending-tag-order", T.TaggedFields, {n + 7: b"z", n: b"a"}),
                ("String", T.String("utf-8"), "y" * n),
                ("Bytes", T.Bytes, b"\x7f" * n),
                ("Array(Int16)", T.Array(T.Int16), [i - 5 for i in range(min(n, 300))])):
            cases += 1
            try:
                enc = codec.encode(val)
                buf = io.BytesIO(enc + b"\xAA\xBB")
                dec = codec.decode(buf)
                rest = buf.read()
            except Exception as e:
                dec, rest = "raised %s: %s" % (type(e).__name__, e), b"\xAA\xBB"
            if norm(dec) != norm(val) or rest != b"\xAA\xBB":
                fails.append({"type": name, "length": n, "decoded": repr(dec)[:120], "left_in_buffer": rest.hex()})
            # "encoding follows the Kafka protocol layout": a codec whose two halves agree with each other still has to agree
            # with the layout a broker reads and writes
            ref = _reference_encoding(name, val)
            if ref is not None and not (n > 32767 and name == "String"):
                cases += 1
                try:
                    enc = codec.encode(val)
                    dref = codec.decode(io.BytesIO(ref + b"\xAA"))
                except Exception as e:
                    enc, dref = b"", "raised %s" % type(e).__name__
                if enc != ref or norm(dref) != norm(val):
                    fails.append({"type": name, "length": n, "encoded_prefix": enc[:6].hex(), "protocol_layout_prefix": ref[:6].hex(),
                                  "decoding_the_protocol_layout": repr(dref)[:80]})
    emit({"name": "wire-type-boundaries", "exhaustive": True, "cases": cases, "distinct_nontrivial": cases,
          "bound": "UnsignedVarInt32 against an independent LEB128 encoder for every value below 2^%d, +-300 around 2^7k and "
                   "2^(7k+1), and the 32-bit extremes; compact strings/bytes/arrays, tagged fields, plain strings/bytes/arrays "
                   "at lengths %r (the decoder must consume exactly the encoded bytes), each also against the protocol's layout written by an independent encoder" % (17 if tier == "quick" else 22, list(lens)),
          "failures": fails[:10], "failures_total": len(fails), "replay": {"script": BOUNDARY_SCRIPT}})


BOUNDARY_SCRIPT = '''
import io
from aiokafka.protocol import types as T
bad = []
for v in (127, 128, 129, 16383, 16384, 16385, 2097151, 2097152, 268435455, 268435456, 4294967295):
    enc = T.UnsignedVarInt32.encode(v)
    try:
        dec = T.UnsignedVarInt32.decode(io.BytesIO(enc + b"\\xAA"))
    except Exception as e:
        dec = "raised %s" % type(e).__name__
    if dec != v:
        bad.append((v, enc.hex(), dec))
for n in (126, 127, 128, 16383):
    s = "x" * n
    c = T.CompactString("utf-8")
    try:
        dec = c.decode(io.BytesIO(c.encode(s) + b"\\xAA"))
    except Exception as e:
        dec = "raised %s" % type(e).__name__
    if dec != s:
        bad.append(("CompactString of %d bytes" % n, c.encode(s)[:3].hex(), repr(dec)[:40]))
VIOLATED = bool(bad); DETAIL = "varint-prefixed values that do not round-trip (value, encoding, decoded): %r" % (bad[:4],)
'''


def header_layouts():
    """'the request header ... and the reply is decoded with that same version's ... header form': request header v1 (api key,
    api version, correlation id as INT16 INT16 INT32, client id as an INT16-length string) and v2 (the same - the client id
    stays an INT16-length string in the flexible header - followed by a tagged-field section), response header v0 / v1, each
    against bytes written from the protocol's definition by hand"""
    import io
    import struct
    from aiokafka.protocol import api as A
    cases, fails = 0, []

    class Req:
        def __init__(self, key, ver):
            self.API_KEY, self.API_VERSION = key, ver

    def st(x):
        b = x.encode("utf-8")
        return struct.pack(">h", len(b)) + b

    for key, ver, cid, client in ((21, 2, 7, "aiokafka"), (45, 0, 2 ** 31 - 1, ""), (46, 0, 0, "c\u00e9l\u00e8bre-\u4e2d"), (3, 1, 5, "x" * 200)):
        for tags in ({}, {0: b"ab"}, {3: b"", 130: b"z" * 130}):
            ref1 = struct.pack(">hhi", key, ver, cid) + st(client)
            ref2 = ref1 + _leb128(len(tags)) + b"".join(_leb128(t) + _leb128(len(tags[t])) + tags[t] for t in sorted(tags))
            for name, make, ref in (("RequestHeader_v1", lambda: A.RequestHeader_v1(Req(key, ver), cid, client), ref1),
                                    ("RequestHeader_v2", lambda: A.RequestHeader_v2(Req(key, ver), cid, client, tags), ref2)):
                if name == "RequestHeader_v1" and tags:
                    continue
                cases += 1
                try:
                    enc = make().encode()
                except Exception as e:
                    enc = ("raised %s" % type(e).__name__).encode()
                if enc != ref:
                    fails.append({"header": name, "client_id": client[:20], "tags": {k: len(v) for k, v in tags.items()},
                                  "encoded": enc[:24].hex(), "protocol_layout": ref[:24].hex()})
            for name, cls, ref in (("ResponseHeader_v0", A.ResponseHeader_v0, struct.pack(">i", cid)),
                                   ("ResponseHeader_v1", A.ResponseHeader_v1, struct.pack(">i", cid) + ref2[len(ref1):])):
                if name == "ResponseHeader_v0" and tags:
                    continue
                cases += 1
                try:
                    buf = io.BytesIO(ref + b"\xAA")
                    h = cls.decode(buf)
                    ok = h.correlation_id == cid and buf.read() == b"\xAA" and (name == "ResponseHeader_v0" or dict(h.tags) == tags)
                except Exception as e:
                    ok, h = False, "raised %s" % type(e).__name__
                if not ok:
                    fails.append({"header": name, "bytes": ref[:24].hex(), "decoded": repr(h)[:80]})
    return cases, fails


def enum_header_layouts():
    cases, fails = header_layouts()
    emit({"name": "header-layouts", "exhaustive": True, "cases": cases, "distinct_nontrivial": cases,
          "bound": "request headers v1 / v2 and response headers v0 / v1 for 4 (api key, version, correlation id, client id) "
                   "combinations x 3 tagged-field sets, against bytes written by hand from the protocol definition",
          "failures": fails[:10], "failures_total": len(fails), "replay": {"script": HEADER_SCRIPT}})


HEADER_SCRIPT = '''
import sys
sys.path.insert(0, "/verif")
from bounded import C11
n, fails = C11.header_layouts()
VIOLATED = bool(fails); DETAIL = "%d of %d header encodings / decodings differ from the protocol layout; first: %r" % (len(fails), n, fails[:2])
'''


def short_reads():
    """-> (cases, failures): every fixed-width and length-prefixed type, handed fewer bytes than its encoding has, raises
    instead of returning a value made of what happened to be there ("decoding the encoding returns the original value" has
    the other half: what is not an encoding is not decoded)"""
    import io
    from aiokafka.protocol import types as T
    values = [("Int8", T.Int8, -5), ("Int16", T.Int16, -300), ("Int32", T.Int32, -70000), ("UInt32", T.UInt32, 4000000000),
              ("Int64", T.Int64, -2 ** 40), ("Float64", T.Float64, 1.5), ("Boolean", T.Boolean, True),
              ("String", T.String("utf-8"), "abc"), ("Bytes", T.Bytes, b"abcd"), ("Array(Int32)", T.Array(T.Int32), [1, 2]),
              ("CompactString", T.CompactString("utf-8"), "abc"), ("CompactBytes", T.CompactBytes, b"abcd"),
              ("CompactArray(Int16)", T.CompactArray(T.Int16), [1, 2]),
              ("TaggedFields", T.TaggedFields, {0: b"abcd", 5: b"xyz"})]
    cases, fails = 0, []
    for name, ty, val in values:
        enc = ty.encode(val)
        for k in range(len(enc)):
            cases += 1
            try:
                got = ty.decode(io.BytesIO(enc[:k]))
            except Exception:
                continue
            fails.append({"type": name, "bytes_given": k, "of": len(enc), "decoded": repr(got)[:60]})
    return cases, fails


def enum_short_reads():
    cases, fails = short_reads()
    emit({"name": "short-reads-raise", "exhaustive": True, "cases": cases, "distinct_nontrivial": cases,
          "bound": "one value of each of the 14 primitive / length-prefixed wire types (tagged fields included), every proper prefix of its encoding",
          "failures": fails[:10], "failures_total": len(fails), "replay": {"script": SHORT_SCRIPT}})


SHORT_SCRIPT = '''
import sys
sys.path.insert(0, "/verif")
from bounded import C11
n, fails = C11.short_reads()
VIOLATED = bool(fails); DETAIL = "%d of %d truncated encodings were decoded to a value instead of refused; first: %r" % (len(fails), n, fails[:3])
'''


def main():
    ap = argparse.ArgumentParser()
    ap.add_argument("--tier", default="quick")
    ap.add_argument("--seed", type=int, default=0)
    a = ap.parse_args()
    reqs, structs, resps = all_structs()
    enum_request_classes(reqs)
    enum_pairing(structs, resps)
    enum_builder_arity()
    enum_schema_closure(structs, resps)
    roundtrip(structs, resps, a.tier, a.seed)
    primitive_boundaries(a.tier)
    enum_short_reads()
    enum_header_layouts()


if __name__ == "__main__":
    main()
