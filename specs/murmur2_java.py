"""z3 form of the C17 oracle (the executable twin lives in murmur2_py, importable without z3)."""
import z3
from .murmur2_py import SEED, M, R, MASK, jm2_py, java_partition

# ---- z3 form -----------------------------------------------------------------

def bv32(x):
    return z3.BitVecVal(x & MASK, 32)


def step(h, b0, b1, b2, b3):
    """One 4-byte chunk. h: BV32, b*: BV8."""
    k = z3.Concat(b3, b2, b1, b0)        # little-endian assembly; + and | coincide on disjoint bytes
    k = k * bv32(M)
    k = k ^ z3.LShR(k, R)
    k = k * bv32(M)
    h = h * bv32(M)
    return h ^ k


def tail(h, rem, t0, t1, t2):
    """rem: BV32 in 0..3; t0..t2: BV8 at base, base+1, base+2."""
    z = lambda b: z3.ZeroExt(24, b)
    h3 = z3.If(rem == 3, h ^ (z(t2) << 16), h)
    h2 = z3.If(z3.UGE(rem, 2), h3 ^ (z(t1) << 8), h3)
    h1 = z3.If(z3.UGE(rem, 1), (h2 ^ z(t0)) * bv32(M), h2)
    return h1


def fin(h):
    h = h ^ z3.LShR(h, 13)
    h = h * bv32(M)
    return h ^ z3.LShR(h, 15)
