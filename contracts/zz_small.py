"""Small repository functions that callers under contract model at the call site (DESIGN I.4: "call models of repository
functions") put under contract themselves, with the postconditions and the frame the call models assume: the model is then
no longer an assumption about the code but a consequence of it."""
import importlib
import pkgutil

import contracts as _pkg
for _m in pkgutil.iter_modules(_pkg.__path__):
    if not _m.name.startswith("zz_"):
        importlib.import_module("contracts." + _m.name)

from pyvc.contract import contract, REGISTRY, CLASSES, classmodel                         # noqa: E402
from pyvc.ty import V, INT, BOOL, REAL, STR, NONE, EXC, BYTES, Opt, Tup, List, Set, Dict, Ref, Opaque      # noqa: E402
from pyvc.exec_base import Fut                                                            # noqa: E402
from .common import TP                                                                    # noqa: E402

SS = "aiokafka.consumer.subscription_state"
GC = "aiokafka.consumer.group_coordinator"
PM = "aiokafka.producer.message_accumulator"
TM = "aiokafka.producer.transaction_manager"
FM = "aiokafka.consumer.fetcher"

CLASSES["SubscriptionState"].fields.update({"_assignment_waiters": List(Fut(NONE)), "_subscription_waiters": List(Fut(NONE))})
if not CLASSES["SubscriptionState"].real:
    CLASSES["SubscriptionState"].real = SS + ":SubscriptionState"
if not CLASSES["Subscription"].real:
    CLASSES["Subscription"].real = SS + ":Subscription"


def _new_future(c):
    c.call("create_future", returns=Fut(NONE), post=["fresh(result)", "not result.done()"], note="a new pending future")


@contract(SS + ":SubscriptionState.begin_reassignment", ["C05", "C04"])
def _(c):
    """model in _on_join_prepare: the rebalance gate of the fetcher (fetched_records / next_record) is closed"""
    c.self_("SubscriptionState")
    c.no_class_inv = True
    c.modifies("Subscription._reassignment_in_progress")
    c.ensures("the-hand-out-gate-is-closed", "implies(self._subscription is not None, self._subscription._reassignment_in_progress)")


@contract(SS + ":Subscription._begin_reassignment", ["C05"])
def _(c):
    c.self_("Subscription")
    c.no_class_inv = True
    c.modifies("self._reassignment_in_progress")
    c.ensures("in-progress", "self._reassignment_in_progress")


@contract(SS + ":Assignment._unassign", ["C05", "C03"])
def _(c):
    """model in Subscription._assign: the assignment is retired (everything fetched under it is stale from now on)"""
    c.self_("Assignment")
    c.no_class_inv = True
    c.modifies("Future.state", "Future.nres")
    c.raises("already-retired", "InvalidStateError")
    c.ensures("retired", "self.unassign_future.done()")


for _name, _field in (("wait_for_assignment", "_assignment_waiters"), ("wait_for_subscription", "_subscription_waiters")):
    def _mk(field=_field):
        def body(c):
            c.self_("SubscriptionState")
            c.no_class_inv = True
            c.returns(Fut(NONE))
            _new_future(c)
            c.modifies("self." + field)
            c.ensures("a-new-pending-future-registered-as-the-last-waiter",
                      "fresh(result) and not result.done() and len(self.%s) == len(old(self.%s)) + 1"
                      " and self.%s[len(self.%s) - 1] == result" % (field, field, field, field))
            c.ensures("earlier-waiters-keep-their-place",
                      "forall(lambda j: implies(0 <= j < len(old(self.%s)), self.%s[j] == old(self.%s)[j]))" % (field, field, field))
        return body
    contract(SS + ":SubscriptionState." + _name, ["C03", "C05", "C13"])(_mk())


@contract(SS + ":SubscriptionState.is_assigned", ["C03", "C05"])
def _(c):
    c.self_("SubscriptionState")
    c.param("tp", TP)
    c.returns(BOOL)
    c.no_class_inv = True
    c.ensures("member-of-the-current-assignment",
              "result == (self._subscription is not None and self._subscription._assignment is not None"
              " and tp in self._subscription._assignment._topic_partitions)")


@contract(GC + ":GroupCoordinator.need_rejoin", ["C06", "C05"])
def _(c):
    c.self_("GroupCoordinator")
    c.param("subscription", Ref("Subscription"))
    c.returns(BOOL)
    c.no_class_inv = True
    c.ensures("no-assignment-yet-or-a-rejoin-was-requested",
              "result == (subscription._assignment is None or self._rejoin_needed_fut.done())")


@contract(TM + ":TransactionManager.make_task_waiter", ["C07"])
def _(c):
    c.self_("TransactionManager")
    c.returns(Fut(NONE))
    c.no_class_inv = True
    _new_future(c)
    c.modifies("self._task_waiter")
    c.ensures("a-new-pending-waiter-is-installed", "fresh(result) and not result.done() and self._task_waiter == result")


@contract(TM + ":TransactionManager.wait_for_transaction_end", ["C07", "C16"])
def _(c):
    c.self_("TransactionManager")
    c.returns(CLASSES["TransactionManager"].fields["_transaction_waiter"])
    c.no_class_inv = True
    c.ensures("the-transactions-waiter", "result == self._transaction_waiter")


@contract(PM + ":MessageAccumulator.waiter", ["C01", "C02"])
def _(c):
    c.self_("MessageAccumulator")
    c.returns(Fut(NONE))
    c.no_class_inv = True
    c.ensures("the-data-available-future", "result == self._waiter_future")


@contract(PM + ":MessageAccumulator.create_builder", ["C01", "C02", "C07"])
def _(c):
    """model in add_message: a new, empty, open builder; transactional exactly for a producer with a transactional id"""
    c.self_("MessageAccumulator")
    c.param("key_serializer", Opt(Opaque("Serializer")), default="None")
    c.param("value_serializer", Opt(Opaque("Serializer")), default="None")
    c.returns(Ref("BatchBuilder"))
    c.no_class_inv = True
    c.ghost("$transactional", BOOL, "False")
    c.call("BatchBuilder", returns=Ref("BatchBuilder"), kwargs=["is_transactional", "key_serializer", "value_serializer"], nargs=2,
           post=["fresh(result)", "not result._closed", "result._relative_offset == 0"],
           ghost={"$transactional": "kw_is_transactional"},
           note="BatchBuilder.__init__ (under contract below)")
    c.hook("before", "BatchBuilder", [
        ("assert", "sized-and-compressed-as-configured", "a0 == self._batch_size and a1 == self._compression_type"),
    ])
    from .zz_constructors import model_posts
    for i, p in enumerate(model_posts(PM + ":MessageAccumulator.add_message", "self.create_builder", [])):
        c.ensures("as-the-call-model-in-add_message-assumes-%d" % i, p.replace("self.", "result.").replace("self", "result"))
    c.ensures_internal("transactional-exactly-for-a-producer-with-a-transactional-id",
                       "$transactional == (self._txn_manager is not None and self._txn_manager.transactional_id is not None)")


@contract(PM + ":BatchBuilder.__init__", ["C01", "C02"])
def _(c):
    c.self_("BatchBuilder")
    c.no_class_inv = True
    c.param("batch_size", INT)
    c.param("compression_type", INT)
    c.param("is_transactional", BOOL, default="0")
    c.param("key_serializer", Opt(Opaque("Serializer")), default="None")
    c.param("value_serializer", Opt(Opaque("Serializer")), default="None")
    c.call("DefaultRecordBatchBuilder", returns=Opaque("RecordBatchBuilder"),
           note="the v2 record batch builder of aiokafka.record (C09's stand-ins)")
    CLASSES["BatchBuilder"].fields.update({"_builder": Opaque("RecordBatchBuilder"), "_buffer": Opt(BYTES),
                                          "_key_serializer": Opt(Opaque("Serializer")), "_value_serializer": Opt(Opaque("Serializer"))})
    c.modifies("BatchBuilder.*")
    for lbl, e in CLASSES["BatchBuilder"].invariants:
        c.ensures("establishes:" + lbl, e)
    c.ensures("a-new-empty-open-builder", "not self._closed and self._relative_offset == 0")


@contract(GC + ":GroupCoordinator._start_heartbeat_task", ["C06"])
def _(c):
    """model in ensure_active_group ('a heartbeat task runs after every successful rejoin'): a task is created unless one is
    still referenced - _stop_heartbeat_task (under contract) drops the reference of a stopped or finished task"""
    c.self_("GroupCoordinator")
    c.no_class_inv = True
    c.call("create_task", returns=Fut(NONE), post=["fresh(result)", "not result.done()"], note="asyncio task creation")
    c.call("self._heartbeat_routine", returns=Opaque("Coroutine"), note="creates the coroutine object; nothing runs yet")
    c.modifies("self._heartbeat_task")
    c.ensures("a-heartbeat-task-is-referenced-afterwards", "self._heartbeat_task is not None")
    c.ensures("a-new-one-exactly-when-none-was-referenced",
              "implies(old(self._heartbeat_task) is None, fresh(self._heartbeat_task) and not self._heartbeat_task.done())"
              " and implies(old(self._heartbeat_task) is not None, self._heartbeat_task == old(self._heartbeat_task))")


@contract(GC + ":GroupCoordinator._is_commit_retriable", ["C04"])
def _(c):
    """model in _maybe_do_autocommit: which commit errors let the periodic auto-commit try again instead of surfacing"""
    c.self_("GroupCoordinator")
    c.param("error", EXC)
    c.returns(BOOL)
    c.no_class_inv = True
    c.ensures("retriable-errors-and-the-three-rebalance-errors",
              "result == (error.retriable or is_exc(error, UnknownMemberIdError) or is_exc(error, IllegalGenerationError)"
              " or is_exc(error, RebalanceInProgressError))")


@contract(FM + ":FetchError.check_raise", ["C03"])
def _(c):
    """model in fetched_records / next_record: a buffered error always raises (post 'False' = never returns normally)"""
    c.self_("FetchErrorObj")
    c.no_class_inv = True
    c.raises("the-buffered-error", "BaseException", when="True", exact=True)


# ------------------------------------------------------------------ Fetcher.seek_to / request_offset_reset
F_ = CLASSES["Fetcher"].fields
if "_wait_consume_future" not in F_:
    F_["_wait_consume_future"] = Opt(Fut(NONE))
OTHERS_KEPT = ("forall(TP, lambda q: implies(q != tp, (q in self._records) == (q in old(self._records))"
               " and implies(q in self._records, self._records[q] == old(self._records)[q])))")


@contract(FM + ":Fetcher.seek_to", ["C13", "C03"])
def _(c):
    """C13 "An explicit seek() ... always takes precedence over any committed or reset offset" / C03 "a seek takes effect for
    the very next record even if a fetch for the old position is in flight": whatever is buffered for the partition - records
    fetched from the old position, or an error parked for the caller (no committed offset under policy none, offset out of
    range) - belongs to the position the application has just replaced; none of it may survive the seek"""
    c.self_("Fetcher")
    c.param("tp", TP)
    c.param("offset", INT)
    c.no_class_inv = True
    c.call("self._subscriptions.seek", modifies=["TPState._position", "TPState._reset_strategy", "TPState._status", "Future.state", "Future.nres"],
           raises=["Exception"], note="SubscriptionState.seek -> TopicPartitionState.seek (under contract): the position becomes the given offset")
    c.modifies("self._records", "TPState._position", "TPState._reset_strategy", "TPState._status", "Future.state", "Future.nres")
    c.raises("partition-not-assigned", "Exception")
    c.ensures("nothing-buffered-for-the-old-position-survives", "tp not in self._records")
    c.ensures("other-partitions-keep-their-buffers", OTHERS_KEPT)
    c.ensures("the-fetch-routine-is-woken", "implies(self._wait_consume_future is not None, self._wait_consume_future.done())")
    c.hook("before", "self._subscriptions.seek", [("assert", "seeks-the-partition-to-the-offset-given", "a0 == tp and a1 == offset")])
    c.replay_fn = lambda model, ob=None: {"script": _SEEK_SCRIPT}


# replay: a real Fetcher (no background task needed): a FetchError / a FetchResult parked for the partition, then seek_to
_SEEK_SCRIPT = '''
import asyncio, logging
logging.disable(logging.CRITICAL)
from aiokafka.client import AIOKafkaClient
from aiokafka.consumer.fetcher import Fetcher, FetchError
from aiokafka.consumer.subscription_state import SubscriptionState
from aiokafka.structs import TopicPartition
from aiokafka import errors as E

async def main():
    bad = []
    for what in ("NoOffsetForPartitionError", "OffsetOutOfRangeError"):
        client = AIOKafkaClient(bootstrap_servers=[])
        subs = SubscriptionState()
        fetcher = Fetcher(client, subs, auto_offset_reset="none")
        try:
            tp, other = TopicPartition("t", 0), TopicPartition("t", 1)
            subs.assign_from_user({tp, other})
            err = E.NoOffsetForPartitionError(tp) if what.startswith("NoOffset") else E.OffsetOutOfRangeError({tp: 120})
            fetcher._records[tp] = FetchError(error=err, backoff=0)
            fetcher._records[other] = FetchError(error=E.OffsetOutOfRangeError({other: 1}), backoff=0)
            fetcher.seek_to(tp, 7)
            if tp in fetcher._records:
                bad.append("a %s parked for the old position survived seek(7): the next poll raises it instead of starting at 7" % what)
            if other not in fetcher._records:
                bad.append("seek on one partition dropped what was buffered for another")
            if subs.subscription.assignment.state_value(tp).position != 7:
                bad.append("position after seek(7) is %r" % (subs.subscription.assignment.state_value(tp).position,))
        finally:
            await fetcher.close()
    return bad
bad = asyncio.run(main())
VIOLATED = bool(bad); DETAIL = "; ".join(bad)
'''


# ------------------------------------------------------------------ adopting what SyncGroup sent (C05)
classmodel("MemberAssignment", {})
ST = enum_from = None
from .common import enum_from_repo as _efr                 # noqa: E402
SUBTYPE = _efr(SS, "SubscriptionType")
CLASSES["SubscriptionState"].fields.update({"_subscription_type": SUBTYPE})


@contract(SS + ":SubscriptionState._notify_assignment_waiters", ["C05", "C03"])
def _(c):
    c.self_("SubscriptionState")
    c.no_class_inv = True
    c.modifies("self._assignment_waiters", "Future.state", "Future.nres")
    c.loop(0, header="for waiter in self._assignment_waiters", invariants=[
        ("list-fixed", "self._assignment_waiters == old(self._assignment_waiters)"),
        ("visited-waiters-released", "forall(lambda j: implies(0 <= j < $i, self._assignment_waiters[j].done()))")])
    c.ensures("everybody-waiting-for-an-assignment-is-released",
              "forall(lambda j: implies(0 <= j < len(old(self._assignment_waiters)), old(self._assignment_waiters)[j].done()))"
              " and len(self._assignment_waiters) == 0")


@contract(SS + ":SubscriptionState.assign_from_subscribed", ["C05", "C03"])
def _(c):
    """the member adopts the partitions it is given - through Subscription._assign (under contract: a new Assignment object,
    the old one retired) - and whoever waits for an assignment (the fetch routine, parked getone() calls) is released"""
    c.self_("SubscriptionState")
    c.param("assignment", Set(TP))
    c.no_class_inv = True
    c.none_raises = True
    c.bind("SubscriptionType", V(__import__("pyvc.ty", fromlist=["PYOBJ"]).PYOBJ,
                                 __import__("pyvc.exec_base", fromlist=["PyThing"]).PyThing("enumcls", name="SubscriptionType", ty=SUBTYPE)))
    c.callee_view("Subscription._assign", ["a-new-generation-gets-a-new-assignment-object", "the-assignment-it-replaces-is-retired"])
    c.callee_view("SubscriptionState._notify_assignment_waiters", ["everybody-waiting-for-an-assignment-is-released"])
    c.modifies("Subscription._assignment", "Subscription._reassignment_in_progress", "self._assignment_waiters", "Future.state", "Future.nres")
    c.raises("manual-assignment-mode-or-unsubscribed-topic-or-no-subscription", "Exception")
    c.ensures("adopts-exactly-the-partitions-given",
              "self._subscription is not None and self._subscription._assignment is not None"
              " and self._subscription._assignment._topic_partitions == assignment and fresh(self._subscription._assignment)")
    c.ensures("waiters-for-an-assignment-are-released",
              "forall(lambda j: implies(0 <= j < len(old(self._assignment_waiters)), old(self._assignment_waiters)[j].done()))")


@contract(SS + ":SubscriptionState.assigned_partitions", ["C05"])
def _(c):
    c.self_("SubscriptionState")
    c.returns(Set(TP))
    c.no_class_inv = True
    c.ensures("the-current-assignments-partitions",
              "implies(self._subscription is not None and self._subscription._assignment is not None,"
              " result == self._subscription._assignment._topic_partitions)"
              " and implies(self._subscription is None or self._subscription._assignment is None, forall(TP, lambda q: q not in result))")


classmodel("AssignorObj", {})


from pyvc.contract import specfn as _specfn           # noqa: E402
import z3 as _z3                                       # noqa: E402
from pyvc import ty as _T                              # noqa: E402
from .coordinator_rebalance import ASSIGNMENT_BYTES    # noqa: E402


@_specfn("assigned_by")
def assigned_by(ex, st, b):
    """the partitions a SyncGroup member-assignment blob names (ConsumerProtocol.ASSIGNMENT.decode(b).partitions(): wire
    decoding is C11's stand-in), as a function of the bytes"""
    ty = Set(TP)
    f = _z3.Function("assigned_by", b.t.sort(), ty.sort())
    return V(ty, f(b.t))


@contract(GC + ":GroupCoordinator._on_join_complete", ["C05"])
def _(c):
    """C05 "the assignments members adopt are exactly the ones distributed for that generation ... each member's assignment()
    equal to what it was sent": what SyncGroup delivered is decoded and adopted as it is - through assign_from_subscribed
    (under contract) - and on_partitions_assigned is told exactly the adopted partitions"""
    c.self_("GroupCoordinator")
    c.param("generation", INT)
    c.param("member_id", STR)
    c.param("protocol", STR)
    c.param("member_assignment_bytes", ASSIGNMENT_BYTES)
    c.no_class_inv = True
    c.none_raises = True
    c.owns("self._subscription")
    c.ghost("$sent", Set(TP), "assigned_by(member_assignment_bytes)")
    c.ghost("$adopted", BOOL, "False")
    c.call("self._lookup_assignor", returns=Opt(Ref("AssignorObj")), note="the assignor class of that name, or None")
    c.call("ConsumerProtocol.ASSIGNMENT.decode", returns=Ref("MemberAssignment"), raises=["Exception"],
           ghost={"$sent": "assigned_by(a0)"}, note="decodes the member-assignment blob (wire form: C11's stand-in)")
    c.call("assignment.partitions", returns="$sent", note="the partitions the decoded assignment names: a function of the blob")
    c.call("self._subscription.assign_from_subscribed", raises=["Exception"], ghost={"$adopted": "True"},
           modifies=["Subscription._assignment", "Subscription._reassignment_in_progress", "SubscriptionState._assignment_waiters",
                     "Future.state", "Future.nres"],
           post=["self._subscription._subscription is not None and self._subscription._subscription._assignment is not None",
                 "self._subscription._subscription._assignment._topic_partitions == a0"],
           note="SubscriptionState.assign_from_subscribed (under contract above)")
    c.call("assignor.on_assignment", raises=["Exception"], note="assignor callback (sticky: remembers what it owns)")
    c.call("self._stop_commit_offsets_refresh_task", havoc_all=True, raises=["BaseException"], note="suspends (under contract, close_paths.py)")
    c.call("self.start_commit_offsets_refresh_task", note="starts the per-assignment commit-refresh task")
    c.call("self._subscription.assigned_partitions", returns=Set(TP),
           post=["implies(self._subscription._subscription is not None and self._subscription._subscription._assignment is not None,"
                 " result == self._subscription._subscription._assignment._topic_partitions)"],
           note="SubscriptionState.assigned_partitions (under contract above)")
    c.call("set", returns="a0", note="set(xs): the same elements")
    c.call("self._subscription.listener.on_partitions_assigned", returns=Opaque("MaybeCoroutine"), raises=["Exception"],
           note="the application's rebalance listener")
    c.call("asyncio.iscoroutine", returns=BOOL, note="whether the listener returned a coroutine")
    c.modifies("Subscription._assignment", "Subscription._reassignment_in_progress", "SubscriptionState._assignment_waiters",
               "Future.state", "Future.nres", "self._commit_refresh_task")
    c.raises("undecodable-assignment-unknown-protocol-or-cancelled", "BaseException")
    c.hook("before", "self._subscription.assign_from_subscribed", [
        ("assert", "adopts-exactly-what-sync-group-delivered", "a0 == assigned_by(member_assignment_bytes)"),
    ])
    c.hook("before", "self._subscription.listener.on_partitions_assigned", [
        ("assert", "the-assignment-is-adopted-before-the-listener-hears-of-it", "$adopted"),
    ])


@contract(FM + ":Fetcher.request_offset_reset", ["C13", "C03"])
def _(c):
    """seek_to_beginning() / seek_to_end(): every partition named waits for a reset with exactly the strategy asked for, and
    nothing buffered for its old position survives (as for seek_to)"""
    c.self_("Fetcher")
    c.param("tps", Set(TP))
    c.param("strategy", INT)
    c.returns(Opaque("GatherFuture"))
    c.no_class_inv = True
    c.none_raises = True
    c.local("waiters", List(Opaque("ShieldedPositionFuture")))
    c.owns("self._subscriptions")
    c.call("tp_state.wait_for_position", returns=Opaque("ShieldedPositionFuture"), note="a shield of the partition's position future")
    c.call("asyncio.gather", returns=Opaque("GatherFuture"), note="asyncio.gather(*waiters)")
    c.modifies("self._records", "TPState._position", "TPState._reset_strategy", "TPState._status", "TPState._position_fut",
               "Future.state", "Future.nres")
    c.raises("no-assignment-or-partition-not-assigned", "Exception")
    c.loop(0, header="for tp in tps", invariants=[
        ("visited-partitions-await-this-reset-with-nothing-buffered",
         "forall(TP, lambda q: implies(q in $done, q not in self._records and q in assignment._tp_state"
         " and assignment._tp_state[q]._reset_strategy == strategy and assignment._tp_state[q]._position is None))"),
        ("other-buffers-kept", "forall(TP, lambda q: implies(q not in tps, (q in self._records) == (q in old(self._records))"
                               " and implies(q in self._records, self._records[q] == old(self._records)[q])))"),
    ])
    c.ensures("every-partition-named-awaits-exactly-this-reset-and-has-nothing-buffered",
              "forall(TP, lambda q: implies(q in tps, q not in self._records))")
    c.ensures("the-fetch-routine-is-woken", "implies(self._wait_consume_future is not None, self._wait_consume_future.done())")


classmodel("ConsumerObj", {"_fetcher": Ref("Fetcher")}, real="aiokafka.consumer.consumer:AIOKafkaConsumer")


@contract("aiokafka.consumer.consumer:AIOKafkaConsumer.seek", ["C13", "C03"])
def _(c):
    c.self_("ConsumerObj")
    c.param("partition", TP)
    c.param("offset", INT)
    c.no_class_inv = True
    c.none_raises = True
    c.call("self._fetcher.seek_to", raises=["Exception"], modifies=["Fetcher._records", "TPState._position", "TPState._reset_strategy",
                                                                      "TPState._status", "Future.state", "Future.nres"],
           note="Fetcher.seek_to (under contract above)")
    c.modifies("Fetcher._records", "TPState._position", "TPState._reset_strategy", "TPState._status", "Future.state", "Future.nres")
    c.raises("negative-offset", "ValueError", when="offset < 0", ensures=[("no-effect", "same_heap('TPState') and same_heap('Fetcher')")])
    c.raises("partition-not-assigned", "Exception")
    c.hook("before", "self._fetcher.seek_to", [("assert", "seeks-the-partition-to-the-offset-given", "a0 == partition and a1 == offset and offset >= 0")])


# ------------------------------------------------------------------ replacing the subscription (C05 "superseded ... subscription")
if "unsubscribe_future" not in CLASSES["Subscription"].fields:
    CLASSES["Subscription"].fields["unsubscribe_future"] = Fut(NONE)


@contract(SS + ":Subscription._unsubscribe", ["C05", "C03"])
def _(c):
    """retires a subscription: its unsubscribe_future and the unassign_future of its assignment are resolved - what every
    staleness check downstream keys on"""
    c.self_("Subscription")
    c.no_class_inv = True
    c.callee_view("Assignment._unassign", ["retired"])
    c.modifies("Future.state", "Future.nres")
    c.raises("already-retired", "InvalidStateError")
    c.ensures("the-subscription-and-its-assignment-are-retired",
              "self.unsubscribe_future.done() and implies(self._assignment is not None, self._assignment.unassign_future.done())")


@contract(SS + ":SubscriptionState._notify_subscription_waiters", ["C05"])
def _(c):
    c.self_("SubscriptionState")
    c.no_class_inv = True
    c.modifies("self._subscription_waiters", "Future.state", "Future.nres")
    c.loop(0, header="for waiter in self._subscription_waiters", invariants=[
        ("list-fixed", "self._subscription_waiters == old(self._subscription_waiters)"),
        ("visited-waiters-released", "forall(lambda j: implies(0 <= j < $i, self._subscription_waiters[j].done()))")])
    c.ensures("everybody-waiting-for-a-subscription-is-released",
              "forall(lambda j: implies(0 <= j < len(old(self._subscription_waiters)), old(self._subscription_waiters)[j].done()))"
              " and len(self._subscription_waiters) == 0")


@contract(SS + ":SubscriptionState._change_subscription", ["C05", "C03"])
def _(c):
    """a new subscription (subscribe(), assign(), a pattern match change) retires the one it replaces before it is installed"""
    c.self_("SubscriptionState")
    c.param("subscription", Ref("Subscription"))
    c.no_class_inv = True
    c.callee_view("Subscription._unsubscribe", ["the-subscription-and-its-assignment-are-retired"])
    c.callee_view("SubscriptionState._notify_subscription_waiters", ["everybody-waiting-for-a-subscription-is-released"])
    c.modifies("self._subscription", "self._subscription_waiters", "Future.state", "Future.nres")
    c.raises("already-retired", "InvalidStateError")
    c.requires("subscription != self._subscription", "a-new-subscription-object")
    c.ensures("the-new-subscription-is-installed", "self._subscription == subscription")
    c.ensures("the-subscription-it-replaces-is-retired",
              "implies(old(self._subscription) is not None, old(self._subscription).unsubscribe_future.done()"
              " and implies(old(self._subscription)._assignment is not None, old(self._subscription)._assignment.unassign_future.done()))")


@contract(SS + ":SubscriptionState.unsubscribe", ["C05", "C03"])
def _(c):
    c.self_("SubscriptionState")
    c.no_class_inv = True
    c.bind("SubscriptionType", V(__import__("pyvc.ty", fromlist=["PYOBJ"]).PYOBJ,
                                 __import__("pyvc.exec_base", fromlist=["PyThing"]).PyThing("enumcls", name="SubscriptionType", ty=SUBTYPE)))
    c.callee_view("Subscription._unsubscribe", ["the-subscription-and-its-assignment-are-retired"])
    c.modifies("self._subscription", "self._subscribed_pattern", "self._listener", "self._subscription_type", "Future.state", "Future.nres")
    c.raises("already-retired", "InvalidStateError")
    c.ensures("nothing-is-subscribed", "self._subscription is None and self._subscription_type == SubscriptionType.NONE")
    c.ensures("the-old-subscription-is-retired",
              "implies(old(self._subscription) is not None, old(self._subscription).unsubscribe_future.done()"
              " and implies(old(self._subscription)._assignment is not None, old(self._subscription)._assignment.unassign_future.done()))")


# ------------------------------------------------------------------ GroupCoordinator._send_req / check_errors
classmodel("GroupRequestObj", {})
classmodel("GroupResponseObj", {})


@contract(GC + ":GroupCoordinator._send_req", ["C06", "C04", "C13"])
def _(c):
    """every group request (JoinGroup, SyncGroup, Heartbeat, OffsetCommit, OffsetFetch, LeaveGroup) goes to the coordinator
    known when it is sent; a failed send marks that coordinator dead (the coordination routine then finds the next one)
    and the error goes on to the caller"""
    c.self_("GroupCoordinator")
    c.param("request", Ref("GroupRequestObj"))
    c.returns(Ref("GroupResponseObj"))
    c.no_class_inv = True
    c.none_raises = True
    c.owns("self._client")
    c.ghost("$dead_reported", BOOL, "False")
    c.call("self._client.send", returns=Ref("GroupResponseObj"), havoc_all=True, raises=["KafkaError", "CancelledError"],
           note="AIOKafkaClient.send: suspends; the decoded response")
    c.call("self.coordinator_dead", modifies=["self_.coordinator_id", "Future.state", "Future.nres"], ghost={"$dead_reported": "True"},
           note="GroupCoordinator.coordinator_dead (under contract)")
    c.modifies("self.coordinator_id", "Future.state", "Future.nres")
    c.raises("no-coordinator-known-or-the-broker-said-so", "GroupCoordinatorNotAvailableError")
    c.raises("send-failed-after-the-coordinator-was-marked-dead", "KafkaError", ensures=[("the-coordinator-was-marked-dead", "old(self.coordinator_id) is None or $dead_reported")])
    c.raises("cancelled", "CancelledError")
    c.hook("before", "self._client.send", [
        ("assert", "goes-to-the-coordinator-known-at-the-time", "self.coordinator_id is not None and a0 == self.coordinator_id and a1 == request"),
    ])
    c.replay_fn = lambda model, ob=None: {"script": _SEND_REQ_SCRIPT}


# replay: the real _send_req over a client whose send fails in each of the ways a send can fail
_SEND_REQ_SCRIPT = '''
import asyncio, logging
logging.disable(logging.CRITICAL)
from unittest import mock
from aiokafka import errors as E
from aiokafka.consumer.group_coordinator import GroupCoordinator
from aiokafka.protocol.commit import OffsetFetchRequest
async def main():
    bad = []
    for exc in (E.NodeNotReadyError("n"), E.KafkaConnectionError("c"), E.RequestTimedOutError(), E.NotCoordinatorForGroupError()):
        coord = GroupCoordinator.__new__(GroupCoordinator)
        coord.group_id = "g"
        coord.coordinator_id = 7
        coord._coordinator_dead_fut = asyncio.get_running_loop().create_future()
        coord._client = mock.MagicMock()
        sent = []
        async def send(node, request, group=None, exc=exc):
            sent.append(node)
            raise exc
        coord._client.send = send
        try:
            await coord._send_req(OffsetFetchRequest("g", []))
            bad.append("%s: no error reached the caller" % type(exc).__name__)
        except E.KafkaError:
            pass
        if sent != [7]:
            bad.append("%s: sent to %r, the coordinator is node 7" % (type(exc).__name__, sent))
        if coord.coordinator_id is not None or not coord._coordinator_dead_fut.done():
            bad.append("%s: the send failed and node %r is still taken for the coordinator (nothing looks the coordinator up again)" % (type(exc).__name__, coord.coordinator_id))
    return bad
bad = asyncio.run(main())
VIOLATED = bool(bad)
DETAIL = "_send_req: %r" % (bad[:3],) if bad else "ok"
'''

