"""C07 / C01 — aiokafka/producer/sender.py: the transactional request order of the sender, the handlers that record
the coordinator's acknowledgements, and the muting discipline around a produce request."""
import z3
from pyvc import ty as T
from pyvc.contract import contract, classmodel, specfn, SPEC_TYPES, CLASSES
from pyvc.ty import V, INT, BOOL, REAL, STR, NONE, EXC, BYTES, Opt, Tup, List, Set, Dict, Ref, Opaque
from pyvc.ty import PYOBJ as PYOBJ_T
from pyvc.exec_base import Fut, PyThing
from .common import TP, tp_ctor, enum_from_repo
from .message_accumulator import BATCH
from . import sender, transaction_manager, message_accumulator      # noqa: F401

MOD = "aiokafka.producer.sender"
TMOD = "aiokafka.producer.transaction_manager"
TR = enum_from_repo(TMOD, "TransactionResult")
classmodel("Task", {})
TASK = Fut(NONE)                     # an asyncio.Task is a future
OFFS = Ref("OffsetsDict")
# sender.py does not import the two enums its contracts speak of
TS_BIND = V(PYOBJ_T, PyThing("enumcls", name="TransactionState", ty=transaction_manager.TS))
TR_BIND = V(PYOBJ_T, PyThing("enumcls", name="TransactionResult", ty=TR))


def tm_invariant(c, path, rely=False):
    """the transaction manager's object invariant (re-established by each of its synchronous methods: C16 contracts)
    for the manager reached by `path`; no transition targets UNINITIALIZED (table contract)"""
    for lbl, e in transaction_manager.INVS + [("producer-id-was-initialised", "self.state != TransactionState.UNINITIALIZED")]:
        e2 = e.replace("self.", path + ".")
        c.requires(e2, "txn-manager-" + lbl)
        if rely:
            c.rely(e2, "txn-manager-" + lbl)
    c.bind("TransactionState", TS_BIND)
    c.bind("TransactionResult", TR_BIND)


def _txn_tm(c):
    c.call("create_task", returns=TASK, post=["fresh(result)", "not result.done()"],
           note="asyncio task creation: the coroutine starts later; the task is a new pending future")


# ------------------------------------------------------------------ TransactionManager look-ups used by the sender
@contract(TMOD + ":TransactionManager.consumer_group_to_add", "C07")
def _(c):
    c.self_("TransactionManager")
    c.returns(Opt(STR))
    c.loop(0, header="for group_id, _, _ in self._pending_txn_offsets", unroll=1)
    # C07 "all offset commits of a transaction": a transaction may carry offsets of several groups; each group is added to the
    # transaction (AddOffsetsToTxn) before its offsets are committed - the coordinator writes markers only for groups it added
    c.ensures("the-group-of-the-first-pending-offsets-unless-it-is-already-in-the-transaction",
              "result == ite(len(self._pending_txn_offsets) > 0 and self._pending_txn_offsets[0][0] not in self._txn_consumer_groups,"
              " some_str(self._pending_txn_offsets[0][0]), none_str())")
    c.ensures("nothing-modified", "unchanged(self)")
    c.replay_fn = lambda model, ob=None: {"script": _GROUPS_SCRIPT}


@contract(TMOD + ":TransactionManager.offsets_to_commit", "C07")
def _(c):
    c.self_("TransactionManager")
    c.returns(Opt(Tup(OFFS, STR)))
    c.loop(0, header="for group_id, offsets, _ in self._pending_txn_offsets", unroll=1)
    c.ensures("offsets-are-committed-only-after-their-group-was-added",
              "implies(result is not None, len(self._pending_txn_offsets) > 0 and self._pending_txn_offsets[0][0] in self._txn_consumer_groups"
              " and result[0] == self._pending_txn_offsets[0][1] and result[1] == self._pending_txn_offsets[0][0])")
    c.ensures("none-iff-nothing-to-commit-yet", "(result is None) == (len(self._pending_txn_offsets) == 0 or self._pending_txn_offsets[0][0] not in self._txn_consumer_groups)")
    c.ensures("nothing-modified", "unchanged(self)")
    c.replay_fn = lambda model, ob=None: {"script": _GROUPS_SCRIPT}


# replay: a real transactional producer over a stubbed client; offsets for one, two and three consumer groups are sent to one
# transaction: every group's TxnOffsetCommit must be preceded by an AddOffsetsToTxn for it
_GROUPS_SCRIPT = '''
import sys, logging, warnings
logging.disable(logging.CRITICAL)
warnings.simplefilter("ignore")
sys.path.insert(0, "/verif")
from specs import abortable_replay
bad = abortable_replay.groups_sweep()
VIOLATED = bool(bad); DETAIL = "%d problems: %s" % (len(bad), bad[:1])
'''


@specfn("some_str")
def some_str(ex, st, s):
    return T.opt_some(Opt(STR), s)


@specfn("none_str")
def none_str(ex, st):
    return T.opt_none(Opt(STR))


# ------------------------------------------------------------------ Sender._maybe_do_transactional_request
@contract(MOD + ":Sender._maybe_do_transactional_request", ["C07"])
def _(c):
    c.self_("Sender")
    c.returns(Opt(TASK))
    _txn_tm(c)
    c.requires("self._txn_manager is not None", "transactional-sender")
    c.bind("TransactionState", TS_BIND)
    c.bind("TransactionResult", TR_BIND)
    for f in ("_do_add_partitions_to_txn", "_do_add_offsets_to_txn", "_do_txn_offset_commit", "_do_txn_commit"):
        c.call("self." + f, returns=Ref("Coroutine"), post=["fresh(result)"], note="creates the coroutine object; it runs as the task created from it")
    TM = "self._txn_manager"
    # the transactional protocol order: AddPartitionsToTxn, then AddOffsetsToTxn, then TxnOffsetCommit, and EndTxn only
    # when nothing of the transaction is left to register or commit
    c.hook("before", "self._do_add_partitions_to_txn", [
        ("assert", "registers-exactly-the-pending-partitions", "a0 == %s._pending_txn_partitions and not set_is_empty(a0)" % TM),
    ])
    c.hook("before", "self._do_add_offsets_to_txn", [
        ("assert", "partitions-first", "set_is_empty(%s._pending_txn_partitions)" % TM),
        ("assert", "registers-the-group-of-the-first-pending-offsets-not-yet-in-the-transaction", "len(%s._pending_txn_offsets) > 0"
         " and a0 == %s._pending_txn_offsets[0][0] and a0 not in %s._txn_consumer_groups" % (TM, TM, TM)),
    ])
    c.hook("before", "self._do_txn_offset_commit", [
        ("assert", "offsets-committed-only-after-partitions-and-group-are-registered",
         "set_is_empty(%s._pending_txn_partitions) and len(%s._pending_txn_offsets) > 0"
         " and %s._pending_txn_offsets[0][0] in %s._txn_consumer_groups" % (TM, TM, TM, TM)),
        ("assert", "commits-the-first-pending-offsets", "len(%s._pending_txn_offsets) > 0 and a0 == %s._pending_txn_offsets[0][1]"
         " and a1 == %s._pending_txn_offsets[0][0]" % (TM, TM, TM)),
    ])
    c.hook("before", "self._do_txn_commit", [
        ("assert", "transaction-ends-only-when-nothing-is-left-to-register-or-commit",
         "set_is_empty(%s._pending_txn_partitions) and len(%s._pending_txn_offsets) == 0" % (TM, TM)),
        ("assert", "ends-the-way-the-application-asked",
         "(%s.state == TransactionState.COMMITTING_TRANSACTION and a0 == TransactionResult.COMMIT)"
         " or (%s.state == TransactionState.ABORTING_TRANSACTION and a0 == TransactionResult.ABORT)" % (TM, TM)),
    ])
    c.ensures("nothing-modified-in-the-transaction-manager", "same_heap('TransactionManager')")


@specfn("set_is_empty")
def set_is_empty(ex, st, s):
    return V(BOOL, s.t == z3.K(s.ty.elem.sort(), False))


classmodel("Coroutine", {})


# ------------------------------------------------------------------ Sender._do_txn_commit
@contract(MOD + ":Sender._do_txn_commit", ["C07", "C16"])
def _(c):
    c.self_("Sender")
    c.param("commit_result", TR)
    c.ghost("$atomic_flushed", BOOL, "False")
    c.owns("self._txn_manager", "self._message_accumulator", "self.client")
    c.requires("self._txn_manager is not None", "transactional-sender")
    c.call("self._message_accumulator.flush_for_commit", havoc_all=True, raises=["CancelledError"],
           note="MessageAccumulator.flush_for_commit (under contract, accumulator_flush.py: returns only when every batch "
                "queued or in flight at the call has been resolved); here only the fact that it was awaited is used")
    c.call("self._find_coordinator", returns=INT, havoc_all=True, raises=["KafkaError", "CancelledError"], note="transaction coordinator lookup")
    c.call("EndTxnHandler", returns=Ref("EndTxnHandler"), post=["fresh(result)", "result._commit_result == a1", "result._sender == a0"],
           note="EndTxnHandler.__init__: stores its arguments")
    c.call("handler.do", returns=BOOL, havoc_all=True, raises=["KafkaError", "CancelledError"], note="BaseHandler.do: one request/response round")
    c.modifies("TransactionManager.state", "TransactionManager._txn_partitions", "TransactionManager._pending_txn_partitions",
               "TransactionManager._txn_consumer_groups", "TransactionManager._transaction_waiter", "Future.state", "Future.nres")
    c.raises("fatal-or-cancelled", "BaseException")
    # the transaction manager's object invariant is re-established by each of its methods (C16 contracts), all of which
    # are synchronous: it holds at entry and whenever this task resumes; no transition targets UNINITIALIZED (table)
    tm_invariant(c, "self._txn_manager", rely=True)
    c.ghost("$flushed", BOOL, "False")
    c.hook("after-await", "self._message_accumulator.flush_for_commit", [("set", "$flushed", "True")])
    c.hook("before", "EndTxnHandler", [
        ("assert", "no-end-txn-before-the-transactions-batches-are-resolved", "$flushed"),
        ("assert", "ends-the-way-it-was-asked-to", "a0 == self and a1 == commit_result"),
    ])
    c.hook("before", "txn_manager.complete_transaction", [
        ("assert", "completed-without-a-request-only-if-nothing-was-ever-registered",
         "$flushed and set_is_empty(txn_manager._txn_partitions) and set_is_empty(txn_manager._txn_consumer_groups)"),
    ])
    c.replay_fn = lambda model, ob=None: {"script": _TXN_END_SCRIPT}


# replay: a real transactional producer over a stubbed client whose partition leader answers Produce late; the transaction is
# committed / aborted without awaiting the send futures
_TXN_END_SCRIPT = '''
import sys, logging, warnings
logging.disable(logging.CRITICAL)
warnings.simplefilter("ignore")
sys.path.insert(0, "/verif")
from specs import abortable_replay
bad = abortable_replay.in_flight_sweep()
VIOLATED = bool(bad); DETAIL = "%d of 2 ways to end the transaction: %s" % (len(bad), bad[:1])
'''


classmodel("EndTxnHandler", {"_sender": Ref("Sender"), "_default_backoff": REAL, "_commit_result": TR}, real=MOD + ":EndTxnHandler")
classmodel("EndTxnResponse", {"error_code": INT})


@contract(MOD + ":EndTxnHandler.handle_response", ["C07"])
def _(c):
    c.self_("EndTxnHandler")
    c.param("resp", Ref("EndTxnResponse"))
    c.returns(Opt(REAL))
    c.requires("self._sender._txn_manager is not None", "transactional-sender")
    tm_invariant(c, "self._sender._txn_manager")
    c.call("self._sender._coordinator_dead", note="forgets the cached coordinator of that kind")
    c.modifies("TransactionManager.state", "TransactionManager._txn_partitions", "TransactionManager._pending_txn_partitions",
               "TransactionManager._txn_consumer_groups", "TransactionManager._transaction_waiter", "Future.state", "Future.nres")
    c.raises("fenced-or-fatal", "Exception")
    c.hook("before", "txn_manager.complete_transaction", [
        ("assert", "transaction-completes-only-on-the-coordinators-no-error", "Errors.for_code(resp.error_code) == Errors.NoError"),
    ])
    c.ensures("done-iff-acknowledged", "(result is None) == (Errors.for_code(resp.error_code) == Errors.NoError)")


# ------------------------------------------------------------------ AddPartitionsToTxnHandler
classmodel("AddPartitionsHandler", {"_sender": Ref("Sender"), "_default_backoff": REAL, "_tps": Set(TP)},
           real=MOD + ":AddPartitionsToTxnHandler")
classmodel("AddPartitionsResponse", {"errors": List(Tup(STR, List(Tup(INT, INT))))})


@contract(MOD + ":AddPartitionsToTxnHandler.handle_response", ["C07"])
def _(c):
    c.self_("AddPartitionsHandler")
    c.param("resp", Ref("AddPartitionsResponse"))
    c.returns(Opt(REAL))
    c.bind("TopicPartition", tp_ctor)
    c.local("unauthorized_topics", Set(STR))
    c.requires("self._sender._txn_manager is not None", "transactional-sender")
    tm_invariant(c, "self._sender._txn_manager")
    c.none_raises = True
    c.call("self._sender._coordinator_dead", note="forgets the cached coordinator of that kind")
    c.call("TopicAuthorizationFailedError", returns=EXC, note="exception constructor")
    c.call("txn_manager.error_transaction", modifies=["TransactionManager.state", "TransactionManager._txn_partitions",
           "TransactionManager._pending_txn_partitions", "TransactionManager._txn_consumer_groups", "TransactionManager._pending_txn_offsets",
           "Future.state", "Future.nres", "Future.exc"], raises=["AssertionError"],
           note="TransactionManager.error_transaction (under contract, C16): abstracted here because its preconditions "
                "(a transaction is open) are facts about the caller's history")
    c.modifies("TransactionManager.state", "TransactionManager._txn_partitions", "TransactionManager._pending_txn_partitions",
               "TransactionManager._txn_consumer_groups", "TransactionManager._transaction_waiter", "TransactionManager._pending_txn_offsets",
               "Future.state", "Future.nres", "Future.exc")
    c.raises("fenced-fatal-or-answer-for-an-unrequested-partition", "Exception")
    c.loop(0, header="for topic, partitions in resp.errors", invariants=[])
    c.loop(1, header="for partition, error_code in partitions", invariants=[])
    # "never writes to a partition before the coordinator acknowledged adding it": the only place a partition becomes
    # drainable (moves from pending to added) is the coordinator's NoError for exactly that partition
    c.hook("before", "txn_manager.partition_added", [
        ("assert", "partition-becomes-writable-only-on-the-coordinators-no-error-for-it",
         "error_type == Errors.NoError and Errors.for_code(error_code) == Errors.NoError and a0 == TopicPartition(topic, partition)"),
    ])
    c.replay_fn = lambda model, ob=None: {"script": _ADD_PARTITIONS_SCRIPT}


_ADD_PARTITIONS_SCRIPT = '''
import sys
sys.path.insert(0, "/verif")
from specs import txn_handlers_replay
bad = txn_handlers_replay.partitions_sweep()
VIOLATED = bool(bad)
DETAIL = "%d AddPartitionsToTxn answers made an unacknowledged partition writable; first: %r" % (len(bad), bad[:2]) if bad else "ok"
'''


# ------------------------------------------------------------------ Sender._send_produce_req (muting discipline: C01 order, C07)
classmodel("ProduceHandlerObj", {})


@contract(MOD + ":Sender._send_produce_req", ["C01", "C07"])
def _(c):
    c.self_("Sender")
    c.param("node_id", INT)
    c.param("batches", Dict(TP, BATCH))
    c.ghost("$handled", BOOL, "False")
    c.owns("self._in_flight", "self._muted_partitions")           # the references; other tasks add/remove *other* entries
    c.call("SendProduceReqHandler", returns=Ref("SendProduceReqHandler"), post=["fresh(result)", "result._batches == a1", "result._sender == a0"],
           note="SendProduceReqHandler.__init__: stores its arguments")
    c.call("handler.do", returns=BOOL, havoc_all=True, raises=["KafkaError", "CancelledError"],
           note="BaseHandler.do: sends the request, handles the response (every batch resolved or re-enqueued) and backs off")
    c.modifies("self._in_flight", "self._muted_partitions")
    c.raises("fatal-or-cancelled-or-not-muted", "BaseException")
    c.loop(0, header="for tp in batches", invariants=[("request-fully-handled", "$handled")])
    c.hook("after-await", "handler.do", [("set", "$handled", "True")])
    # a partition (and its node) stays muted for the whole request/response/back-off round: nothing newer for that
    # partition can be drained and overtake the batch in flight
    c.hook("before", "self._in_flight.remove", [
        ("assert", "node-released-only-after-the-response-was-handled", "$handled and a0 == node_id"),
    ])
    c.hook("before", "self._muted_partitions.remove", [
        ("assert", "partition-unmuted-only-after-the-response-was-handled", "$handled and tp in batches and a0 == tp"),
    ])


# ------------------------------------------------------------------ Sender._sender_routine (what may be drained, and when)
@contract(MOD + ":Sender._sender_routine", ["C01", "C07", "C19"])
def _(c):
    c.self_("Sender")
    _txn_tm(c)
    c.bind("TransactionState", TS_BIND)
    c.local("tasks", Set(TASK))
    c.local("waiters", Set(TASK))
    c.local("txn_task", Opt(TASK))
    c.local("muted_partitions", Set(TP))
    c.local("batches", message_accumulator.NODES)
    c.local("done", Set(TASK))
    c.owns("self._txn_manager", "self._message_accumulator", "self.client")
    # after an abortable error the partitions still waiting for registration are forgotten (error_transaction empties
    # _pending_txn_partitions: its contract), so muting no longer keeps their batches back: nothing that was never sent may
    # still be queued when the routine drains in that state
    c.ghost("$only_retries_queued", BOOL, "False")
    c.call("self._message_accumulator.fail_undrained", ghost={"$only_retries_queued": "True"},
           modifies=["MessageAccumulator.*", "MessageBatch.*", "Future.state", "Future.nres", "Future.exc"],
           note="MessageAccumulator.fail_undrained (under contract, accumulator_flush.py): afterwards every batch still queued "
                "has been drained before (waits for a retry)")
    c.call("self._maybe_wait_for_pid", havoc_all=True, raises=["KafkaError", "CancelledError"], note="suspends until a producer id is known")
    c.call("txn_manager.make_task_waiter", returns=TASK, post=["fresh(result)", "not result.done()"],
           modifies=["TransactionManager._task_waiter"], note="TransactionManager.make_task_waiter: a new pending future")
    c.call("self.client.force_metadata_update", returns=TASK, note="a future for the next metadata refresh")
    c.call("self._message_accumulator.waiter", returns=TASK, note="the accumulator's 'data available' future")
    c.call("asyncio.wait", returns=Tup(Set(TASK), Set(TASK)), havoc_all=True, raises=["CancelledError"],
           post=["forall(TASK, lambda t: implies(t in result[0], t.done()))"],
           note="asyncio.wait(waiters, FIRST_COMPLETED): suspends; returns (done, pending), every member of done is done")
    c.call("self._message_accumulator.drain_by_nodes", returns=Tup(message_accumulator.NODES, BOOL),
           modifies=["MessageAccumulator.*", "MessageBatch.*", "BatchBuilder.*", "TransactionManager._sequence_numbers",
                     "Future.state", "Future.nres", "Future.exc"], raises=["AssertionError"],
           note="MessageAccumulator.drain_by_nodes (under contract, C01: never drains a muted partition, takes queue heads only); "
                "abstracted here because its preconditions are the accumulator's own object invariant")
    c.modifies("self._in_flight", "self._muted_partitions", "TransactionManager._task_waiter", "Future.state", "Future.nres", "Future.exc",
               "MessageAccumulator.*", "MessageBatch.*", "BatchBuilder.*", "TransactionManager._sequence_numbers")
    c.raises("fatal-or-unexpected", "BaseException")
    # C19 "no task ... created by that client is still alive": Sender.close() cancels this routine, which then awaits the
    # tasks in `tasks` - the transaction-coordination request it started and has not seen finished has to be one of them at
    # every suspension (waiters are not awaited on exit)
    OWN = "implies(txn_task is not None and not txn_task.done(), txn_task in tasks)"
    c.loop(0, header="while True", invariants=[("the-transactional-request-in-flight-is-among-the-tasks-awaited-on-close", OWN)])
    c.hook("before", "asyncio.wait", [("assert", "the-transactional-request-in-flight-is-among-the-tasks-awaited-on-close", OWN)])
    c.loop(1, header="for node_id, node_batches in batches.items()", invariants=[("tasks-only-grow-here", OWN)])
    c.loop(2, header="for tp in node_batches", invariants=[
        ("tasks-only-grow-here", OWN),
        ("partitions-visited-so-far-are-muted", "forall(TP, lambda q: implies(q in $done, q in self._muted_partitions))"),
        ("node-marked-in-flight", "node_id in self._in_flight"),
    ])
    c.loop(3, header="for task in done", invariants=[])
    c.loop(4, header="for task in tasks", invariants=[])
    TXN = "self._txn_manager is not None and self._txn_manager.transactional_id is not None"
    c.replay_fn = lambda model, ob=None: {"script": _ROUTINE_SCRIPT}
    c.hook("before", "self._message_accumulator.drain_by_nodes", [
        # C07: "never writes to a partition before the coordinator acknowledged adding it to the transaction"
        ("assert", "partitions-not-yet-acknowledged-by-the-coordinator-are-muted",
         "implies(%s, forall(TP, lambda q: implies(q in self._txn_manager._pending_txn_partitions, q in kw_muted_partitions)))" % TXN),
        ("assert", "with-an-abortable-error-nothing-unsent-is-left-to-drain",
         # "with an error": until the transaction that met it is ended (also while it is being aborted)
         "implies(%s and self._txn_manager._abortable_error is not None, $only_retries_queued)" % TXN),
        # C01: "never two batches of one partition in flight"
        ("assert", "partitions-with-a-request-in-flight-are-muted",
         "forall(TP, lambda q: implies(q in self._muted_partitions, q in kw_muted_partitions)) and kw_ignore_nodes == self._in_flight"),
    ])
    # ... and what is drained is muted, its node marked busy, before this task yields again
    c.hook("before", "tasks.add#1", [
        ("assert", "drained-partitions-muted-and-node-busy-before-the-next-suspension",
         "node_id in self._in_flight and forall(TP, lambda q: implies(q in node_batches, q in self._muted_partitions))"),
    ])


# replay: a real transactional AIOKafkaProducer over a stubbed client whose coordinator refuses AddPartitionsToTxn for an
# unauthorized topic (nothing of that request is added): no Produce may go to a partition that was never acknowledged
_ROUTINE_SCRIPT = '''
import sys, logging, warnings
logging.disable(logging.CRITICAL)
warnings.simplefilter("ignore")
sys.path.insert(0, "/verif")
from specs import abortable_replay
bad = abortable_replay.sweep()
VIOLATED = bool(bad); DETAIL = "%d of 4 scenarios: %s" % (len(bad), bad[:1])
'''
