"""C03 — aiokafka/consumer/fetcher.py: the step of the fetch routine (Fetcher._fetch_requests_routine) that hands the
result of finished fetch tasks on to the application.

C03 "... and once faults cease delivery continues to the end of the log": getone()/getmany() with nothing buffered park on
a fetch waiter; the only thing that ever wakes them is this statement. A fetch task returns True when it buffered records
(_proc_fetch_request, under contract). Whenever one of the tasks that finished in this round did so, every parked waiter
must be woken - whatever the other tasks that finished in the same round returned - otherwise records sit in the buffer
and, on a log that has reached its end, nothing ever wakes the application again.

Fragment contract: the routine as a whole (nested function, asyncio.wait over chained sets, task creation) is outside the
verified subset; the statement `if done_pending:` is verified for every set of finished tasks and every set of waiters."""
from pyvc.contract import contract, classmodel, specfn, SPEC_TYPES, CLASSES
from pyvc.ty import V, INT, BOOL, REAL, STR, NONE, EXC, BYTES, Opt, Tup, List, Set, Dict, Ref, Opaque
from pyvc.exec_base import Fut
from . import close_paths      # noqa: F401  (Fetcher fields, Fetcher._notify under contract)

FMOD = "aiokafka.consumer.fetcher"
BTASK = Fut(BOOL)
SPEC_TYPES["BTASK"] = BTASK
SPEC_TYPES["WAITER"] = Fut(NONE)


@contract(FMOD + ":Fetcher._fetch_requests_routine", ["C03"])
def _(c):
    c.self_("Fetcher")
    c.no_class_inv = True
    c.local("done_pending", Set(BTASK))
    c.fragment("if done_pending", requires=[
        # done_pending = self._pending_tasks.intersection(done_set), done_set from asyncio.wait: finished tasks
        "forall(BTASK, lambda t: implies(t in done_pending, t.done()))",
    ])
    c.modifies("self._pending_tasks", "Future.state", "Future.nres")
    c.raises("a-fetch-task-had-failed", "BaseException")
    c.loop(0, header="for waiter in self._fetch_waiters", invariants=[
        ("visited-waiters-are-woken", "forall(WAITER, lambda w: implies(w in $done, w.done()))"),
        ("waiters-set-fixed", "self._fetch_waiters == old(self._fetch_waiters)"),
    ])
    c.ensures_internal("records-buffered-by-any-fetch-that-finished-wake-every-waiting-caller",
                       "implies(exists(BTASK, lambda t: t in done_pending and not t.cancelled() and t.exception() is None and t.result()),"
                       " forall(WAITER, lambda w: implies(w in self._fetch_waiters, w.done())))")
    c.ensures_internal("finished-tasks-leave-the-pending-set",
                       "forall(BTASK, lambda t: implies(t in done_pending, t not in self._pending_tasks))")
    c.replay_fn = lambda model, ob=None: {"script": _WAKE_SCRIPT}


# replay: the real routine of a real Fetcher with stubbed _get_actions_per_node / _proc_fetch_request: two fetch tasks finish
# in the same round, one having buffered records (True), one not (False); a parked fetch waiter must be woken
_WAKE_SCRIPT = '''
import asyncio, logging, itertools
logging.disable(logging.CRITICAL)
from aiokafka.client import AIOKafkaClient
from aiokafka.consumer.fetcher import Fetcher
from aiokafka.consumer.subscription_state import SubscriptionState
from aiokafka.structs import TopicPartition

async def scenario(results):
    client = AIOKafkaClient(bootstrap_servers=[])
    subs = SubscriptionState()
    fetcher = Fetcher(client, subs)
    try:
        subs.assign_from_user({TopicPartition("t", p) for p in range(len(results))})
        rounds = [0]
        gate = asyncio.Event()
        def actions(assignment):
            rounds[0] += 1
            if rounds[0] == 1:
                return [(n, object()) for n in range(len(results))], {}, None, False, []
            return [], {}, 3600, False, []
        async def proc(assignment, node_id, request):
            await gate.wait()                    # all tasks finish in the same loop iteration
            return results[node_id]
        fetcher._get_actions_per_node = actions
        fetcher._proc_fetch_request = proc
        waiter = fetcher._create_fetch_waiter()
        await asyncio.sleep(0.01)
        gate.set()
        await asyncio.sleep(0.05)
        if any(results) and not waiter.done():
            return "fetch tasks of one round returned %r: records were buffered but the waiting caller was not woken" % (results,)
        return None
    finally:
        await fetcher.close()

async def main():
    bad = []
    for n in (1, 2, 3):
        for results in itertools.product((True, False), repeat=n):
            r = await scenario(list(results))
            if r: bad.append(r)
    return bad
bad = asyncio.run(main())
VIOLATED = bool(bad); DETAIL = "%d scenario(s) fail; first: %s" % (len(bad), bad[:2])
'''


# ------------------------------------------------------------------ the branch that retires the tasks of a lost assignment
# C19 "stop() always terminates": Fetcher.close() cancels the routine and waits for it. While the routine waits for the
# per-node tasks it has just cancelled, that cancellation must reach the routine itself: a bare `await task` hands it to the
# task awaited (asyncio propagates a cancellation to the future a task waits on), where it is swallowed or mistaken for the
# task's own - the routine then carries on with the next assignment and close() waits for ever. The per-node tasks are
# futures other code waits for as well (close() awaits them too): declared shared, so that every bare await of one is an
# obligation that fails.
@contract(FMOD + ":Fetcher._fetch_requests_routine", ["C19"], variant="tasks-of-a-lost-assignment")
def _(c):
    c.self_("Fetcher")
    c.no_class_inv = True
    c.local("assignment", Opt(Ref("Assignment")))
    c.local("subscription", Opt(Ref("Subscription")))
    c.local("task", BTASK)
    c.fragment("if assignment is None or not assignment.active")
    c.none_raises = True
    c.shared("task")
    c.call("asyncio.wait", returns=Tup(Set(BTASK), Set(BTASK)), havoc_all=True, raises=["CancelledError"], nargs=1, kwargs=[],
           post=["forall(BTASK, lambda t: implies(t in a0, t.done()))"],
           note="asyncio.wait(tasks): suspends until all of them are done; a cancellation of the waiting task is raised in it and "
                "is not passed on to the tasks")
    c.call("self._subscriptions.wait_for_assignment", returns=Fut(NONE), post=["fresh(result)"],
           note="a future resolved by the next assignment")
    c.modifies("self._pending_tasks", "self._records", "Future.state", "Future.nres", "Future.exc")
    c.raises("cancelled-or-a-task-had-failed", "BaseException")
    c.loop(0, header="for task in self._pending_tasks", invariants=[])
    c.loop(1, header="for task in self._pending_tasks", invariants=[])
    c.replay_fn = lambda model, ob=None: {"script": _REASSIGN_CLOSE_SCRIPT}


# replay: a real Fetcher with a fetch request in flight; the application replaces the assignment and calls close() 0..8 loop
# iterations later
_REASSIGN_CLOSE_SCRIPT = '''
import asyncio, logging
logging.disable(logging.CRITICAL)
from aiokafka.client import AIOKafkaClient
from aiokafka.consumer.fetcher import Fetcher
from aiokafka.consumer.subscription_state import SubscriptionState
from aiokafka.structs import TopicPartition

async def scenario(yields, change):
    client = AIOKafkaClient(bootstrap_servers=[])
    subs = SubscriptionState()
    tp = TopicPartition("t", 0)
    subs.assign_from_user({tp})
    subs.subscription.assignment.state_value(tp).reset_to(0)
    async def send(node, request, group=None):
        await asyncio.sleep(3600)
    client.send = send
    async def ready(node, group=None): return True
    client.ready = ready
    client.cluster.leader_for_partition = lambda p: 0
    async def nothing(*a, **k): return None
    client._maybe_wait_metadata = nothing
    fetcher = Fetcher(client, subs)
    await asyncio.sleep(0.05)            # a fetch request is in flight
    subs.unsubscribe()
    if change == "assign":
        subs.assign_from_user({TopicPartition("t", 1)})
        subs.subscription.assignment.state_value(TopicPartition("t", 1)).reset_to(0)
    for _ in range(yields):
        await asyncio.sleep(0)
    closer = asyncio.ensure_future(fetcher.close())
    done, pend = await asyncio.wait([closer], timeout=1.0)
    if pend:
        closer.cancel()                  # (this rescues the hanging close(): the harness must not hang with it)
        await asyncio.sleep(0.05)
        return "%s, then close() %d loop iterations later: close() had not returned after 1 s" % (change, yields)
    return None
async def main():
    bad = []
    for change in ("unsubscribe", "assign"):
        for y in range(0, 9):
            r = await scenario(y, change)
            if r: bad.append(r)
    return bad
bad = asyncio.run(main())
VIOLATED = bool(bad)
DETAIL = "%d of 18 schedules: %r" % (len(bad), bad[:3]) if bad else "ok"
'''
