"""Path state, obligations and outcomes for the symbolic executor."""
import z3


class Unsupported(Exception):
    """Code outside the supported subset / binding failure: exit 3 or 2, never a violation."""


class BindingError(Exception):
    """A sidecar contract can no longer bind to the code (loop count, names): exit 2."""


class St:
    __slots__ = ("pc", "env", "heap", "nalloc", "ghost", "flags", "yielded", "depth")

    def __init__(self):
        self.pc = []
        self.env = {}
        self.heap = {}
        self.nalloc = None
        self.ghost = {}
        self.flags = {}
        self.yielded = None
        self.depth = 0

    def copy(self):
        s = St()
        s.pc = list(self.pc)
        s.env = dict(self.env)
        s.heap = dict(self.heap)
        s.nalloc = self.nalloc
        s.ghost = dict(self.ghost)
        s.flags = dict(self.flags)
        s.yielded = self.yielded
        s.depth = self.depth
        return s

    def assume(self, b):
        if z3.is_true(b):
            return self
        self.pc.append(b)
        return self


class Obl:
    """One sub-query of a named obligation: valid iff And(pc) => goal (kind != cover),
    or And(pc) satisfiable (kind == cover)."""
    __slots__ = ("name", "kind", "label", "line", "pc", "goal", "info", "decode")

    def __init__(self, name, kind, label, line, pc, goal, info=None, decode=None):
        self.name = name
        self.kind = kind
        self.label = label
        self.line = line
        self.pc = list(pc)
        self.goal = goal
        self.info = info or {}
        self.decode = decode      # dict name -> z3 term, evaluated in a counter-model


class Out:
    """Outcome of executing a statement list."""
    __slots__ = ("kind", "st", "val")

    def __init__(self, kind, st, val=None):
        self.kind = kind      # fall | return | raise | break | continue
        self.st = st
        self.val = val
