"""C15 — bounded stand-in only (nothing about the sticky assignor is proved; ~900 lines of mutable bookkeeping
are outside the verifier's reach, DESIGN.md §4 C15). The real StickyPartitionAssignor is run for two (and, in
the random tier, up to five) consecutive rounds, the previous assignment carried through the real user-data
encoding, over the property's own space:
  (a) identical second round            -> identical assignment
  (b) equal subscriptions, members gone -> every partition of a surviving member stays with it
  (c) equal subscriptions, members added-> no partition moves between old members
"""
import argparse
import itertools
import json
import logging
import multiprocessing as mp
import random
import time

logging.disable(logging.CRITICAL)

from bounded.assign_common import assignors, run, check_valid, box, random_case     # noqa: E402


def emit(d):
    print("BOUNDED " + json.dumps(d, default=str))


def tps(lst):
    from aiokafka.structs import TopicPartition
    return [TopicPartition(t, p) for t, p in lst]


def second_rounds(subs):
    """(kind, new subscriptions) for a first-round group"""
    members = sorted(subs)
    yield "identical", dict(subs)
    same = len(set(map(frozenset, subs.values()))) == 1
    if same:
        for r in range(1, len(members)):
            for gone in itertools.combinations(members, r):
                yield "removed", {m: subs[m] for m in members if m not in gone}
        for extra in (1, 2):
            new = dict(subs)
            for i in range(extra):
                new["n%d" % i] = list(subs[members[0]])
            yield "added", new


def check_round(kind, parts, subs1, res1, subs2, res2):
    errs = check_valid(parts, subs2, res2)
    old = {tp: m for m, v in res1.items() for tp in v}
    new = {tp: m for m, v in res2.items() for tp in v}
    if kind == "identical":
        if {m: sorted(v) for m, v in res1.items()} != {m: sorted(v) for m, v in res2.items()}:
            errs.append("unchanged group, assignment changed: %r -> %r" % (res1, res2))
    elif kind == "removed":
        for tp, m in old.items():
            if m in subs2 and new.get(tp) != m:
                errs.append("%r moved from surviving member %s to %s" % (tp, m, new.get(tp)))
    elif kind == "added":
        for tp, m in old.items():
            if new.get(tp) != m and new.get(tp) in subs1:
                errs.append("%r moved between old members %s -> %s" % (tp, m, new.get(tp)))
    return errs


def _chunk(cases):
    A = assignors()["sticky"]
    n = nontrivial = 0
    fails = []
    for parts, subs in cases:
        try:
            res1 = run(A, parts, subs)
        except Exception as e:
            fails.append({"partitions": parts, "subscriptions": subs, "errors": ["round 1 raised %s: %s" % (type(e).__name__, e)]})
            continue
        prev = {m: tps(v) for m, v in res1.items()}
        for kind, subs2 in second_rounds(subs):
            n += 1
            try:
                res2 = run(A, parts, subs2, previous=prev, generation=1)
                errs = check_round(kind, parts, subs, res1, subs2, res2)
            except Exception as e:
                errs = ["round 2 raised %s: %s" % (type(e).__name__, e)]
            if sum(len(v) for v in res1.values()) > 1 and len(subs) > 1:
                nontrivial += 1
            if errs:
                fails.append({"kind": kind, "partitions": parts, "round1": subs, "round2": subs2, "errors": errs[:3]})
        if len(fails) >= 5:
            break
    return n, nontrivial, fails


def chains(rnd, n_chains, rounds=5):
    """random exploration: chains of rounds with members leaving/joining under equal subscriptions"""
    A = assignors()["sticky"]
    n = 0
    fails = []
    for ci in range(n_chains):
        parts, subs = random_case(rnd, max_members=8, max_topics=5, max_parts=8)
        topics = sorted(set(itertools.chain.from_iterable(subs.values())))

        def listing(topics=topics, shuffle=bool(ci % 2)):
            t = list(topics)
            if shuffle:
                rnd.shuffle(t)            # equal subscriptions listed in a member-specific order (every other chain)
            return t
        subs = {m: listing() for m in sorted(subs)}             # equal subscriptions
        res = run(A, parts, subs)
        gen = 1
        for _r in range(rounds - 1):
            prev = {m: tps(v) for m, v in res.items()}
            members = sorted(subs)
            choice = rnd.choice(["identical", "removed", "added"])
            if choice == "removed" and len(members) > 1:
                gone = set(rnd.sample(members, rnd.randint(1, len(members) - 1)))
                subs2 = {m: subs[m] for m in members if m not in gone}
            elif choice == "added":
                subs2 = dict(subs)
                for i in range(rnd.randint(1, 2)):
                    subs2["x%d_%d" % (gen, i)] = listing()
            else:
                choice, subs2 = "identical", dict(subs)
            res2 = run(A, parts, subs2, previous=prev, generation=gen)
            n += 1
            errs = check_round(choice, parts, subs, res, subs2, res2)
            if errs:
                fails.append({"kind": choice, "partitions": parts, "round1": subs, "round2": subs2, "errors": errs[:3]})
                break
            subs, res, gen = subs2, res2, gen + 1
    return n, fails


def lagging_chains(rnd, n_chains):
    """A member that missed the last rebalance (its SyncGroup was lost) reports what it owned one generation earlier,
    with that generation; the others report the latest assignment. Conflicting claims are resolved by generation, so as
    long as the lagging member only LOST partitions in the rebalance it missed, the previous assignment the assignor is
    given is exactly the latest one, and clauses (b) and (c) apply to it unchanged. Rounds: equal subscriptions; members
    join (so that old members lose partitions); then a third round - join / leave / identical - with 1..2 lagging members."""
    A = assignors()["sticky"]
    n, fails = 0, []
    for ci in range(n_chains):
        parts, subs = random_case(rnd, max_members=6, max_topics=4, max_parts=9)
        topics = sorted(set(itertools.chain.from_iterable(subs.values())))
        subs1 = {m: list(topics) for m in sorted(subs)}
        res1 = run(A, parts, subs1)
        subs2 = dict(subs1)
        for i in range(rnd.randint(1, 2)):
            subs2["j%d" % i] = list(topics)
        res2 = run(A, parts, subs2, previous={m: tps(v) for m, v in res1.items()}, generation=1)
        if check_round("added", parts, subs1, res1, subs2, res2):
            continue                                  # the plain chains report this
        lag = [m for m in subs1 if set(res2[m]) < set(res1[m])]
        if not lag:
            continue
        lagging = rnd.sample(lag, min(len(lag), rnd.randint(1, 2)))
        kind = rnd.choice(["added", "added", "identical", "removed"])
        members = sorted(subs2)
        if kind == "removed":
            cand = [m for m in members if m not in lagging]
            if len(cand) < 1 or len(members) < 2:
                kind = "added"
            else:
                gone = set(rnd.sample(cand, rnd.randint(1, max(1, len(cand) - 1))))
                subs3 = {m: subs2[m] for m in members if m not in gone}
        if kind == "added":
            subs3 = dict(subs2)
            for i in range(rnd.randint(1, 2)):
                subs3["k%d" % i] = list(topics)
        elif kind == "identical":
            subs3 = dict(subs2)
        prev = {m: tps(res1[m] if m in lagging else v) for m, v in res2.items()}
        res3 = run(A, parts, subs3, previous=prev, generation=2, generations={m: 1 for m in lagging})
        n += 1
        errs = check_round(kind, parts, subs2, res2, subs3, res3)
        if errs:
            fails.append({"kind": kind + " with lagging " + ",".join(lagging), "partitions": parts, "round1": sorted(subs1),
                          "round2": sorted(subs2), "round3": sorted(subs3),
                          "latest": {m: sorted(v) for m, v in res2.items()}, "reported_by_lagging": {m: sorted(res1[m]) for m in lagging},
                          "errors": errs[:3]})
    return n, fails


def lagging_box(max_p, max_m=4):
    """the same situation, enumerated: 1..2 topics of 2..max_p partitions, 2..max_m members (two naming schemes, so that a
    joiner sorts before or after the old members), one member joins, then - with each old member that only lost partitions
    lagging in turn - a member joins (sorting first or last), nothing changes, or a non-lagging member leaves"""
    A = assignors()["sticky"]
    n, fails = 0, []
    for nt in (1, 2):
        for P in range(2, max_p + 1):
            parts = {"t%d" % i: P for i in range(nt)}
            topics = sorted(parts)
            for m in range(2, max_m + 1):
                for names in (["c%d" % i for i in range(m)], ["m%d" % (2 * i) for i in range(m)]):
                    subs1 = {x: list(topics) for x in names}
                    res1 = run(A, parts, subs1)
                    for joiner in ("a_first", "m1", "z_last"):
                        subs2 = dict(subs1)
                        subs2[joiner] = list(topics)
                        res2 = run(A, parts, subs2, previous={x: tps(v) for x, v in res1.items()}, generation=1)
                        for lagm in names:
                            if not set(res2[lagm]) < set(res1[lagm]):
                                continue
                            prev = {x: tps(res1[x] if x == lagm else v) for x, v in res2.items()}
                            thirds = [("added", dict(subs2, **{j2: list(topics)})) for j2 in ("0_first", "n5", "zz_last")]
                            thirds.append(("identical", dict(subs2)))
                            thirds += [("removed", {x: v for x, v in subs2.items() if x != g}) for g in subs2 if g != lagm]
                            for kind, subs3 in thirds:
                                res3 = run(A, parts, subs3, previous={x: v for x, v in prev.items() if x in subs3}, generation=2,
                                           generations={lagm: 1})
                                n += 1
                                errs = check_round(kind, parts, subs2, res2, subs3, res3)
                                if errs and len(fails) < 20:
                                    fails.append({"kind": kind + " with lagging " + lagm, "partitions": parts, "round1": names,
                                                  "round2": sorted(subs2), "round3": sorted(subs3),
                                                  "latest": {x: sorted(v) for x, v in res2.items()},
                                                  "reported_by_lagging": sorted(res1[lagm]), "errors": errs[:3]})
    return n, fails


def _mixed_reproduce(args):
    """clause (a) is stated for any subscriptions: after every change of a chain with *different* subscriptions (a member
    leaves, a member joins with any subscription) the unchanged group is assigned again and has to get exactly what it
    had - the result of a rebalance must be a fixed point of the assignor"""
    seed, count = args
    rnd = random.Random(seed)
    A = assignors()["sticky"]
    n, fails = 0, []
    for _ in range(count):
        nt = rnd.randint(2, 4)
        topics = ["t%d" % i for i in range(nt)]
        parts = {t: rnd.randint(1, 5) for t in topics}
        subs = {"m%d" % i: rnd.sample(topics, rnd.randint(1, nt)) for i in range(rnd.randint(2, 5))}
        res = run(A, parts, subs)
        gen = 1
        for _r in range(4):
            prev = {m: tps(v) for m, v in res.items()}
            members = sorted(subs)
            if rnd.random() < 0.5 and len(members) > 1:
                gone = rnd.choice(members)
                subs2 = {m: subs[m] for m in members if m != gone}
                kind = "after %s left" % gone
            else:
                subs2 = dict(subs)
                subs2["j%d" % gen] = rnd.sample(topics, rnd.randint(1, nt))
                kind = "after j%d joined" % gen
            res2 = run(A, parts, subs2, previous=prev, generation=gen)
            gen += 1
            prev2 = {m: tps(v) for m, v in res2.items()}
            res3 = run(A, parts, subs2, previous=prev2, generation=gen)
            gen += 1
            n += 1
            if {m: sorted(v) for m, v in res2.items()} != {m: sorted(v) for m, v in res3.items()}:
                moved = sorted(tp for m, v in res2.items() for tp in v if tp not in res3.get(m, []))
                fails.append({"kind": "identical " + kind, "partitions": parts, "subscriptions": subs2,
                              "assignment": {m: sorted(v) for m, v in res2.items()},
                              "errors": ["unchanged group, %r moved" % (moved[:4],)]})
                break
            subs, res = subs2, res3
    return n, fails


def mixed_reproduce_chains(seed, n_chains, jobs=16):
    per = max(1, n_chains // (jobs * 2))
    n, fails = 0, []
    with mp.Pool(jobs) as pool:
        for a, f in pool.imap_unordered(_mixed_reproduce, [(seed * 1000 + i, per) for i in range(jobs * 2)]):
            n += a
            fails.extend(f)
    return n, fails


def _scale_chain(args):
    """members join one at a time up to max_m, stay one round, then leave one at a time"""
    ntopics, nparts, descending, stranger, max_m = args[:5]
    reverse_listing = len(args) > 5 and args[5]
    A = assignors()["sticky"]
    topics = ["t%d" % i for i in range(ntopics)]
    parts = {t: nparts for t in topics}
    if reverse_listing:
        # uneven topics, all members list them in the same non-alphabetical order (a member lists its subscription in set
        # order); the joiner of each round has no user data yet
        parts = {t: max(1, nparts - 3 * i) for i, t in enumerate(topics)}
        topics = topics[::-1]
    if stranger:
        parts["unsubscribed"] = 3            # a cluster topic nobody subscribes to (pattern subscriptions see those)
    names = ["m%02d" % i for i in range(max_m)]
    if descending:
        names = names[::-1]
    subs = {names[0]: list(topics)}
    res = run(A, parts, subs)
    plan = [("added", names[:k]) for k in range(2, max_m + 1)] + [("identical", names)] + \
           [("removed", names[:k]) for k in range(max_m - 1, 0, -1)]
    n, fails = 0, []
    for gen, (kind, members) in enumerate(plan, start=1):
        prev = {m: tps(v) for m, v in res.items()}
        subs2 = {m: list(topics) for m in members}
        res2 = run(A, parts, subs2, previous=prev, generation=gen)
        n += 1
        errs = check_round(kind, parts, subs, res, subs2, res2)
        if errs:
            fails.append({"kind": kind, "partitions": parts, "round1": subs, "round2": subs2, "generation": gen, "errors": errs[:3]})
            break
        subs, res = subs2, res2
    return n, fails


def scale_chains(max_p, max_m, jobs=16):
    cases = [(nt, p, d, s, max_m) for nt in (1, 2) for p in range(1, max_p + 1) for d in (False, True) for s in (False, True)]
    cases += [(nt, p, d, False, max_m, True) for nt in (2, 3) for p in range(1, max_p + 1) for d in (False, True)]
    n, fails = 0, []
    with mp.Pool(jobs) as pool:
        for a, f in pool.imap_unordered(_scale_chain, cases, chunksize=4):
            n += a
            fails.extend(f)
    return n, fails


def sweep(bm, bp, jobs=16, topics=("ta", "tb", "tc")):
    cases = list(box(bm, list(topics), bp))
    step = max(1, len(cases) // (jobs * 4))
    chunks = [cases[i:i + step] for i in range(0, len(cases), step)]
    n = nontrivial = 0
    fails = []
    with mp.Pool(jobs) as pool:
        for a, b, f in pool.imap_unordered(_chunk, chunks):
            n += a
            nontrivial += b
            fails.extend(f)
    return n, nontrivial, fails[:10]


def main():
    ap = argparse.ArgumentParser()
    ap.add_argument("--tier", default="quick")
    ap.add_argument("--seed", type=int, default=0)
    a = ap.parse_args()
    bm, bp, nch = (3, 3, 150) if a.tier == "quick" else (4, 4, 3000)
    t0 = time.time()
    n, nontrivial, fails = sweep(bm, bp)
    emit({"name": "sticky-two-rounds-box", "exhaustive": True, "cases": n, "distinct_nontrivial": nontrivial,
          "bound": "every first-round group of <= %d members x 3 topics x 0..%d partitions or no metadata x every non-empty "
                   "subscription, followed by (a) the identical round, (b) every non-empty proper subset of members removed, "
                   "(c) 1..2 members added [b, c when all subscriptions are equal]" % (bm, bp),
          "failures": fails, "wall_s": round(time.time() - t0, 1), "replay": {"script": REPLAY}})
    # "every cluster layout": one with an internal topic (flagged so in the metadata, like __consumer_offsets), which the real
    # ClusterMetadata.topics() leaves out unless asked, while a consumer created with exclude_internal_topics=False subscribes to it
    n, nontrivial, fails = sweep(3, 3 if a.tier == "quick" else 4, topics=("ta", "__ti"))
    emit({"name": "sticky-two-rounds-internal-topic-box", "exhaustive": True, "cases": n, "distinct_nontrivial": nontrivial,
          "bound": "as sticky-two-rounds-box over the topics ['ta', '__ti' (internal)], <= 3 members, 0..%d partitions or no metadata"
                   % (3 if a.tier == "quick" else 4),
          "failures": fails, "replay": {"script": REPLAY_INTERNAL}})
    mp_, mm = (24, 6) if a.tier == "quick" else (48, 9)
    n, fails = scale_chains(mp_, mm)
    emit({"name": "sticky-scale-out-in-chains", "exhaustive": True, "cases": n, "distinct_nontrivial": n,
          "bound": "1..2 topics x 1..%d partitions each x member ids ascending/descending x with/without a cluster topic nobody "
                   "subscribes to, and 2..3 topics of uneven size listed by every member in reverse alphabetical order: members join one at a time up to %d, one identical round, then leave one at a time "
                   "(every round checked against a/b/c)" % (mp_, mm),
          "failures": fails[:20], "failures_total": len(fails), "replay": {"script": REPLAY_SCALE}})
    n, fails = mixed_reproduce_chains(a.seed, 3000 if a.tier == "quick" else 60000)
    emit({"name": "sticky-reproduces-after-every-change", "exhaustive": False, "cases": n, "distinct_nontrivial": n,
          "bound": "seeded chains of 4 changes (a member leaves / a member joins with any subscription; 2..5 members with "
                   "different subscriptions over 2..4 topics of 1..5 partitions), each followed by an unchanged rebalance that "
                   "has to reproduce the assignment (clause a), seed %d" % a.seed,
          "failures": fails[:10], "failures_total": len(fails), "replay": {"script": REPLAY_MIXED % a.seed}})
    n, fails = chains(random.Random(a.seed), nch)
    emit({"name": "sticky-chains-random", "exhaustive": False, "cases": n, "distinct_nontrivial": n,
          "bound": "%d seeded chains of up to 5 rounds (members leave / join / stay, equal subscriptions, every other chain with "
                   "member-specific topic order; cluster topics nobody subscribes to occur), seed %d" % (nch, a.seed),
          "failures": fails[:60], "failures_total": len(fails), "replay": {"script": REPLAY_CHAINS % a.seed}})
    mpl = 12 if a.tier == "quick" else 30
    n, fails = lagging_box(mpl)
    emit({"name": "sticky-lagging-member-box", "exhaustive": True, "cases": n, "distinct_nontrivial": n,
          "bound": "1..2 topics x 2..%d partitions each x 2..4 members (two naming schemes) x a joiner sorting first / in the "
                   "middle / last, then every old member that only lost partitions lagging one generation in turn x a third "
                   "round (a member joins sorting first / middle / last; identical; each non-lagging member leaves)" % mpl,
          "failures": fails[:20], "failures_total": len(fails), "replay": {"script": REPLAY_LAGBOX}})
    nl = 1500 if a.tier == "quick" else 30000
    n, fails = lagging_chains(random.Random(a.seed), nl)
    emit({"name": "sticky-chains-with-a-lagging-member", "exhaustive": False, "cases": n, "distinct_nontrivial": n,
          "bound": "%d seeded chains: equal subscriptions, 1..2 members join, then a third round (join / leave / identical) in "
                   "which 1..2 old members that only lost partitions in round 2 report their round-1 assignment with generation 1 "
                   "while the others report round 2 with generation 2 (the claims resolve to the round-2 assignment), seed %d" % (nl, a.seed),
          "failures": fails[:20], "failures_total": len(fails), "replay": {"script": REPLAY_LAG % a.seed}})


REPLAY_INTERNAL = '''
import sys
sys.path.insert(0, "/verif")
from bounded import C15
n, nt, fails = C15.sweep(3, 2, jobs=4, topics=("ta", "__ti"))
VIOLATED = bool(fails); DETAIL = "%d of %d two-round cases with a subscribed internal topic fail; first: %r" % (len(fails), n, fails[:1])
'''


REPLAY_LAGBOX = '''
import sys
sys.path.insert(0, "/verif")
from bounded import C15
n, fails = C15.lagging_box(12)
VIOLATED = bool(fails)
DETAIL = "sticky assignor, a member one generation behind, %d third rounds, %d fail; first: %r" % (n, len(fails), fails[:1])
'''


REPLAY_LAG = '''
import sys, random
sys.path.insert(0, "/verif")
from bounded import C15
n, fails = C15.lagging_chains(random.Random(%d), 1500)
VIOLATED = bool(fails)
DETAIL = "sticky assignor, a member one generation behind, %%d third rounds: %%r" %% (n, fails[:1])
'''


REPLAY_MIXED = '''
import sys
sys.path.insert(0, "/verif")
from bounded import C15
n, fails = C15.mixed_reproduce_chains(%d, 3000, jobs=8)
VIOLATED = bool(fails); DETAIL = "%%d of %%d unchanged rebalances did not reproduce the assignment; first: %%r" %% (len(fails), n, fails[:1])
'''


REPLAY = '''
import sys
sys.path.insert(0, "/verif")
from bounded import C15
n, nontrivial, fails = C15.sweep(3, 2, jobs=8)
VIOLATED = bool(fails)
DETAIL = "sticky assignor, two rounds, %d cases: %r" % (n, fails[:1])
'''

REPLAY_SCALE = '''
import sys
sys.path.insert(0, "/verif")
from bounded import C15
n, fails = C15.scale_chains(24, 6, jobs=8)
VIOLATED = bool(fails)
DETAIL = "sticky assignor, scale-out/in chains, %d rounds: %r" % (n, fails[:1])
'''

REPLAY_CHAINS = '''
import sys, random
sys.path.insert(0, "/verif")
from bounded import C15
n, fails = C15.chains(random.Random(%d), 600)
VIOLATED = bool(fails)
DETAIL = "sticky assignor, random chains, %%d rounds: %%r" %% (n, fails[:1])
'''

if __name__ == "__main__":
    main()
