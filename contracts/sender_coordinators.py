"""C07 — aiokafka/producer/sender.py: the sender's coordinator cache (Sender._find_coordinator, Sender._coordinator_dead).

C07 "When only retriable faults occur (coordinator moves, ...) every transaction still ends the way the application
requested once the faults cease": every handler answers NOT_COORDINATOR / COORDINATOR_NOT_AVAILABLE by
_coordinator_dead(kind) and a retry, and the retry starts with _find_coordinator(kind, key). That recovers from a moved
coordinator only if the two agree on where a coordinator is remembered: what _find_coordinator returns is what is cached
under the kind, _coordinator_dead(kind) forgets exactly that entry, and a forgotten coordinator is asked for again."""
from pyvc.contract import contract, classmodel, specfn, SPEC_TYPES, CLASSES
from pyvc.ty import V, INT, BOOL, REAL, STR, NONE, EXC, BYTES, Opt, Tup, List, Set, Dict, Ref, Opaque
from pyvc.exec_base import Fut
from .common import enum_from_repo, TP
from . import sender as S, sender_txn, sender_txn_offsets      # noqa: F401

MOD = S.MOD
CT = enum_from_repo("aiokafka.client", "CoordinationType")
SPEC_TYPES["CT"] = CT
from pyvc.ty import PYOBJ as PYOBJ_T
from pyvc.exec_base import PyThing
CT_BIND = V(PYOBJ_T, PyThing("enumcls", name="CoordinationType", ty=CT))
CLASSES["Sender"].fields.update({"_coordinators": Dict(CT, INT)})
OTHERS = ("forall(CT, lambda k: implies(k != coordinator_type, (k in self._coordinators) == (k in old(self._coordinators))"
          " and implies(k in self._coordinators, self._coordinators[k] == old(self._coordinators)[k])))")


@contract(MOD + ":Sender._coordinator_dead", ["C07"])
def _(c):
    c.self_("Sender")
    c.param("coordinator_type", CT)
    c.no_class_inv = True
    c.modifies("self._coordinators")
    c.ensures("the-coordinator-of-that-kind-is-forgotten", "coordinator_type not in self._coordinators")
    c.ensures("the-other-kind-is-kept", OTHERS)
    c.replay_fn = lambda model, ob=None: {"script": _COORD_SCRIPT}


@contract(MOD + ":Sender._find_coordinator", ["C07"])
def _(c):
    c.self_("Sender")
    c.param("coordinator_type", CT)
    c.param("coordinator_key", STR)
    c.returns(INT)
    c.no_class_inv = True
    c.none_raises = True
    c.requires("self._txn_manager is not None", "transactional-sender")
    c.bind("CoordinationType", CT_BIND)
    c.owns("self._txn_manager", "self.client", "self._retry_backoff")
    c.ghost("$asked", BOOL, "False")
    c.ghost("$answer", INT, "0")
    c.call("self.client.coordinator_lookup", returns=INT, havoc_all=True, raises=["KafkaError", "CancelledError"],
           ghost={"$asked": "a0 == coordinator_type and a1 == coordinator_key", "$answer": "result"},
           note="AIOKafkaClient.coordinator_lookup: FindCoordinator round trip; the node id the cluster names")
    c.call("self.client.ready", returns=BOOL, havoc_all=True, raises=["CancelledError"], note="suspends; whether a connection could be made")
    c.call("self.client.force_metadata_update", havoc_all=True, raises=["CancelledError"], note="suspends")
    c.call("asyncio.sleep", havoc_all=True, raises=["CancelledError"], note="suspends")
    c.call("repr", returns=STR, note="text of the error")
    c.modifies("self._coordinators")
    c.raises("authorization-or-unexpected-lookup-error-or-cancelled", "BaseException")
    c.loop(0, header="while True", invariants=[])
    c.ensures("what-is-returned-is-what-coordinator-dead-would-forget",
              "coordinator_type in self._coordinators and self._coordinators[coordinator_type] == result")
    c.ensures_internal("a-forgotten-coordinator-is-asked-for-again-under-the-callers-key",
                       "implies(coordinator_type not in old(self._coordinators), $asked and result == $answer)")
    c.replay_fn = lambda model, ob=None: {"script": _COORD_SCRIPT}


# replay: a real Sender with a stub client; the coordinator of a kind is found (node 1), declared dead, the cluster now
# names node 2: the next lookup must ask again and return node 2 - for both kinds, the other kind's entry untouched
_COORD_SCRIPT = '''
import asyncio, logging
logging.disable(logging.CRITICAL)
from unittest import mock
from aiokafka.client import CoordinationType
from aiokafka.producer.sender import Sender
from aiokafka.producer.transaction_manager import TransactionManager

async def main():
    bad = []
    for kind, other in ((CoordinationType.GROUP, CoordinationType.TRANSACTION), (CoordinationType.TRANSACTION, CoordinationType.GROUP)):
        client = mock.MagicMock()
        now = {"node": 1}
        asked = []
        async def lookup(t, k):
            asked.append((t, k)); return now["node"] + (10 if t != kind else 0)
        async def ready(node, group=None):
            return True
        client.coordinator_lookup = lookup
        client.ready = ready
        tm = TransactionManager("tid", 1000)
        sender = Sender(client, acks=-1, txn_manager=tm, message_accumulator=mock.MagicMock(), retry_backoff_ms=1,
                        request_timeout_ms=1000)
        first = await sender._find_coordinator(kind, "key")
        o1 = await sender._find_coordinator(other, "okey")
        again = await sender._find_coordinator(kind, "key")
        n_asked = len(asked)
        sender._coordinator_dead(kind)
        now["node"] = 2
        moved = await sender._find_coordinator(kind, "key")
        o2 = await sender._find_coordinator(other, "okey")
        if first != 1 or again != 1 or n_asked != 2:
            bad.append("%s: cached coordinator not reused (first %r, again %r, lookups %r)" % (kind.name, first, again, asked))
        if moved != 2:
            bad.append("%s: after _coordinator_dead the moved coordinator is still answered from the cache: got node %r, the cluster names 2" % (kind.name, moved))
        if o1 != 11 or o2 != 11:
            bad.append("%s: the %s coordinator was disturbed (%r, %r)" % (kind.name, other.name, o1, o2))
    return bad
bad = asyncio.run(main())
VIOLATED = bool(bad); DETAIL = "; ".join(bad)
'''


# ---- each handler declares dead the coordinator that answered it -------------------------------------------------------------
# AddPartitionsToTxn, AddOffsetsToTxn and EndTxn are answered by the TRANSACTION coordinator, TxnOffsetCommit by the consumer
# group's coordinator: on "not coordinator / coordinator not available / request timed out" the handler has to forget *that*
# cache entry, otherwise the retry goes to the same stale node for ever (C07 "every transaction still ends ... once the faults
# cease", C16 "retriable error at any transactional request")
from pyvc.contract import REGISTRY as _R
for _h, _kind in (("EndTxnHandler", "TRANSACTION"), ("AddPartitionsToTxnHandler", "TRANSACTION"),
                  ("AddOffsetsToTxnHandler", "TRANSACTION"), ("TxnOffsetCommitHandler", "GROUP")):
    _c = _R[MOD + ":%s.handle_response" % _h]
    _c.bind("CoordinationType", CT_BIND)
    _c.hook("before", "self._sender._coordinator_dead", [
        ("assert", "the-coordinator-declared-dead-is-the-kind-that-answered-this-request", "a0 == CoordinationType.%s" % _kind)])
    if "C16" not in _c.props:
        _c.props.append("C16")


# ---- the task bodies that send the transactional requests: each goes to the coordinator that owns the request -------------
classmodel("TxnHandlerObj", {})
_TXN_BODY = dict(havoc_all=True, raises=["KafkaError", "CancelledError"])


def _task_body(c, handler_cls, kind, key_expr, handler_args):
    c.self_("Sender")
    c.no_class_inv = True
    c.none_raises = True
    c.requires("self._txn_manager is not None", "transactional-sender")
    c.owns("self._txn_manager", "self.client")
    c.bind("CoordinationType", CT_BIND)
    c.ghost("$node", INT, "-1")
    c.call("self._find_coordinator", returns=INT, ghost={"$node": "result"}, **_TXN_BODY,
           note="Sender._find_coordinator (under contract above): suspends; the coordinator's node id")
    c.call(handler_cls, returns=Ref("TxnHandlerObj"), post=["fresh(result)"], note=handler_cls + ".__init__: stores its arguments")
    c.call("handler.do", returns=BOOL, **_TXN_BODY, note="BaseHandler.do: one request/response round with retries' back-off")
    c.raises("lookup-failed-fatal-or-cancelled", "BaseException")
    c.hook("before", "self._find_coordinator", [
        ("assert", "asks-for-the-coordinator-that-owns-this-request", "a0 == CoordinationType.%s and a1 == %s" % (kind, key_expr))])
    c.hook("before", handler_cls, [("assert", "the-handler-gets-what-the-task-was-started-with", handler_args)])
    c.hook("before", "handler.do", [("assert", "the-request-goes-to-the-coordinator-just-looked-up", "a0 == $node")])


@contract(MOD + ":Sender._do_add_partitions_to_txn", ["C07"])
def _(c):
    c.param("tps", Set(TP))
    _task_body(c, "AddPartitionsToTxnHandler", "TRANSACTION", "self._txn_manager.transactional_id", "a0 == self and a1 == tps")


@contract(MOD + ":Sender._do_add_offsets_to_txn", ["C07"])
def _(c):
    c.param("group_id", STR)
    _task_body(c, "AddOffsetsToTxnHandler", "TRANSACTION", "self._txn_manager.transactional_id", "a0 == self and a1 == group_id")


@contract(MOD + ":Sender._do_txn_offset_commit", ["C07", "C16"])
def _(c):
    """TxnOffsetCommit belongs to the consumer group's coordinator (every other transactional request to the transaction
    coordinator); a group the producer may not commit to is an abortable error of the transaction"""
    from .sender_txn_offsets import TM_MODS
    from .sender_txn import OFFS
    c.self_("Sender")
    c.param("offsets", OFFS)
    c.param("group_id", STR)
    c.no_class_inv = True
    c.none_raises = True
    c.requires("self._txn_manager is not None", "transactional-sender")
    c.owns("self._txn_manager", "self.client")
    c.bind("CoordinationType", CT_BIND)
    c.ghost("$node", INT, "-1")
    c.call("self._find_coordinator", returns=INT, ghost={"$node": "result"}, havoc_all=True,
           raises=["GroupAuthorizationFailedError", "KafkaError", "CancelledError"],
           note="Sender._find_coordinator (under contract above): suspends; the coordinator's node id")
    c.call("self._txn_manager.error_transaction", modifies=TM_MODS, raises=["AssertionError"],
           note="TransactionManager.error_transaction (under contract, C16)")
    c.call("TxnOffsetCommitHandler", returns=Ref("TxnHandlerObj"), post=["fresh(result)"], note="TxnOffsetCommitHandler.__init__: stores its arguments")
    c.call("handler.do", returns=BOOL, havoc_all=True, raises=["KafkaError", "CancelledError"], note="BaseHandler.do")
    c.modifies(*TM_MODS)
    c.raises("lookup-failed-fatal-or-cancelled", "BaseException")
    c.hook("before", "self._find_coordinator", [
        ("assert", "asks-for-the-groups-coordinator", "a0 == CoordinationType.GROUP and a1 == group_id")])
    c.hook("before", "TxnOffsetCommitHandler", [
        ("assert", "the-handler-gets-what-the-task-was-started-with", "a0 == self and a1 == offsets and a2 == group_id")])
    c.hook("before", "handler.do", [("assert", "the-request-goes-to-the-coordinator-just-looked-up", "a0 == $node")])
