"""C10 / C09 — the compiled v2 decoder (default_records.pyx), the batch splitter (memory_records.pyx) and the varint
reader (cutil.pyx), translated mechanically by pyvc/pyx.py on every run; memory-safety obligations as in
contracts/crecords_legacy.py."""
import z3
from pyvc import ty as T
from pyvc.contract import contract, classmodel, specfn, SPEC_TYPES, CLASSES
from pyvc.ty import V, INT, BOOL, REAL, STR, NONE, EXC, BYTES, Opt, Tup, List, Set, Dict, Ref, Opaque
from pyvc.exec_base import Fut, PyThing
from .crecords_legacy import c_intrinsics, ADDR, PYBYTES

CMOD = "aiokafka.record._crecords.cutil"
DMOD = "aiokafka.record._crecords.default_records"
MMOD = "aiokafka.record._crecords.memory_records"

_DEFAULT_REPLAY = '''
import sys
sys.path.insert(0, "/verif")
from specs import crecords_replay
bad = crecords_replay.sweep("default") + crecords_replay.sweep("memory")
VIOLATED = bool(bad); DETAIL = "%d crafted v2 / mixed buffers misbehave on the decoder built from this tree; first: %r" % (len(bad), bad[:3])
'''


from .crecords_legacy import HOLDS, HOLDS_AT_EXIT      # noqa: E402


# ------------------------------------------------------------------ cutil.decode_varint64
@contract(CMOD + ":decode_varint64", ["C10"])
def _(c):
    """reads bytes until one has its top bit clear, at most 10"""
    c_intrinsics(c, _DEFAULT_REPLAY)
    c.param("buf", BYTES)
    c.param("buf_len", INT)
    c.param("read_pos__null", BOOL)
    c.param("read_pos__in", INT)
    c.param("out_value__null", BOOL)
    c.param("out_value__in", INT)
    c.returns(Tup(INT, INT, INT))
    # the decoded *value* is proved on the pure-Python twin (record/util.py, C10 contract there); here only where it reads
    c.abstract_local("value", INT)
    c.abstract_local("out_value__v", INT)
    # callers pass the length of the buffer `buf` points into and any position they have computed
    c.requires("not read_pos__null and not out_value__null and buf_len == len(buf) and len(buf) <= 2**40"
               " and -2**41 <= read_pos__in and read_pos__in <= 2**41", "length-is-the-buffers-length")
    c.raises("more-than-ten-bytes-or-past-the-end", "CorruptRecordException")
    c.loop(0, header="while True", invariants=[
        ("reads-stay-inside-the-buffer", "read_pos__in <= pos and pos <= read_pos__in + 10 and 0 <= shift and shift <= 63"
         " and shift == 7 * (pos - read_pos__in)"),
    ], decreases="read_pos__in + 11 - pos")
    c.ensures("advanced-at-most-ten-bytes-inside-the-buffer", "read_pos__in < result[1] and result[1] <= read_pos__in + 10 and result[1] <= len(buf)")


# ------------------------------------------------------------------ DefaultRecordBatch
classmodel("DefaultRecordObj", {})
classmodel("DefaultBatchC", {
    "_buffer": BYTES, "_pos": INT, "_decompressed": INT, "_next_record_index": INT,
    "base_offset": INT, "length": INT, "magic": INT, "crc": INT, "attributes": INT, "last_offset_delta": INT,
    "first_timestamp": INT, "max_timestamp": INT, "num_records": INT, "producer_id": INT, "producer_epoch": INT,
    "base_sequence": INT, "timestamp_type": INT,
}, real=DMOD + ":DefaultRecordBatch")
HEADER_FIELDS = ["base_offset", "length", "magic", "crc", "attributes", "last_offset_delta", "first_timestamp", "max_timestamp",
                 "num_records", "producer_id", "producer_epoch", "base_sequence", "timestamp_type"]


@contract(DMOD + ":DefaultRecordBatch._read_header", ["C10"])
def _(c):
    c_intrinsics(c, _DEFAULT_REPLAY)
    c.self_("DefaultBatchC")
    # callers: __init__ (any bytes) and new() (a slice MemoryRecords cut: at least 26 bytes, not necessarily a v2 header)
    c.requires("len(self._buffer) <= 2**40", "buffer-size-plausible")
    c.modifies(*["self." + f for f in HEADER_FIELDS])
    c.raises("shorter-than-a-v2-header", "CorruptRecordException")
    c.ensures("whole-header-inside-the-buffer", "len(self._buffer) >= FIRST_RECORD_OFFSET")


@contract(DMOD + ":DefaultRecordBatch._check_bounds", ["C10"])
def _(c):
    c_intrinsics(c, _DEFAULT_REPLAY)
    c.self_("DefaultBatchC")
    c.param("pos", INT)
    c.param("size", INT)
    # sizes come from 64-bit varints: any int64 value must be handled without overflow
    c.requires("0 <= pos and pos <= 2**41 and len(self._buffer) <= 2**40", "plausible-position")
    c.raises("slice-outside-the-buffer-or-negative-size", "CorruptRecordException",
             when="size < 0 or pos > len(self._buffer) or size > len(self._buffer) - pos", exact=True)
    c.ensures("slice-inside-the-buffer", "0 <= size and pos <= len(self._buffer) and size <= len(self._buffer) - pos")


@contract(DMOD + ":DefaultRecordBatch._read_msg", ["C10"])
def _(c):
    c_intrinsics(c, _DEFAULT_REPLAY)
    c.self_("DefaultBatchC")
    c.returns(Ref("DefaultRecordObj"))
    c.local("headers", List(Tup(STR, Opt(PYBYTES))))
    c.local("h_value", Opt(PYBYTES))
    c.local("key", Opt(PYBYTES))
    c.local("value", Opt(PYBYTES))
    c.requires("0 <= self._pos and self._pos <= len(self._buffer) and len(self._buffer) <= 2**40", "cursor-inside-the-buffer")
    c.wrapping("timestamp", "offset")                         # record data, never a position
    c.call("DefaultRecord.new", returns=Ref("DefaultRecordObj"), post=["fresh(result)"], note="allocates the record object")
    c.call("h_key.decode", returns=STR, raises=["UnicodeDecodeError"], note="bytes.decode('utf-8')")
    c.modifies("self._pos")
    c.raises("truncated-or-corrupt", "Exception")
    c.loop(0, header="while header_count > 0", invariants=[
        ("cursor-inside-the-buffer", "0 <= pos and pos <= len(self._buffer) and len(self._buffer) <= 2**40 and 0 <= start_pos"
         " and start_pos <= pos and old(self._pos) < pos"),
    ], decreases="header_count")
    c.ensures("cursor-advanced-inside-the-buffer", "old(self._pos) < self._pos and self._pos <= len(self._buffer)")


CURSOR_OK = "0 <= self._pos and self._pos <= len(self._buffer) and len(self._buffer) <= 2**40"


@contract(DMOD + ":DefaultRecordBatch.__init__", ["C10"])
def _(c):
    """the public constructor: any bytes-like object"""
    c_intrinsics(c, _DEFAULT_REPLAY)
    c.self_("DefaultBatchC")
    c.param("buffer", BYTES)
    c.requires("len(buffer) <= 2**40", "buffer-size-plausible")
    c.modifies("self._buffer", "self._pos", "self._decompressed", "self._next_record_index", *["self." + f for f in HEADER_FIELDS])
    c.raises("shorter-than-a-v2-header", "CorruptRecordException")
    c.ensures("cursor-at-the-first-record-inside-the-buffer", CURSOR_OK + " and self._pos == FIRST_RECORD_OFFSET")


@contract(DMOD + ":DefaultRecordBatch._maybe_uncompress", ["C10"])
def _(c):
    c_intrinsics(c, _DEFAULT_REPLAY)
    c.self_("DefaultBatchC")
    c.requires(CURSOR_OK, "cursor-inside-the-buffer")
    c.bind("PyBUF_READ", 0x100)
    from pyvc.ty import PYOBJ
    for f in ("gzip_decode", "snappy_decode", "lz4_decode", "zstd_decode", "_assert_has_codec"):
        c.bind(f, V(PYOBJ, PyThing("func", name=f, module="aiokafka.codec")))
    c.call("PyMemoryView_FromMemory", returns=Opaque("MemoryViewObj"),
           pre=[("view-inside-the-buffer", "0 <= a0.pos and 0 <= a1 and a0.pos + a1 <= len(a0.buf)")],
           note="PyMemoryView_FromMemory(&buf[pos], n, flags): a view of n bytes")
    c.call("_assert_has_codec", raises=["UnsupportedCodecError"], note="codec availability check")
    for f in ("gzip_decode", "snappy_decode", "lz4_decode", "zstd_decode"):
        c.call(f, returns=BYTES, raises=["Exception"], post=["0 <= len(result) and len(result) <= 2**40"],
               note="codec library: the decompressed payload (any content, any length)")
    c.call("data.tobytes", returns=BYTES, note="copy of the view")
    c.modifies("self._buffer", "self._pos", "self._decompressed")
    HOLDS(c)
    c.raises("codec-missing-or-corrupt-payload", "Exception", ensures=[HOLDS_AT_EXIT])
    c.ensures("cursor-inside-the-buffer", CURSOR_OK)
    c.ensures(*HOLDS_AT_EXIT)


@contract(DMOD + ":DefaultRecordBatch.__next__", ["C10"])
def _(c):
    c_intrinsics(c, _DEFAULT_REPLAY)
    c.self_("DefaultBatchC")
    c.returns(Ref("DefaultRecordObj"))
    c.requires(CURSOR_OK + " and 0 <= self._next_record_index and self._next_record_index <= 2**31", "cursor-inside-the-buffer")
    c.modifies("self._pos", "self._next_record_index")
    c.raises("exhausted-or-corrupt", "Exception")
    c.ensures("cursor-inside-the-buffer", CURSOR_OK)
    # iteration terminates: every record consumed moves the cursor forward inside a finite buffer, and at most
    # num_records (a 32-bit field) records are attempted
    c.ensures("progress", "self._pos > old(self._pos) and self._next_record_index == old(self._next_record_index) + 1")


@contract(DMOD + ":DefaultRecordBatch.new", ["C10"])
def _(c):
    c_intrinsics(c, _DEFAULT_REPLAY)
    c.param("buffer", BYTES)
    c.param("pos", INT)
    c.param("slice_end", INT)
    c.param("magic", INT)
    c.returns(Ref("DefaultBatchC"))
    # what MemoryRecords._get_next guarantees (its contract below)
    c.requires("0 <= pos and pos <= slice_end and slice_end - pos >= 26 and slice_end <= len(buffer) and len(buffer) <= 2**40",
               "slice-is-a-whole-entry-inside-the-bytes")
    c.call("DefaultRecordBatch.__new__", returns=Ref("DefaultBatchC"), post=["fresh(result)"], note="allocation")
    c.raises("shorter-than-a-v2-header", "CorruptRecordException")
    c.ensures("batch-sees-exactly-the-slice", "len(result._buffer) == slice_end - pos and result._pos == FIRST_RECORD_OFFSET"
              " and result._pos <= len(result._buffer)")


@contract(DMOD + ":DefaultRecordBatch.validate_crc", ["C10"])
def _(c):
    c_intrinsics(c, _DEFAULT_REPLAY)
    c.self_("DefaultBatchC")
    c.returns(BOOL)
    c.requires("len(self._buffer) >= FIRST_RECORD_OFFSET and len(self._buffer) <= 2**40", "constructed-batch")
    c.call("cutil.calc_crc32c", returns=Tup(INT, INT),
           pre=[("checksummed-range-inside-the-buffer", "0 <= a1.pos and 0 <= a2 and a1.pos + a2 <= len(a1.buf)")],
           note="cutil.calc_crc32c(crc, buf, len, &out): reads len bytes from buf")
    c.raises("already-iterated", "AssertionError")


# ------------------------------------------------------------------ MemoryRecords._get_next
classmodel("MemoryRecordsC", {"_buffer": BYTES, "_pos": INT}, real=MMOD + ":MemoryRecords")
classmodel("AnyBatchC", {})


# the 4-byte length field of the entry at the cursor is one value, however often it is read: hton.unpack_int32 as a function
# of (bytes, position), so that has_next() and next_batch() can be compared
INT32_AT = dict(returns="int32_at(a0.buf, a0.pos)", pre=[("read-inside-the-buffer", "0 <= a0.pos and a0.pos + 4 <= len(a0.buf)")],
                post=["-2**31 <= result and result < 2**31"],
                note="hton.unpack_int32: 4 bytes big-endian at the address, sign-extended (a function of bytes and position)")
# "a whole entry is at the cursor": the 12-byte log overhead and the Length bytes it announces are all inside the buffer
WHOLE = ("len(self._buffer) - self._pos >= LOG_OVERHEAD"
         " and len(self._buffer) - self._pos >= LOG_OVERHEAD + int32_at(self._buffer, self._pos + LENGTH_OFFSET)")


@specfn("int32_at")
def int32_at(ex, st, b, i):
    arr = T.list_arr(b)
    f = z3.Function("int32_at", arr.sort(), i.t.sort(), i.t.sort())
    return V(INT, f(arr, i.t))


@contract(MMOD + ":MemoryRecords.has_next", ["C09"])
def _(c):
    """C09 'the two implementations ... decode the same': a trailing partial entry (a fetch response is cut at max_bytes) is
    reported by has_next() exactly when next_batch() would not return it - the rule of the pure-Python MemoryRecords"""
    c.call("hton.unpack_int32", **INT32_AT)
    c_intrinsics(c, _DEFAULT_REPLAY)
    c.self_("MemoryRecordsC")
    c.returns(BOOL)
    c.requires("0 <= self._pos and self._pos <= len(self._buffer) and len(self._buffer) <= 2**40", "cursor-inside-the-buffer")
    c.call("PyBytes_GET_SIZE", returns="len(a0)", note="length of the bytes object")
    c.call("PyBytes_AS_STRING", returns="a0", note="the bytes object's buffer")
    c.ensures("true-exactly-when-a-whole-entry-is-at-the-cursor", "result == (" + WHOLE + ")")
    c.ensures("reads-only", "self._pos == old(self._pos)")


@contract(MMOD + ":MemoryRecords._get_next", ["C10", "C09"])
def _(c):
    c.call("hton.unpack_int32", **INT32_AT)
    c_intrinsics(c, _DEFAULT_REPLAY)
    c.self_("MemoryRecordsC")
    c.returns(Opt(Ref("AnyBatchC")))
    from pyvc.ty import PYOBJ
    for cls in ("LegacyRecordBatch", "DefaultRecordBatch"):          # cimported classes
        c.bind(cls, V(PYOBJ, PyThing("class", name=cls, module="aiokafka.record._crecords")))
    c.requires("0 <= self._pos and self._pos <= len(self._buffer) and len(self._buffer) <= 2**40", "cursor-inside-the-buffer")
    c.call("PyBytes_GET_SIZE", returns="len(a0)", note="length of the bytes object")
    c.call("PyBytes_AS_STRING", returns="a0", note="the bytes object's buffer")
    SLICE_OK = [("slice-is-a-whole-entry-inside-the-bytes", "a0 == self._buffer and 0 <= a1 and a1 <= a2 and a2 - a1 >= 26 and a2 <= len(a0)"),
                ("batch-class-chosen-by-this-entrys-own-magic-byte", "a3 == byte_at(self._buffer, a1 + MAGIC_OFFSET)")]
    c.call("LegacyRecordBatch.new", returns=Ref("AnyBatchC"), pre=SLICE_OK, raises=["CorruptRecordException"], post=["fresh(result)"],
           note="LegacyRecordBatch.new (under contract): its precondition is the first clause")
    c.call("DefaultRecordBatch.new", returns=Ref("AnyBatchC"), pre=SLICE_OK, raises=["CorruptRecordException"], post=["fresh(result)"],
           note="DefaultRecordBatch.new (under contract): its precondition is the first clause")
    c.modifies("self._pos")
    # the cursor condition is the precondition of the next has_next()/next_batch(): a caller may go on after the error
    # (the fetcher drops the partition's buffer, other callers skip) - an exceptional exit has to leave it intact as well
    c.raises("entry-smaller-than-any-record", "CorruptRecordException",
             ensures=[("the-cursor-is-still-inside-the-buffer-and-never-moved-back",
                       "old(self._pos) <= self._pos and self._pos <= len(self._buffer)")])
    c.ensures("cursor-stays-inside-and-moves-past-a-whole-entry",
              "old(self._pos) <= self._pos and self._pos <= len(self._buffer) and implies(result is not None, self._pos - old(self._pos) >= 26)")
    c.ensures("a-trailing-partial-entry-is-left-alone", "implies(result is None, self._pos == old(self._pos))")
    c.ensures("none-exactly-when-has-next-is-false", "(result is None) == (not old(" + WHOLE + "))")


@specfn("byte_at")
def byte_at(ex, st, b, i):
    return V(INT, ex.byte_to_int(z3.Select(T.list_arr(b), i.t)))
