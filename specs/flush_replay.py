"""Replay scenarios for MessageAccumulator.flush / flush_for_commit on the real class (C02 / C07): batches queued on
two partitions and batches drained (in flight) for two others; the call may return only after every one of them has
been resolved, in whatever order they are resolved. Runs under /venv/bin/python.

sweep() -> list of problem strings."""
import asyncio
import itertools
import logging

logging.disable(logging.CRITICAL)


class _Cluster:
    def __init__(self, leaders):
        self.leaders = leaders

    def leader_for_partition(self, tp):
        return self.leaders.get(tp)


async def scenario(api, order, n_queued, n_flight):
    from aiokafka.producer.message_accumulator import MessageAccumulator
    from aiokafka.structs import TopicPartition
    queued = [TopicPartition("q", i) for i in range(n_queued)]
    flight = [TopicPartition("f", i) for i in range(n_flight)]
    cluster = _Cluster({tp: 1 for tp in flight})           # the queued partitions have no known leader: they stay queued
    acc = MessageAccumulator(cluster, 1 << 16, 0, 1000)
    for tp in flight + queued:
        await acc.add_message(tp, b"k", b"v", 1)
    nodes, _ = acc.drain_by_nodes(ignore_nodes=[])
    drained = [b for bs in nodes.values() for b in bs.values()]
    if len(drained) != n_flight or sum(len(q) for q in acc._batches.values()) != n_queued:
        return "scenario set-up failed: drained %d, queued %d" % (len(drained), sum(len(q) for q in acc._batches.values()))
    batches = drained + [q[0] for q in acc._batches.values() if q]
    task = asyncio.ensure_future(getattr(acc, api)())
    await asyncio.sleep(0)
    await asyncio.sleep(0)
    problem = None
    pending = list(batches)
    for i in order:
        if task.done():
            problem = ("%s() returned while %d of the %d batches queued or in flight at the call were unresolved "
                       "(%d queued, %d in flight, resolution order %r)" % (api, len(pending), len(batches), n_queued, n_flight, order))
            break
        b = batches[i]
        b.done_noack() if i % 2 else b.failure(RuntimeError("boom"))
        pending.remove(b)
        for _ in range(3):
            await asyncio.sleep(0)
    if problem is None and not task.done():
        await asyncio.sleep(0.01)
        if not task.done():
            problem = "%s() still pending after every batch was resolved (order %r)" % (api, order)
    if not task.done():
        task.cancel()
    try:
        await task
    except BaseException:
        pass
    for b in batches:                      # consume the stored exceptions
        if b.future.done() and not b.future.cancelled():
            b.future.exception()
    return problem


async def fail_all_scenario(n_queued, n_flight):
    from aiokafka.producer.message_accumulator import MessageAccumulator
    from aiokafka.structs import TopicPartition
    queued = [TopicPartition("q", i) for i in range(n_queued)]
    flight = [TopicPartition("f", i) for i in range(n_flight)]
    acc = MessageAccumulator(_Cluster({tp: 1 for tp in flight}), 1 << 16, 0, 1000)
    record_futs = []
    for tp in flight + queued:
        record_futs.append(await acc.add_message(tp, b"k", b"v", 1))
    nodes, _ = acc.drain_by_nodes(ignore_nodes=[])
    batches = [b for bs in nodes.values() for b in bs.values()] + [q[0] for q in acc._batches.values() if q]
    exc = RuntimeError("sender died")
    acc.fail_all(exc)
    await asyncio.sleep(0)
    problems = []
    left = [b.tp for b in batches if not b.future.done()]
    if left:
        problems.append("fail_all() left the batches of %r unresolved (%d queued, %d in flight)" % (left, n_queued, n_flight))
    unresolved = sum(1 for f in record_futs if not f.done())
    if unresolved:
        problems.append("fail_all() left %d of %d accepted records unresolved (%d queued, %d in flight)"
                        % (unresolved, len(record_futs), n_queued, n_flight))
    if acc._exception is not exc:
        problems.append("fail_all() did not record the error for later sends")
    for f in record_futs + [b.future for b in batches]:
        if f.done() and not f.cancelled():
            f.exception()
    return problems


async def close_scenario():
    """stop(): a send() racing with the final flush must be refused, not accepted into a batch no flush covers"""
    from aiokafka.producer.message_accumulator import MessageAccumulator
    from aiokafka.errors import ProducerClosed
    from aiokafka.structs import TopicPartition
    tp, late = TopicPartition("f", 0), TopicPartition("f", 1)
    acc = MessageAccumulator(_Cluster({tp: 1, late: 1}), 1 << 16, 0, 1000, linger_ms=1000)
    await acc.add_message(tp, b"k", b"v", 1)
    acc._batches[tp][0]._linger_time = 0
    nodes, _ = acc.drain_by_nodes(ignore_nodes=[])
    batch = nodes[1][tp]
    task = asyncio.ensure_future(acc.close())
    await asyncio.sleep(0)
    await asyncio.sleep(0)
    problem = None
    try:
        fut = await acc.add_message(late, b"k2", b"v2", 1)
    except ProducerClosed:
        fut = None
    batch.done_noack()
    await asyncio.sleep(0.01)
    if fut is not None and task.done() and not fut.done():
        problem = ("close() (producer.stop()) returned while a record accepted after it had started its final flush is "
                   "still unresolved: the record was accepted into a batch the flush does not cover")
    if not task.done():
        task.cancel()
    try:
        await task
    except BaseException:
        pass
    return problem


def close_sweep():
    async def main():
        r = await close_scenario()
        return [r] if r else []
    return asyncio.run(main())


def fail_all_sweep():
    async def main():
        out = []
        for n_queued, n_flight in ((1, 1), (2, 1), (1, 2), (2, 0), (0, 2), (3, 3)):
            out.extend(await fail_all_scenario(n_queued, n_flight))
        return out
    return asyncio.run(main())


async def stalled_scenario(api):
    """an in-flight batch that stays unacknowledged for several batch TTLs (an idempotent/transactional producer never
    expires a batch): the call must still be waiting"""
    from aiokafka.producer.message_accumulator import MessageAccumulator
    from aiokafka.structs import TopicPartition
    tp = TopicPartition("f", 0)
    acc = MessageAccumulator(_Cluster({tp: 1}), 1 << 16, 0, 0.05)
    await acc.add_message(tp, b"k", b"v", 1)
    nodes, _ = acc.drain_by_nodes(ignore_nodes=[])
    batch = nodes[1][tp]
    task = asyncio.ensure_future(getattr(acc, api)())
    await asyncio.sleep(0.3)
    problem = None
    if task.done():
        problem = "%s() returned after 0.3 s although the in-flight batch is still unacknowledged (batch ttl 0.05 s)" % api
    batch.done_noack()
    await asyncio.sleep(0.01)
    if not task.done():
        task.cancel()
    try:
        await task
    except BaseException:
        pass
    return problem


def sweep():
    async def main():
        out = []
        for api in ("flush", "flush_for_commit"):
            r = await stalled_scenario(api)
            if r:
                out.append(r)
            for n_queued, n_flight in ((1, 1), (2, 1), (1, 2), (2, 0), (0, 2)):
                n = n_queued + n_flight
                for order in itertools.permutations(range(n)):
                    r = await scenario(api, order, n_queued, n_flight)
                    if r:
                        out.append(r)
                        break
        return out
    return asyncio.run(main())


if __name__ == "__main__":
    for b in sweep():
        print(b)
