"""C19 — ownership of background tasks on the stop()/close() paths. What contracts can say about the statement:
after close() every task the component owns is finished and its reference dropped, under the stated rely clauses about
who may (re)create such a task; a reachable coordinator is told the member leaves. The time bound of stop() is not
decided (timing / liveness)."""
import z3
from pyvc import ty as T
from pyvc.contract import contract, classmodel, specfn, SPEC_TYPES, CLASSES
from pyvc.ty import V, INT, BOOL, REAL, STR, NONE, EXC, BYTES, Opt, Tup, List, Set, Dict, Ref, Opaque
from pyvc.exec_base import Fut, PyThing
from .common import TP
from . import coordinator_commits, coordinator_commit_path, coordinator_rebalance, fetcher_proc, sender     # noqa: F401

MOD = "aiokafka.consumer.group_coordinator"
TASK = Fut(NONE)                     # an asyncio.Task is a future; awaiting it returns when it is done

G = CLASSES["GroupCoordinator"].fields
G.update({"_closing": Fut(NONE), "_coordination_task": TASK, "_heartbeat_task": Opt(TASK), "_commit_refresh_task": Opt(TASK)})

# Only the coordination task (re)starts the heartbeat and commit-refresh tasks (_start_heartbeat_task is called from
# ensure_active_group / _on_join_complete, start_commit_offsets_refresh_task from _on_join_complete; both run inside
# _coordination_routine). Once that task is finished nobody re-arms them: across an await their references are stable.
HELPERS_STABLE = ("implies(old(self._coordination_task.done()), self._heartbeat_task == old(self._heartbeat_task)"
                  " and self._commit_refresh_task == old(self._commit_refresh_task))")


def _coord(c):
    c.self_("GroupCoordinator")
    c.owns("self._client", "self._closing", "self._coordination_task", "self.group_id", "self._group_instance_id")
    c.rely(HELPERS_STABLE, "helper-tasks-are-restarted-only-by-the-coordination-task")


@contract(MOD + ":GroupCoordinator._stop_heartbeat_task", ["C19", "C06"])
def _(c):
    _coord(c)
    # called from close() after the coordination task has finished (the other call site, ensure_active_group, runs
    # inside that task and is not under this contract)
    c.requires("self._coordination_task.done()", "nobody-can-restart-the-heartbeat-concurrently")
    c.modifies("self._heartbeat_task", "Future.state", "Future.nres", "Future.exc")
    c.raises("cancelled-while-waiting", "BaseException")
    c.ensures("the-heartbeat-task-is-finished-and-dropped",
              "self._heartbeat_task is None and implies(old(self._heartbeat_task) is not None, old(self._heartbeat_task).done())")
    c.ensures("other-helper-untouched", "self._commit_refresh_task == old(self._commit_refresh_task)")


@contract(MOD + ":GroupCoordinator._stop_commit_offsets_refresh_task", ["C19"])
def _(c):
    _coord(c)
    c.requires("self._coordination_task.done()", "nobody-can-restart-the-refresh-task-concurrently")
    c.modifies("self._commit_refresh_task", "Future.state", "Future.nres", "Future.exc")
    c.raises("cancelled-while-waiting", "BaseException")
    c.ensures("the-commit-refresh-task-is-finished-and-dropped",
              "self._commit_refresh_task is None and implies(old(self._commit_refresh_task) is not None, old(self._commit_refresh_task).done())")
    c.ensures("other-helper-untouched", "self._heartbeat_task == old(self._heartbeat_task)")


# ---- C19: "stop() always terminates": close() resolves self._closing and then awaits the coordination task. Termination
# is a liveness fact no function contract decides, but its mechanism is a safety discipline that one does: every wait of
# the coordination task that has no time bound of its own also waits for self._closing (FIRST_COMPLETED).
G.update({"_error_consumed_fut": Opt(Fut(NONE)), "_pending_exception": Opt(EXC)})
classmodel("WaitCoroutine", {})


@contract(MOD + ":GroupCoordinator._push_error_to_user", ["C19"])
def _(c):
    """the coordination task parks here after a fatal coordination error until the application has seen it"""
    c.self_("GroupCoordinator")
    c.param("exc", EXC)
    c.returns(Ref("WaitCoroutine"))
    c.call("copy.copy", returns="a0", note="copy.copy(exc) is an exception of the same class")
    c.call("self._subscription.abort_waiters", note="fails the futures of tasks waiting for an assignment; nothing modelled here")
    c.call("create_future", returns=Fut(NONE), post=["fresh(result)", "not result.done()"], note="a new pending future")
    c.call("asyncio.wait", returns=Ref("WaitCoroutine"), post=["fresh(result)"], kwargs=["return_when"], nargs=1,
           note="creates the coroutine of asyncio.wait(futures, return_when=...); the coordination routine awaits it")
    c.modifies("self._pending_exception", "self._error_consumed_fut")
    c.hook("before", "asyncio.wait", [
        ("assert", "the-park-is-left-as-soon-as-close-resolves-closing",
         "exists(lambda k: 0 <= k < len(a0) and a0[k] == self._closing) and kw_return_when == asyncio.FIRST_COMPLETED"),
    ])
    c.ensures("error-kept-for-the-application", "self._pending_exception is not None")
    c.replay_fn = lambda model, ob=None: {"script": _PARK_SCRIPT}


# replay: the real _push_error_to_user; what it returns is awaited by the coordination task. Once close() has resolved
# self._closing that await must end, whether or not the application ever looks at the error.
_PARK_SCRIPT = '''
import asyncio, logging
logging.disable(logging.CRITICAL)
from aiokafka.consumer.group_coordinator import GroupCoordinator
from aiokafka.consumer.subscription_state import SubscriptionState
from aiokafka import errors as Errors

async def main():
    bad = []
    for consumed_first in (False, True):
        class C: pass
        coord = C()
        coord._subscription = SubscriptionState()
        coord._subscription.register_fetch_waiters(set())          # what Fetcher.__init__ does
        coord._closing = asyncio.get_running_loop().create_future()
        coord._pending_exception = None
        coord._error_consumed_fut = None
        park = GroupCoordinator._push_error_to_user(coord, Errors.GroupAuthorizationFailedError("g"))
        task = asyncio.ensure_future(park)
        await asyncio.sleep(0.01)
        if task.done():
            bad.append("the coordination task does not pause for an unread fatal error")
        if consumed_first:
            coord._error_consumed_fut.set_result(None)
        else:
            coord._closing.set_result(None)           # what close() does first
        await asyncio.sleep(0.05)
        if not task.done():
            bad.append("after close() resolved _closing the coordination task is still parked on the unread error: "
                       "close() awaits that task, so stop() never returns" if not consumed_first
                       else "the park did not end when the application consumed the error")
            task.cancel()
        try:
            await task
        except BaseException:
            pass
    return bad
bad = asyncio.run(main())
VIOLATED = bool(bad); DETAIL = repr(bad)
'''


classmodel("LeaveGroupRequestObj", {})


@contract(MOD + ":GroupCoordinator._maybe_leave_group", ["C19"])
def _(c):
    _coord(c)
    c.ghost("$leave_sent", BOOL, "False")
    c.call("LeaveGroupRequest", returns=Ref("LeaveGroupRequestObj"), post=["fresh(result)"], note="LeaveGroupRequest builder object")
    c.call("self._send_req", havoc_all=True, raises=["KafkaError", "CancelledError"], note="sends to the group coordinator")
    c.hook("before", "self._send_req", [("set", "$leave_sent", "True")])       # a minimal-effort attempt: sent, not necessarily answered
    c.modifies("self.generation", "self.member_id", "Future.state", "Future.nres")
    c.raises("cancelled", "BaseException")
    c.hook("before", "LeaveGroupRequest", [
        ("assert", "leaves-as-the-member-it-is", "a0 == self.group_id and a1 == self.member_id"),
        ("assert", "only-a-dynamic-member-of-a-generation-leaves", "self.generation > 0 and self._group_instance_id is None"),
    ])
    c.ensures_internal("a-dynamic-member-of-a-generation-tells-the-coordinator",
                       "implies(old(self.generation) > 0 and old(self._group_instance_id) is None, $leave_sent)")
    c.ensures("identity-forgotten", "self.generation == OffsetCommitRequest.DEFAULT_GENERATION_ID"
              " and self.member_id == JoinGroupRequest.UNKNOWN_MEMBER_ID")


@contract(MOD + ":GroupCoordinator.close", ["C19"])
def _(c):
    _coord(c)
    c.modifies("self._heartbeat_task", "self._commit_refresh_task", "self.generation", "self.member_id",
               "Future.state", "Future.nres", "Future.exc")
    c.raises("cancelled", "BaseException")
    c.ghost("$left", BOOL, "False")
    c.hook("after-await", "self._maybe_leave_group", [("set", "$left", "True")])
    # helper tasks are stopped only once the coordination task - the only one that restarts them - has finished; a
    # stop issued earlier could be undone by a rebalance completing in that task
    c.hook("before", "self._stop_heartbeat_task", [
        ("assert", "coordination-task-finished-before-its-helpers-are-stopped", "self._coordination_task.done()"),
    ])
    c.hook("before", "self._stop_commit_offsets_refresh_task", [
        ("assert", "coordination-task-finished-before-its-helpers-are-stopped", "self._coordination_task.done()"),
    ])
    c.hook("before", "self._maybe_leave_group", [
        ("assert", "leaves-the-group-only-after-every-task-is-finished",
         "self._coordination_task.done() and self._heartbeat_task is None and self._commit_refresh_task is None"),
    ])
    c.ensures_internal("nothing-of-the-coordinator-is-left-running",
                       "implies(not old(self._closing.done()), self._closing.done() and self._coordination_task.done()"
                       " and self._heartbeat_task is None and self._commit_refresh_task is None and $left)")


# ------------------------------------------------------------------ Fetcher.close
FMOD = "aiokafka.consumer.fetcher"
F = CLASSES["Fetcher"].fields
F.update({"_fetch_task": TASK, "_pending_tasks": Set(TASK), "_fetch_waiters": Set(Fut(NONE))})
# the per-node tasks in _pending_tasks are started and removed only by the fetch routine (_fetch_task); once that
# task is finished the set no longer changes
PENDING_STABLE = "implies(old(self._fetch_task.done()), self._pending_tasks == old(self._pending_tasks))"
SPEC_TYPES["TASK"] = TASK


@contract(FMOD + ":Fetcher._notify", ["C19", "C05"])
def _(c):
    c.self_("Fetcher")
    c.param("future", Opt(Fut(NONE)))
    c.modifies("Future.state", "Future.nres")
    c.ensures("waiter-released", "implies(future is not None, future.done())")
    c.ensures("others-untouched", "forall(TASK, lambda r: implies(r != future, r.done() == old(r.done())))")


@contract(FMOD + ":Fetcher.close", ["C19"])
def _(c):
    c.self_("Fetcher")
    c.owns("self._fetch_task", "self._subscriptions", "self._records", "self._client", "self._closed")
    c.rely(PENDING_STABLE, "pending-tasks-are-managed-only-by-the-fetch-routine")
    c.modifies("self._closed", "Future.state", "Future.nres", "Future.exc")
    # stop() must return: an exception stored in a finished task may surface, a CancelledError of a task that close()
    # itself cancelled must not (it would abort stop() half-way, before the client's connections are closed)
    c.raises("a-fetch-task-had-failed", "BaseException")
    c.never_raises("CancelledError")
    c.loop(0, header="for waiter in self._fetch_waiters", invariants=[
        ("fetch-routine-stopped", "self._fetch_task.done() and self._closed"),
    ])
    c.loop(1, header="for x in self._pending_tasks", invariants=[
        ("fetch-routine-stopped", "self._fetch_task.done() and self._closed"),
        ("visited-tasks-are-finished", "forall(TASK, lambda t: implies(t in $done, t.done()))"),
    ])
    c.ensures("nothing-of-the-fetcher-is-left-running",
              "self._closed and self._fetch_task.done() and forall(TASK, lambda t: implies(t in self._pending_tasks, t.done()))")

    @c.replay
    def replay(model, ob=None):
        return {"script": _FETCHER_CLOSE_SCRIPT}


# ------------------------------------------------------------------ AIOKafkaConsumer.stop / Sender.close
classmodel("AnyCoordinator", {})                   # GroupCoordinator or NoGroupCoordinator
classmodel("ConsumerStop", {"_closed": BOOL, "_coordinator": Opt(Ref("AnyCoordinator")), "_fetcher": Opt(Ref("Fetcher")),
                            "_client": Ref("ClientObj")}, real="aiokafka.consumer.consumer:AIOKafkaConsumer")


@contract("aiokafka.consumer.consumer:AIOKafkaConsumer.stop", ["C19"])
def _(c):
    c.self_("ConsumerStop")
    c.owns("self._coordinator", "self._fetcher", "self._client", "self._closed")
    c.ghost("$coordinator_closed", BOOL, "False")
    c.ghost("$fetcher_closed", BOOL, "False")
    c.ghost("$client_closed", BOOL, "False")
    c.call("self._coordinator.close", havoc_all=True, raises=["BaseException"], note="GroupCoordinator.close (under contract) / NoGroupCoordinator.close")
    c.call("self._fetcher.close", havoc_all=True, raises=["BaseException"], note="Fetcher.close (under contract)")
    c.call("self._client.close", havoc_all=True, raises=["BaseException"], note="AIOKafkaClient.close: closes every connection")
    c.modifies("self._closed")
    c.raises("a-component-failed-to-close-or-cancelled", "BaseException")
    c.hook("after-await", "self._coordinator.close", [("set", "$coordinator_closed", "True")])
    c.hook("after-await", "self._fetcher.close", [("set", "$fetcher_closed", "True")])
    c.hook("after-await", "self._client.close", [("set", "$client_closed", "True")])
    # connections go last: the coordinator still needs one for the final commit and LeaveGroup
    c.hook("before", "self._client.close", [
        ("assert", "connections-closed-after-the-components-that-use-them",
         "(self._coordinator is None or $coordinator_closed) and (self._fetcher is None or $fetcher_closed)"),
    ])
    c.hook("before", "self._coordinator.close", [
        ("assert", "marked-closed-before-anything-is-torn-down", "self._closed"),
    ])
    c.ensures_internal("a-normal-return-means-everything-was-closed",
                       "self._closed and implies(not old(self._closed), $client_closed and (self._coordinator is None or $coordinator_closed)"
                       " and (self._fetcher is None or $fetcher_closed))")


S_ = CLASSES["Sender"].fields
S_["_sender_task"] = Opt(TASK)


@contract("aiokafka.producer.sender:Sender.close", ["C19"])
def _(c):
    c.self_("Sender")
    c.owns("self._sender_task")
    c.modifies("Future.state", "Future.nres", "Future.exc")
    c.raises("the-sender-routine-had-failed-or-cancelled", "BaseException")
    c.ensures("the-sender-task-is-finished", "implies(self._sender_task is not None, self._sender_task.done())")


CLASSES["Sender"].props["sender_task"] = "self._sender_task"
classmodel("ProducerStop", {"_closed": BOOL, "_stopped_fut": Opt(Fut(NONE)), "_sender": Opt(Ref("Sender")), "_message_accumulator": Ref("MessageAccumulator"),
                            "client": Ref("ClientObj")}, real="aiokafka.producer.producer:AIOKafkaProducer")


@contract("aiokafka.producer.producer:AIOKafkaProducer.stop", ["C19", "C02"])
def _(c):
    c.self_("ProducerStop")
    c.owns("self._sender", "self._message_accumulator", "self.client", "self._closed", "self._stopped_fut", "Sender._sender_task")
    # C02 "stop() return[s] only after every previously accepted record is resolved ... issued at any point of the run": also a
    # stop() issued while another one is still flushing. The first call marks the producer closed at once; a later call that
    # finds the mark has to wait for the call in progress: the mark and the future that call resolves at its end go together
    c.requires("implies(self._closed, self._stopped_fut is not None)", "a-closed-producer-has-the-future-its-stop-resolves")
    c.ghost("$waited_for_the_stop_in_progress", BOOL, "False")
    c.call("create_future", returns=Fut(NONE), post=["fresh(result)", "not result.done()"], note="a new pending future")
    c.shared("self._stopped_fut")
    c.ghost("$shielded", Opt(Fut(NONE)), "none_fut()")
    c.call("asyncio.shield", returns=Fut(NONE), post=["fresh(result)", "implies(result.done(), a0.done())"], ghost={"$shielded": "some_fut(a0)"},
           note="asyncio.shield(fut): a new outer future that follows fut (done only when fut is); cancelling the outer one does not cancel fut")
    c.ghost("$flush_started", BOOL, "False")
    c.ghost("$sender_closed", BOOL, "False")
    c.ghost("$client_closed", BOOL, "False")
    c.call("self._message_accumulator.close", returns=Ref("Coroutine"), post=["fresh(result)"],
           note="creates the coroutine of MessageAccumulator.close (marks the accumulator closed, then flushes); it runs as the task below")
    c.call("create_task", returns=TASK, post=["fresh(result)", "not result.done()"], note="asyncio task creation")
    # C02 "stop() returns only after every accepted record is resolved": the wait for the flush has no time limit of its own
    # (a model that accepts no `timeout=`: with one the call leaves the verified subset and the scenario replay decides)
    c.call("asyncio.wait", returns=Tup(Set(TASK), Set(TASK)), havoc_all=True, raises=["CancelledError"], kwargs=["return_when"], nargs=1,
           note="asyncio.wait([flush, sender task], return_when=FIRST_COMPLETED), no timeout: suspends until the flush or the sender task has finished")
    c.call("self._sender.close", havoc_all=True, raises=["BaseException"], note="Sender.close (under contract)")
    c.call("self.client.close", havoc_all=True, raises=["BaseException"], note="AIOKafkaClient.close: closes every connection")
    c.modifies("self._closed", "self._stopped_fut", "Future.state", "Future.nres")
    c.raises("a-component-failed-to-close-or-cancelled", "BaseException")
    c.hook("before", "create_task", [("set", "$flush_started", "True")])
    c.hook("after-await", "self._sender.close", [("set", "$sender_closed", "True")])
    c.hook("after-await", "self.client.close", [("set", "$client_closed", "True")])
    # accepted records are flushed before the sender that has to deliver them is stopped, and the connections it
    # needs are closed last
    c.hook("before", "self._sender.close", [
        ("assert", "flush-of-accepted-records-started-before-the-sender-is-stopped", "$flush_started and self._closed"),
    ])
    c.hook("before", "self.client.close", [
        ("assert", "connections-closed-after-the-sender-that-uses-them",
         "self._sender is None or self._sender._sender_task is None or $sender_closed"),
    ])
    c.ensures_internal("a-normal-return-means-everything-was-closed",
                       "self._closed and implies(not old(self._closed), $client_closed"
                       " and (self._sender is None or self._sender._sender_task is None or $sender_closed))")
    # (awaiting the shield returns when the shield is done; that the stop in progress is over then is the shield's model)
    c.ensures_internal("a-stop-that-finds-the-producer-closed-waits-for-the-stop-in-progress",
                       "implies(old(self._closed), $shielded is not None and $shielded == old(self._stopped_fut))")
    c.ensures("the-first-stop-tells-the-later-ones-when-it-is-over",
              "implies(not old(self._closed), self._stopped_fut is not None and self._stopped_fut.done())")
    c.replay_fn = lambda model, ob=None: {"script": _PRODUCER_STOP_SCRIPT}


_PRODUCER_STOP_SCRIPT = '''
import sys
sys.path.insert(0, "/verif")
from specs import stop_replay
bad = stop_replay.sweep()
VIOLATED = bool(bad); DETAIL = "%d of 3 schedules: %r" % (len(bad), bad[:1])
'''


# the real Fetcher with a stubbed client: close() is called while a per-node task is (a) waiting for the broker,
# (b) in its retry back-off after a failed request, (c) already finished
_FETCHER_CLOSE_SCRIPT = '''
import asyncio, logging, types
logging.disable(logging.CRITICAL)
from aiokafka.client import AIOKafkaClient
from aiokafka.consumer.fetcher import Fetcher
from aiokafka.consumer.subscription_state import SubscriptionState
from aiokafka.structs import TopicPartition
from aiokafka import errors as E

async def one(mode):
    client = AIOKafkaClient(bootstrap_servers=[])
    subs = SubscriptionState()
    tp = TopicPartition("t", 0)
    subs.assign_from_user({tp})
    subs.seek(tp, 0)
    async def send(node, req):
        if mode == "in-flight":
            await asyncio.sleep(3600)
        if mode == "back-off":
            raise E.RequestTimedOutError()
        return types.SimpleNamespace(API_VERSION=4, topics=[])
    client.send = send
    fetcher = Fetcher(client, subs, retry_backoff_ms=5000)
    req = types.SimpleNamespace(topics=[("t", [(0, 0, 100)])])
    calls = []
    def actions(assignment):
        calls.append(1)
        return ([(0, req)] if len(calls) == 1 else []), {}, None, False, []
    fetcher._get_actions_per_node = actions
    await asyncio.sleep(0.05)
    pend = list(fetcher._pending_tasks)
    try:
        await asyncio.wait_for(fetcher.close(), 2)
        out = None
    except BaseException as e:
        out = "close() raised %s" % type(e).__name__
    alive = [t for t in pend if not t.done()] + ([] if fetcher._fetch_task.done() else [fetcher._fetch_task])
    for t in alive:
        t.cancel()
    if out or alive:
        return "task %s at close(): %s; still running afterwards: %d" % (mode, out or "returned", len(alive))

async def main():
    return [r for r in [await one(m) for m in ("in-flight", "back-off", "finished")] if r]
bad = asyncio.run(main())
VIOLATED = bool(bad); DETAIL = repr(bad)
'''

