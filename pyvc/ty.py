"""pyvc types and symbolic values.

A symbolic value is V(ty, term): a static type plus a z3 term of the sort that the
type maps to in the current arithmetic *mode* ("int": Python ints are unbounded z3
Ints; "bvN": Python ints are signed N-bit vectors and every + - * << generates a
no-overflow obligation, so that bit-vector semantics provably equal integer
semantics on the verified paths).
"""
import z3

_MODE = ["int", 0]          # kind, width


def set_mode(mode):
    if mode == "int":
        _MODE[0], _MODE[1] = "int", 0
    else:
        assert mode.startswith("bv")
        _MODE[0], _MODE[1] = "bv", int(mode[2:])


def mode():
    return _MODE[0]


def width():
    return _MODE[1]


_SORTS = {}


class Ty:
    kind = "?"

    def key(self):
        return self.kind

    def __eq__(self, o):
        return isinstance(o, Ty) and self.key() == o.key()

    def __hash__(self):
        return hash(self.key())

    def __repr__(self):
        return self.key()

    def sort(self):
        k = (self.key(), _MODE[0], _MODE[1])
        s = _SORTS.get(k)
        if s is None:
            s = self._mk()
            _SORTS[k] = s
        return s

    def _mk(self):
        raise NotImplementedError(self.key())

    def fresh(self, name):
        return V(self, z3.FreshConst(self.sort(), name))

    def named(self, name):
        """Symbolic value built from named component constants, so that accessors applied to
        it simplify away (keeps queries in array/bit-vector fragments)."""
        s = self.sort()
        if isinstance(self, (List, _Bytes)):
            esort = s.constructor(0).domain(0)
            return V(self, s.mk(z3.Const(name + ".arr", esort), z3.Const(name + ".len", INT.sort())))
        if isinstance(self, Tup):
            parts = [it.named("%s.%d" % (name, i)) for i, it in enumerate(self.items)]
            return V(self, s.mk(*[p.t for p in parts]))
        if isinstance(self, Dict):
            return V(self, s.mk(z3.Const(name + ".dom", z3.ArraySort(self.k.sort(), z3.BoolSort())),
                                z3.Const(name + ".val", z3.ArraySort(self.k.sort(), self.v.sort()))))
        if isinstance(self, Opt) and not isinstance(self.inner, (Ref, ExcT)):
            inner = self.inner.named(name + ".some")
            return V(self, z3.If(z3.Const(name + ".isnone", z3.BoolSort()), s.none, s.some(inner.t)))
        return V(self, z3.Const(name, s))


class _Int(Ty):
    kind = "Int"

    def _mk(self):
        return z3.IntSort() if _MODE[0] == "int" else z3.BitVecSort(_MODE[1])


class _Bool(Ty):
    kind = "Bool"

    def _mk(self):
        return z3.BoolSort()


class _Real(Ty):
    kind = "Real"

    def _mk(self):
        return z3.RealSort()


class _NoneT(Ty):
    kind = "None"

    def _mk(self):
        return z3.BoolSort()       # never inspected


class Opaque(Ty):
    """Uninterpreted sort with equality only (str, TopicPartition, payload objects)."""
    kind = "Opaque"

    def __init__(self, name):
        self.name = name

    def key(self):
        return "Opaque<%s>" % self.name

    def _mk(self):
        return z3.DeclareSort(self.name)


class Ref(Ty):
    """Reference to a heap object of a modelled class. 0 is never a live object."""
    kind = "Ref"

    def __init__(self, cls):
        self.cls = cls

    def key(self):
        return "Ref<%s>" % self.cls

    def _mk(self):
        return z3.IntSort()


class ExcT(Ty):
    """Exception instance or exception class: the z3 term is the class id."""
    kind = "Exc"

    def _mk(self):
        return z3.IntSort()


class Enum(Ty):
    kind = "Enum"

    def __init__(self, name, members):
        self.name = name
        self.members = list(members)

    def key(self):
        return "Enum<%s>" % self.name

    def _mk(self):
        s, consts = z3.EnumSort("E_%s_%s%d" % (self.name, _MODE[0], _MODE[1]), self.members)
        _SORTS[("enumc", self.key(), _MODE[0], _MODE[1])] = dict(zip(self.members, consts))
        return s

    def member(self, m):
        self.sort()
        return V(self, _SORTS[("enumc", self.key(), _MODE[0], _MODE[1])][m])


class Opt(Ty):
    kind = "Opt"

    def __init__(self, inner):
        assert not isinstance(inner, Opt)
        self.inner = inner

    def key(self):
        return "Opt<%s>" % self.inner.key()

    def _mk(self):
        if isinstance(self.inner, (Ref, ExcT)):
            return z3.IntSort()               # 0 is None
        d = z3.Datatype(_san(self.key()))
        d.declare("none")
        d.declare("some", ("val", self.inner.sort()))
        return d.create()


class Tup(Ty):
    kind = "Tup"

    def __init__(self, *items, names=None, name=None):
        self.items = list(items)
        self.names = list(names) if names else None
        self.name = name

    def key(self):
        return "Tup<%s>" % ",".join(i.key() for i in self.items)

    def _mk(self):
        d = z3.Datatype(_san(self.key()))
        d.declare("mk", *[("f%d" % i, t.sort()) for i, t in enumerate(self.items)])
        return d.create()


class List(Ty):
    """list / deque: (arr: Int->T, len)."""
    kind = "List"

    def __init__(self, elem):
        self.elem = elem

    def key(self):
        return "List<%s>" % self.elem.key()

    def _mk(self):
        d = z3.Datatype(_san(self.key()))
        d.declare("mk", ("arr", z3.ArraySort(INT.sort(), self.elem.sort())), ("len", INT.sort()))
        return d.create()


class _Bytes(Ty):
    kind = "Bytes"

    def _mk(self):
        d = z3.Datatype("Bytes_%s%d" % (_MODE[0], _MODE[1]))
        d.declare("mk", ("arr", z3.ArraySort(INT.sort(), z3.BitVecSort(8))), ("len", INT.sort()))
        return d.create()


class Set(Ty):
    kind = "Set"

    def __init__(self, elem):
        self.elem = elem

    def key(self):
        return "Set<%s>" % self.elem.key()

    def _mk(self):
        return z3.ArraySort(self.elem.sort(), z3.BoolSort())


class Dict(Ty):
    kind = "Dict"

    def __init__(self, k, v, default=None):
        self.k, self.v = k, v
        self.default = default      # defaultdict factory: python constant, "list" or "dict"

    def key(self):
        return "Dict<%s,%s>" % (self.k.key(), self.v.key())

    def _mk(self):
        d = z3.Datatype(_san(self.key()))
        d.declare("mk", ("dom", z3.ArraySort(self.k.sort(), z3.BoolSort())),
                  ("val", z3.ArraySort(self.k.sort(), self.v.sort())))
        return d.create()


class PyObj(Ty):
    """A Python-level (non-symbolic) thing: module, class, function, bound method."""
    kind = "PyObj"

    def _mk(self):
        raise TypeError("PyObj has no sort")


def _san(s):
    return s.replace("<", "_").replace(">", "_").replace(",", "_") + ("_%s%d" % (_MODE[0], _MODE[1]))


INT = _Int()
BOOL = _Bool()
REAL = _Real()
NONE = _NoneT()
BYTES = _Bytes()
EXC = ExcT()
PYOBJ = PyObj()
STR = Opaque("Str")


class V:
    __slots__ = ("ty", "t", "lv")

    def __init__(self, ty, t, lv=None):
        self.ty = ty
        self.t = t
        self.lv = lv          # lvalue path for container aliases (see exec)

    def __repr__(self):
        return "V(%s, %s)" % (self.ty, str(self.t)[:80])


# ---------------------------------------------------------------- constructors

def intval(n):
    if _MODE[0] == "int":
        return V(INT, z3.IntVal(n))
    w = _MODE[1]
    assert -(1 << (w - 1)) <= n < (1 << (w - 1)), "constant %d does not fit bv%d" % (n, w)
    return V(INT, z3.BitVecVal(n, w))


def boolval(b):
    return V(BOOL, z3.BoolVal(bool(b)))


NONEV = V(NONE, None)


def opt_none(ty):
    assert isinstance(ty, Opt)
    if isinstance(ty.inner, (Ref, ExcT)):
        return V(ty, z3.IntVal(0))
    return V(ty, ty.sort().none)


def opt_some(ty, v):
    assert isinstance(ty, Opt)
    if isinstance(ty.inner, (Ref, ExcT)):
        return V(ty, v.t)
    return V(ty, ty.sort().some(v.t))


def _named_opt_parts(t):
    """(isnone, inner) if t is syntactically If(isnone, none, some(inner)) — the shape
    Ty.named gives optional parameters."""
    if z3.is_app(t) and t.decl().kind() == z3.Z3_OP_ITE:
        c, a, b = t.children()
        if z3.is_app(a) and a.num_args() == 0 and a.decl().name() == "none" and \
                z3.is_app(b) and b.num_args() == 1 and b.decl().name() == "some":
            return c, b.children()[0]
    return None


def opt_is_none(v):
    ty = v.ty
    if isinstance(ty.inner, (Ref, ExcT)):
        return v.t == 0
    p = _named_opt_parts(v.t)
    if p is not None:
        return p[0]
    return ty.sort().is_none(v.t)


def opt_val(v):
    ty = v.ty
    if isinstance(ty.inner, (Ref, ExcT)):
        return V(ty.inner, v.t)
    p = _named_opt_parts(v.t)
    if p is not None:
        # val(none) is an unconstrained value either way; using the named inner constant keeps
        # the query free of datatype accessors
        return V(ty.inner, p[1])
    return V(ty.inner, ty.sort().val(v.t))


def tup_mk(ty, vals):
    return V(ty, ty.sort().mk(*[x.t for x in vals]))


def tup_get(v, i):
    s = v.ty.sort()
    return V(v.ty.items[i], s.accessor(0, i)(v.t))


def list_arr(v):
    return v.ty.sort().arr(v.t)


def list_len(v):
    return v.ty.sort().len(v.t)


def list_mk(ty, arr, ln):
    return V(ty, ty.sort().mk(arr, ln))


def dict_dom(v):
    return v.ty.sort().dom(v.t)


def dict_val(v):
    return v.ty.sort().val(v.t)


def dict_mk(ty, dom, val):
    return V(ty, ty.sort().mk(dom, val))


def coerce(v, ty):
    """Make v usable where ty is expected (None/T -> Opt[T]); returns None if impossible."""
    if v.ty == ty:
        return v
    if isinstance(ty, Opt):
        if v.ty == NONE:
            return opt_none(ty)
        if v.ty == ty.inner:
            return opt_some(ty, v)
        if isinstance(v.ty, Opt) and v.ty.inner == ty.inner:
            return v
    if ty == REAL and v.ty == INT:
        if _MODE[0] == "int":
            return V(REAL, z3.ToReal(v.t))
    if ty == INT and v.ty == BOOL:
        return V(INT, z3.If(v.t, intval(1).t, intval(0).t))
    return None
