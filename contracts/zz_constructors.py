"""Constructors of repository classes are, at their call sites, *call models* ("MessageBatch.__init__: stores tp and builder
...") - assumptions about repository code. This module puts the constructors themselves under contract, with the very
postconditions the call models assume (read from the registered models, so the two cannot drift apart), plus what else the
property needs of a new object. A constructor whose body changes (seeded change C03-f: FetchResult.__init__ stamps the wrong
clock) then fails here instead of hiding behind a model.

PartitionRecords.__init__ is here too: it establishes the class invariant the isolation filter relies on (the aborted index
sorted by first offset; `sorted` is a model of the builtin whose key function is compared textually).

Constructors that establish a class invariant (TopicPartitionState, Assignment, TransactionManager, MessageAccumulator,
MessageBatch) are here as well: an invariant is a precondition of every method of its class model.

Not covered (they stay assumptions, DESIGN I.4): request builder objects of aiokafka/protocol (their wire form is C11's
bounded stand-in), AIOKafkaConnection (its invariant is established by connect(), asyncio streams)."""
import importlib
import pkgutil
import re

import contracts as _pkg
for _m in pkgutil.iter_modules(_pkg.__path__):
    if not _m.name.startswith("zz_"):
        importlib.import_module("contracts." + _m.name)

from pyvc.contract import contract, REGISTRY, CLASSES                                  # noqa: E402
from pyvc.ty import V, INT, BOOL, REAL, STR, NONE, EXC, BYTES, Opt, Tup, List, Set, Dict, Ref, Opaque      # noqa: E402
from pyvc.exec_base import Fut                                                          # noqa: E402
from .common import TP                                                                  # noqa: E402
from .message_accumulator import BATCH                                                  # noqa: E402


def model_posts(caller_key, pattern, positional, skip=("fresh(result)",)):
    """the call model's postconditions, rewritten over the constructor's own names (result -> self, aN -> N-th parameter,
    kw_x -> x)"""
    cms = [cm for cm in REGISTRY[caller_key].calls if cm.pattern == pattern]
    if not cms:
        raise KeyError("no call model %r in %s" % (pattern, caller_key))
    out = []
    for p in cms[0].post:
        if p in skip:
            continue
        q = re.sub(r"\bresult\b", "self", p)
        q = re.sub(r"\ba(\d+)\b", lambda m: positional[int(m.group(1))], q)
        q = re.sub(r"\bkw_(\w+)\b", r"\1", q)
        out.append(q)
    return out


def _fut_models(c):
    c.call("create_future", returns=Fut(None), post=["fresh(result)", "not result.done()"], note="a new pending future")
    c.call("time.monotonic", returns=REAL, note="a reading of the monotonic clock")


PM = "aiokafka.producer.message_accumulator"
SM = "aiokafka.producer.sender"
GM = "aiokafka.consumer.group_coordinator"


@contract(PM + ":MessageBatch.__init__", ["C01", "C02", "C07"])
def _(c):
    c.self_("MessageBatch")
    c.no_class_inv = True
    for n, t in (("tp", TP), ("builder", Ref("BatchBuilder")), ("ttl", REAL), ("linger_time", REAL)):
        c.param(n, t)
    _fut_models(c)
    c.modifies("MessageBatch.*", "Future.state", "Future.nres")
    for i, p in enumerate(model_posts(PM + ":MessageAccumulator._append_batch", "MessageBatch", ["tp", "builder", "ttl", "linger_time"])):
        c.ensures("as-the-call-model-in-_append_batch-assumes-%d" % i, p)
    for lbl, e in CLASSES["MessageBatch"].invariants:
        c.ensures("establishes:" + lbl, e)
    c.ensures("time-limits-as-given", "self._ttl == ttl and self._linger_time == linger_time")
    c.ensures("its-own-pending-waiters", "not self._drain_waiter.done() and self.future != self._drain_waiter"
                                         " and fresh(self.future) and fresh(self._drain_waiter)")


@contract(SM + ":EndTxnHandler.__init__", ["C07", "C16"])
def _(c):
    c.self_("EndTxnHandler")
    c.no_class_inv = True
    c.param("sender", Ref("Sender"))
    c.param("commit_result", CLASSES["EndTxnHandler"].fields["_commit_result"])
    c.modifies("EndTxnHandler.*")
    for i, p in enumerate(model_posts(SM + ":Sender._do_txn_commit", "EndTxnHandler", ["sender", "commit_result"])):
        c.ensures("as-the-call-model-in-_do_txn_commit-assumes-%d" % i, p)
    c.ensures("backs-off-as-the-sender-is-configured", "self._default_backoff == sender._retry_backoff")


@contract(SM + ":SendProduceReqHandler.__init__", ["C01", "C02"])
def _(c):
    c.self_("SendProduceReqHandler")
    c.no_class_inv = True
    c.param("sender", Ref("Sender"))
    c.param("batches", Dict(TP, BATCH))
    c.modifies("SendProduceReqHandler.*")
    for i, p in enumerate(model_posts(SM + ":Sender._send_produce_req", "SendProduceReqHandler", ["sender", "batches"])):
        c.ensures("as-the-call-model-in-_send_produce_req-assumes-%d" % i, p)
    c.ensures("nothing-to-reenqueue-yet", "len(self._to_reenqueue) == 0 and self._client == sender.client"
                                          " and self._default_backoff == sender._retry_backoff")


@contract(GM + ":CoordinatorGroupRebalance.__init__", ["C06", "C05"])
def _(c):
    c.self_("Rebalance")
    c.no_class_inv = True
    F = CLASSES["Rebalance"].fields
    for n, t in (("coordinator", Ref("GroupCoordinator")), ("group_id", STR), ("coordinator_id", Opt(INT)),
                 ("subscription", Ref("Subscription")), ("assignors", F["_assignors"]), ("session_timeout_ms", INT),
                 ("retry_backoff_ms", INT)):
        c.param(n, t)
    c.modifies("Rebalance.*")
    names = ["coordinator", "group_id", "coordinator_id", "subscription", "assignors", "session_timeout_ms", "retry_backoff_ms"]
    for i, p in enumerate(model_posts(GM + ":GroupCoordinator._do_rejoin_group", "CoordinatorGroupRebalance", names)):
        c.ensures("as-the-call-model-in-_do_rejoin_group-assumes-%d" % i, p)
    c.ensures("joins-as-this-coordinator-is-configured",
              "self._coordinator == coordinator and self.group_id == group_id and self.coordinator_id == coordinator_id"
              " and self._assignors == assignors and self._session_timeout_ms == session_timeout_ms"
              " and self._retry_backoff_ms == retry_backoff_ms and self._rebalance_timeout_ms == coordinator._rebalance_timeout_ms")


# ------------------------------------------------------------------ PartitionRecords.__init__
# establishes the class invariant the isolation filter relies on (C08: the aborted-transaction index is consumed in the order
# of the transactions' first offsets) and stores what _proc_fetch_request hands it (hooks there say what that is)
from . import fetcher as _F                  # noqa: E402
from pyvc import ty as _T                    # noqa: E402
import ast as _ast                           # noqa: E402
import z3 as _z3                             # noqa: E402
from pyvc.contract import specfn             # noqa: E402
FM = "aiokafka.consumer.fetcher"


@specfn("lambda_text_is")
def lambda_text_is(ex, st, v, text):
    ok = v.ty == _T.PYOBJ and getattr(v.t, "kind", None) == "lambda" and _ast.unparse(v.t.node) == text.t.value \
        if hasattr(text.t, "value") else False
    return V(BOOL, _z3.BoolVal(bool(ok)))


CLASSES["PartitionRecords"].fields.update({"_key_deserializer": Opt(Ref("Deserializer")), "_value_deserializer": Opt(Ref("Deserializer")),
                                            "_records_iterator": Opaque("RecordIterator")})


@contract(FM + ":PartitionRecords.__init__", ["C08", "C03", "C04"])
def _(c):
    c.self_("PartitionRecords")
    c.no_class_inv = True
    ABORTED = CLASSES["PartitionRecords"].fields["_aborted_transactions"]
    for n, t in (("tp", TP), ("records", Ref("Records")), ("aborted_transactions", Opt(ABORTED)), ("fetch_offset", INT),
                 ("key_deserializer", Opt(Ref("Deserializer"))), ("value_deserializer", Opt(Ref("Deserializer"))),
                 ("check_crcs", BOOL), ("isolation_level", INT)):
        c.param(n, t)
    c.call("sorted", returns=ABORTED, kwargs=["key"], nargs=1,
           post=["len(result) == len(a0)",
                 "forall(lambda j, k: implies(0 <= j <= k < len(result), result[j][1] <= result[k][1]))"],
           note="sorted(xs, key=lambda x: x[1]): the same entries ordered by their second component (the key function's text "
                "is compared with exactly this lambda)")
    c.hook("before", "sorted", [("assert", "the-index-is-ordered-by-the-transactions-first-offsets", "lambda_is_second_component(kw_key)")])
    c.call("self._unpack_records", returns=Opaque("RecordIterator"), note="creates the generator; nothing runs yet")
    c.modifies("PartitionRecords.*")
    for i, p in enumerate(model_posts(FM + ":Fetcher._proc_fetch_request", "PartitionRecords",
                                      ["tp", "records", "aborted_transactions", "fetch_offset", "key_deserializer",
                                       "value_deserializer", "check_crcs", "isolation_level"])):
        c.ensures("as-the-call-model-in-_proc_fetch_request-assumes-%d" % i, p)
    c.ensures("the-filter-is-configured-as-given", "self._check_crcs == check_crcs and self._isolation_level == isolation_level")
    c.ensures("no-producer-is-aborted-yet", "forall(INT, lambda p: p not in self._aborted_producers)")
    for lbl, e in CLASSES["PartitionRecords"].invariants:
        c.ensures("establishes:" + lbl, e)
    c.ensures("every-listed-transaction-is-kept", "len(self._aborted_transactions) == (0 if aborted_transactions is None else len(aborted_transactions))")
    c.replay_fn = lambda model, ob=None: {"script": _PARTITION_RECORDS_SCRIPT}


# replay: real PartitionRecords objects over every ordering of small aborted-transaction lists
_PARTITION_RECORDS_SCRIPT = '''
import itertools
from aiokafka.consumer.fetcher import PartitionRecords
from aiokafka.record.memory_records import MemoryRecords
from aiokafka.structs import TopicPartition
bad = []
for n in (1, 2, 3):
    for pids in itertools.product((1, 2, 3), repeat=n):
        for offs in itertools.permutations((0, 4, 9, 13)[:n + 1], n):
            given = list(zip(pids, offs))
            pr = PartitionRecords(TopicPartition("t", 0), MemoryRecords(b""), given, 0, None, None, True, 1)
            kept = list(pr._aborted_transactions)
            if sorted(kept) != sorted(given) or [o for _, o in kept] != sorted(o for _, o in kept):
                bad.append((given, kept))
VIOLATED = bool(bad)
DETAIL = "aborted-transaction index not the given entries in the order of their first offsets (given, kept): %r" % (bad[:3],) if bad else "ok"
'''


@specfn("lambda_is_second_component")
def lambda_is_second_component(ex, st, v):
    ok = v.ty == _T.PYOBJ and getattr(v.t, "kind", None) == "lambda" and _ast.unparse(v.t.node) == "lambda x: x[1]"
    return V(BOOL, _z3.BoolVal(bool(ok)))


# ------------------------------------------------------------------ constructors that establish class invariants
# a class invariant is a precondition of every method of its class model: the constructor is where it starts to hold
from . import subscription_state as _SS, transaction_manager as _TM      # noqa: E402


@contract(_SS.MOD + ":TopicPartitionState.__init__", ["C03", "C13"])
def _(c):
    c.self_("TPState")
    c.no_class_inv = True
    c.param("assignment", Ref("Assignment"))
    _fut_models(c)
    c.modifies("TPState.*", "Future.state", "Future.nres")
    for lbl, e in CLASSES["TPState"].invariants:
        c.ensures("establishes:" + lbl, e)
    c.ensures("a-new-partition-has-no-position-and-waits-for-one",
              "self._position is None and self._reset_strategy is None and self._status == PartitionStatus.AWAITING_RESET"
              " and not self._paused and self._assignment == assignment")


@contract(_TM.MOD + ":TransactionManager.__init__", ["C16", "C07", "C01"])
def _(c):
    c.self_("TransactionManager")
    c.no_class_inv = True
    c.param("transactional_id", Opt(STR))
    c.param("transaction_timeout_ms", INT)
    _fut_models(c)
    c.call("defaultdict", returns=CLASSES["TransactionManager"].fields["_sequence_numbers"],
           post=["forall(TP, lambda q: seq_of(result, q) == 0)"],
           note="defaultdict(lambda: 0): every partition's counter starts at 0")
    c.call("deque", returns=CLASSES["TransactionManager"].fields["_pending_txn_offsets"], post=["len(result) == 0"], note="an empty deque")
    from .common import tupctor
    c.bind("PidAndEpoch", tupctor(CLASSES["TransactionManager"].fields["_pid_and_epoch"]))
    c.modifies("TransactionManager.*", "Future.state", "Future.nres")
    for lbl, e in _TM.INVS:
        c.ensures("establishes:" + lbl, e)
    c.ensures("starts-uninitialised-with-nothing-registered",
              "self.state == TransactionState.UNINITIALIZED and self._pid_and_epoch[0] == -1 and self._pid_and_epoch[1] == -1"
              " and len(self._pending_txn_offsets) == 0 and is_empty(self._txn_consumer_groups) and self._abortable_error is None"
              " and forall(TP, lambda q: q not in self._txn_partitions and q not in self._pending_txn_partitions)"
              " and self.transactional_id == transactional_id")


@contract(_TM.MOD + ":TransactionManager.set_pid_and_epoch", ["C16", "C07", "C01"])
def _(c):
    """InitProducerId answered: the identity every batch is stamped with; a transactional producer becomes READY"""
    from .common import tupctor
    c.self_("TransactionManager")
    c.param("pid", INT)
    c.param("epoch", INT)
    c.bind("PidAndEpoch", tupctor(CLASSES["TransactionManager"].fields["_pid_and_epoch"]))
    for lbl, e in _TM.INVS:
        c.requires(e, "inv:" + lbl)
        c.ensures("inv:" + lbl, e)
    c.no_class_inv = True
    c.modifies("self._pid_and_epoch", "self.state", "Future.state", "Future.nres")
    c.raises("identity-given-twice-or-not-from-uninitialised", "Exception")
    c.ensures("the-identity-the-coordinator-assigned", "self._pid_and_epoch[0] == pid and self._pid_and_epoch[1] == epoch")
    c.ensures("waiters-for-the-identity-are-released", "self._pid_waiter.done()")
    c.ensures("a-transactional-producer-becomes-ready",
              "implies(self.transactional_id is None, self.state == old(self.state))"
              " and (self.state == old(self.state) or self.state == TransactionState.READY)")


@contract(PM + ":MessageAccumulator.__init__", ["C01", "C02", "C19"])
def _(c):
    from . import message_accumulator as _MA
    c.self_("MessageAccumulator")
    c.no_class_inv = True
    c.param("cluster", Ref("Cluster"))
    c.param("batch_size", INT)
    c.param("compression_type", INT)
    c.param("batch_ttl", REAL)
    c.param("txn_manager", Opt(Ref("TransactionManager")), default="None")
    c.param("loop", Opt(Ref("Loop")), default="None")
    c.param("linger_ms", INT, default="0")
    c.call("get_running_loop", returns=Ref("Loop"), note="asyncio.get_running_loop()")
    c.call("loop.create_future", returns=Fut(NONE), post=["fresh(result)", "not result.done()"], note="a new pending future")
    c.call("collections.defaultdict", returns=CLASSES["MessageAccumulator"].fields["_batches"],
           post=["forall(TP, lambda q: q not in result)"], note="defaultdict(deque): no queue yet")
    c.modifies("MessageAccumulator.*")
    for lbl, e in _MA.ACC_INV:
        c.ensures("establishes:" + lbl, e)
    c.ensures("starts-empty-open-and-unfailed",
              "forall(TP, lambda q: q not in self._batches) and forall(BATCH, lambda b: b not in self._pending_batches)"
              " and not self._closed and self._exception is None and not self._waiter_future.done()")
    c.ensures("configured-as-given",
              "self._cluster == cluster and self._batch_size == batch_size and self._compression_type == compression_type"
              " and self._batch_ttl == batch_ttl and self._txn_manager == txn_manager and self._linger_time * 1000 == linger_ms")


@contract(_SS.MOD + ":Assignment.__init__", ["C03", "C05", "C13"])
def _(c):
    c.self_("Assignment")
    c.no_class_inv = True
    c.param("topic_partitions", Set(TP))
    _fut_models(c)
    c.call("frozenset", returns="a0", note="frozenset(xs): the same elements")
    c.call("TopicPartitionState", returns=Ref("TPState"),
           post=["fresh(result)", "result._position is None", "result._reset_strategy is None",
                 "result._status == PartitionStatus.AWAITING_RESET", "not result._paused", "result._resume_fut is None",
                 "result._assignment == a0"],
           note="TopicPartitionState.__init__ (under contract above): a new state without a position")
    c.call("Event", returns=Ref("Event"), post=["fresh(result)"], note="asyncio.Event()")
    c.modifies("Assignment.*", "Future.state", "Future.nres")
    c.loop(0, header="for tp in self._topic_partitions", invariants=[
        ("visited-partitions-have-a-new-state", "forall(TP, lambda q: (q in self._tp_state) == (q in $done))"
                                                " and self._topic_partitions == topic_partitions"),
        ("new-states-have-no-position", "forall(TP, lambda q: implies(q in self._tp_state, self._tp_state[q]._position is None"
                                        " and self._tp_state[q]._assignment == self))"),
    ])
    for lbl, e in CLASSES["Assignment"].invariants:
        c.ensures("establishes:" + lbl, e)
    for i, p in enumerate(model_posts(_SS.MOD + ":Subscription._assign", "Assignment", ["topic_partitions"])):
        c.ensures("as-the-call-model-in-Subscription._assign-assumes-%d" % i, p)
    c.ensures("an-active-assignment-of-exactly-these-partitions-none-with-a-position",
              "self._topic_partitions == topic_partitions and not self.unassign_future.done()"
              " and forall(TP, lambda q: implies(q in self._tp_state, self._tp_state[q]._position is None))")


# the TopicPartitionState model used inside Assignment.__init__ is itself tied to TopicPartitionState.__init__
_c = REGISTRY[_SS.MOD + ":TopicPartitionState.__init__"]
for _i, _p in enumerate(model_posts(_SS.MOD + ":Assignment.__init__", "TopicPartitionState", ["assignment"])):
    _c.ensures("as-the-call-model-in-Assignment.__init__-assumes-%d" % _i, _p)
