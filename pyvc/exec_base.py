"""Executor base: obligations, heap (Burstall component maps), truthiness, equality."""
import ast
import z3
from . import ty as T
from .ty import V, INT, BOOL, REAL, NONE, NONEV, BYTES, EXC, PYOBJ, STR, Opt, Ref, Tup, List, Set, Dict, Enum, Opaque
from .state import St, Obl, Out, Unsupported, BindingError
from . import contract as C

FUTURE_FIELDS = {"state": INT, "exc": EXC, "nres": INT}   # + res:<ty>


class Fut(Ref):
    """Ref to asyncio.Future; `res` is the static type of its result (None if unknown)."""
    def __init__(self, res=None):
        Ref.__init__(self, "Future")
        self.res = res


class PyThing:
    """Python-level value carried in V(PYOBJ, PyThing)."""
    def __init__(self, kind, **kw):
        self.kind = kind
        self.__dict__.update(kw)

    def __repr__(self):
        return "PyThing(%s,%s)" % (self.kind, {k: v for k, v in self.__dict__.items() if k != "kind"})


class ExecBase:
    def __init__(self, contract, pid):
        self.c = contract
        self.pid = pid
        self.obls = []
        self.heap0 = {}
        self.axioms = []
        self.counter = 0
        self.spec = 0               # >0 while evaluating a specification expression
        self.spec_old = None        # state for old(...)
        self.raises_stack = []
        self.trusted_used = set()
        self.notes = []
        self.paths = 0
        self.fs = z3.Solver()
        self.fs.set("timeout", 1500)
        self.exc = None             # exception hierarchy, loaded lazily
        self.cur_line = 0
        self.loop_ord = 0
        self.result_v = None
        self.entry = None
        self.no_oblige = 0
        self._ax_sink = None
        self.unfold_on = True
        self.fact_target = None     # state that receives spec-function facts (default: the evaluation state)
        self.known_used = set()

    # ------------------------------------------------------------------ names
    def oname(self, kind, label, line):
        return "%s/%s/%s/%s@L%s" % (self.pid, getattr(self.c, "key", self.c.qual), kind, label, line)

    def fresh(self, ty, name):
        self.counter += 1
        return ty.fresh("%s!%d" % (name, self.counter))

    # ------------------------------------------------------------ obligations
    def oblige(self, st, kind, label, goal, line=None, assume=True, decode=None, undecidable=None):
        """Emit the obligation pc => goal; afterwards the path continues under goal."""
        if self.spec or self.no_oblige:
            return
        line = self.cur_line if line is None else line
        from . import known
        kf = known.match(self.pid, getattr(self.c, "key", self.c.qual), kind, label)
        if kf is not None and kf.get("region"):
            # recorded finding: the clause is still proved *outside* the recorded region
            region = self.spec_bool(kf["region"], self.entry, old=self.entry)
            goal = z3.Or(region, goal)
            self.known_used.add(kf["obligation"])
        g = z3.simplify(goal) if not isinstance(goal, bool) else z3.BoolVal(goal)
        if undecidable:
            # the clause cannot be evaluated on this code (it names a local the code does not bind): neither discharged nor
            # refuted by the solvers - reported undecided unless the contract's replay finds a failing input on the real code
            self.obls.append(Obl(self.oname(kind, label, line), kind, label, line, st.pc, z3.BoolVal(False),
                                 info={"undecidable": undecidable}, decode=decode or self.decode_terms(st)))
        elif not z3.is_true(g):
            self.obls.append(Obl(self.oname(kind, label, line), kind, label, line, st.pc, goal,
                                 decode=decode or self.decode_terms(st)))
        else:
            self.obls.append(Obl(self.oname(kind, label, line), kind, label, line, [], z3.BoolVal(True)))
        if assume and kind != "overflow":
            st.assume(goal)

    def cover(self, st, label, line=0):
        self.obls.append(Obl(self.oname("cover", label, line), "cover", label, line, st.pc, z3.BoolVal(True)))

    def decode_terms(self, st):
        d = {}
        if self.entry is not None:
            for k, v in self.entry.env.items():
                if isinstance(v, V) and v.ty != PYOBJ and v.t is not None:
                    d[k] = (v.ty, v.t)
        return d

    def has_quant(self, t):
        cache = self.__dict__.setdefault("_hq", {})
        k = t.get_id()
        hit = cache.get(k)
        if hit is not None and hit[0].eq(t):
            return hit[1]
        if z3.is_quantifier(t):
            r = True
        else:
            r = any(self.has_quant(c) for c in t.children()) if z3.is_app(t) else False
        cache[k] = (t, r)
        return r

    def feasible(self, st):
        """Path pruning only: `unsat` prunes, anything else keeps the path. Quantified facts are
        left out (dropping hypotheses can only keep more paths), which keeps this query cheap."""
        self.fs.push()
        try:
            for p in st.pc:
                if not self.has_quant(p):
                    self.fs.add(p)
            r = self.fs.check()
        finally:
            self.fs.pop()
        return r != z3.unsat

    # ------------------------------------------------------------------- heap
    def field_ty(self, cls, fld):
        if cls == "Future":
            if fld in FUTURE_FIELDS:
                return FUTURE_FIELDS[fld]
            raise Unsupported("Future field %s" % fld)
        cm = C.CLASSES.get(cls)
        if cm is None:
            raise Unsupported("no class model for %s" % cls)
        if fld not in cm.fields:
            raise Unsupported("class model %s has no field %s (line %s)" % (cls, fld, self.cur_line))
        return cm.fields[fld]

    def hmap0(self, cls, fld, ty):
        k = (cls, fld)
        if k not in self.heap0:
            self.heap0[k] = (z3.Const("H_%s_%s" % (cls, fld.replace(":", "_").replace("<", "_").replace(">", "_").replace(",", "_")),
                                      z3.ArraySort(z3.IntSort(), ty.sort())), ty)
            inner = ty.inner if isinstance(ty, Opt) else ty
            if isinstance(inner, Ref):
                # heap well-formedness at entry: every reference stored in a field denotes an object
                # that already exists (or None)
                r = z3.FreshConst(z3.IntSort(), "r")
                lo = 0 if isinstance(ty, Opt) else 1
                m = self.heap0[k][0]
                self.axioms.append(z3.ForAll([r], z3.And(z3.Select(m, r) >= lo, z3.Select(m, r) < z3.Int("nalloc0"))))
            if isinstance(inner, List) or inner == BYTES:
                # ... and every list stored in a field has a non-negative length
                r = z3.FreshConst(z3.IntSort(), "r")
                m = self.heap0[k][0]
                el = V(ty, z3.Select(m, r))
                ln = T.list_len(T.opt_val(el)) if isinstance(ty, Opt) else T.list_len(el)
                self.axioms.append(z3.ForAll([r], ln >= T.intval(0).t))
        return self.heap0[k][0]

    def hmap(self, st, cls, fld, ty=None):
        k = (cls, fld)
        if k in st.heap:
            return st.heap[k]
        ty = ty or self.field_ty(cls, fld)
        return self.hmap0(cls, fld, ty)

    def hread(self, st, ref_t, cls, fld, ty=None):
        ty = ty or self.field_ty(cls, fld)
        v = V(ty, z3.Select(self.hmap(st, cls, fld, ty), ref_t), lv=("field", cls, fld, ref_t, ty))
        self.assume_valid(st, v)
        return v

    def deref_dictlike(self, st, v):
        """A reference to an object the class model declares dict-like (`CLASSES[cls].dict_field = "<field>"`: a plain
        dict shared by reference, e.g. the {tp: offset} dict a pending transactional offset commit carries) stands for
        the dict held in that field: subscripts, `in`, `del`, truth value and len() go through it, writes land in the
        heap and are therefore seen through every other reference to the same object."""
        ty = v.ty
        if isinstance(ty, Ref) and ty.cls in C.CLASSES and getattr(C.CLASSES[ty.cls], "dict_field", None):
            return self.hread(st, v.t, ty.cls, C.CLASSES[ty.cls].dict_field)
        return v

    def hwrite(self, st, ref_t, cls, fld, v, ty=None, check_frame=True):
        ty = ty or self.field_ty(cls, fld)
        cv = self.coerce_to(st, v, ty, fld)
        if cv is None:
            raise Unsupported("cannot store %s into %s.%s : %s (line %s)" % (v.ty, cls, fld, ty, self.cur_line))
        if check_frame and not self.spec:
            self.frame_check(st, ref_t, cls, fld)
        st.heap[(cls, fld)] = z3.Store(self.hmap(st, cls, fld, ty), ref_t, cv.t)

    def coerce_to(self, st, v, ty, what="value"):
        """T.coerce plus narrowing: an Optional value flows into a non-optional slot when the path
        guarantees it is not None (an obligation), component-wise through tuples."""
        cv = T.coerce(v, ty)
        if cv is not None:
            return cv
        if isinstance(v.ty, Opt) and not isinstance(ty, Opt):
            ci = self.coerce_to(st, T.opt_val(v), ty, what)
            if ci is not None:
                if not self.spec:
                    self.oblige(st, "none", "narrow-" + what, z3.Not(T.opt_is_none(v)))
                return ci
        if isinstance(v.ty, Tup) and isinstance(ty, Tup) and len(v.ty.items) == len(ty.items):
            parts = [self.coerce_to(st, T.tup_get(v, i), ty.items[i], what) for i in range(len(ty.items))]
            if all(p is not None for p in parts):
                return T.tup_mk(ty, parts)
        return None

    def alloc(self, st, cls):
        r = st.nalloc
        st.nalloc = st.nalloc + 1
        st.flags["fresh"] = st.flags.get("fresh", []) + [r]       # allocated by this activation (frame)
        if hasattr(r, "get_id"):
            kinds = dict(st.flags.get("fresh_cls", {}))
            kinds[r.get_id()] = cls                               # the class it was allocated as (references are untyped ints)
            st.flags["fresh_cls"] = kinds
        st.flags["recent"] = st.flags.get("recent", []) + [r]     # ... since the last havoc boundary
        return r

    def is_fresh(self, st, ref_t):
        return z3.Or([ref_t == r for r in st.flags.get("fresh", [])]) if st.flags.get("fresh") else z3.BoolVal(False)

    def alloc_boundary(self, st):
        """Something else may have allocated (a callee, another task): the allocation frontier
        moves to an unknown later point and everything now stored in the heap lies below it."""
        na = z3.FreshConst(z3.IntSort(), "nalloc")
        st.assume(na >= st.nalloc)
        st.nalloc = na
        st.flags["base"] = na
        st.flags["recent"] = []
        # values that appeared in the heap through a havoc are well-formed w.r.t. the new frontier
        for ty, term, whole in st.flags.get("pending_valid", []):
            if whole:
                r = z3.FreshConst(z3.IntSort(), "r")
                lo = 0 if isinstance(ty, Opt) else 1
                st.assume(z3.ForAll([r], z3.And(z3.Select(term, r) >= lo, z3.Select(term, r) < na)))
            else:
                st.assume(self.ref_valid(st, term, optional=isinstance(ty, Opt)))
        st.flags["pending_valid"] = []

    def pending_valid(self, st, ty, term, whole_map):
        inner = ty.inner if isinstance(ty, Opt) else ty
        if isinstance(inner, Ref):
            st.flags["pending_valid"] = st.flags.get("pending_valid", []) + [(ty, term, whole_map)]

    def ref_valid(self, st, t, optional=False):
        """A reference found in the heap is an object that existed at the last boundary or one
        this activation allocated since."""
        base = st.flags.get("base", self.entry.nalloc if self.entry is not None else st.nalloc)
        alts = [z3.And(t > 0, t < base)] + [t == r for r in st.flags.get("recent", [])]
        if optional:
            alts.append(t == 0)
        return z3.Or(alts)

    def assume_valid(self, st, v):
        """Heap well-formedness: references read from the heap denote allocated objects."""
        if self.spec:
            return
        ty = v.ty
        if isinstance(ty, Ref):
            st.assume(self.ref_valid(st, v.t))
            self.assume_cheap_inv(st, v)
        elif isinstance(ty, Opt) and isinstance(ty.inner, Ref):
            st.assume(self.ref_valid(st, v.t, optional=True))
        elif ty == EXC:
            self.exc_id("Exception")
            st.assume(z3.And(v.t > 0, v.t <= max(self.exc["ids"].values())))
        elif isinstance(ty, Opt) and ty.inner == EXC:
            # an optional exception (encoded 0 = None) read from the heap is None or some exception class of the table
            self.exc_id("Exception")
            st.assume(z3.And(v.t >= 0, v.t <= max(self.exc["ids"].values())))
        elif isinstance(ty, List) or ty == BYTES:
            st.assume(self.len_wf(T.list_len(v)))
        elif isinstance(ty, Opt) and (isinstance(ty.inner, List) or ty.inner == BYTES):
            st.assume(z3.Or(T.opt_is_none(v), self.len_wf(T.list_len(T.opt_val(v)))))
        elif isinstance(ty, Tup):
            for i, it in enumerate(ty.items):
                if isinstance(it, (Ref, List, Tup)) or it == BYTES or isinstance(it, Opt):
                    self.assume_valid(st, T.tup_get(v, i))

    def assume_cheap_inv(self, st, v):
        """Quantifier-free object invariants of an object just read from the heap (visible-state
        semantics; the quantified ones are assumed when the object is used as a receiver)."""
        cm = C.CLASSES.get(v.ty.cls)
        if cm is None or self.entry is None or getattr(self, "_in_cheap", False):
            return
        if self.c.self_cls == v.ty.cls and "self" in self.entry.env and v.t.eq(self.entry.env["self"].t):
            return                  # our own invariant may be temporarily broken
        self._in_cheap = True
        try:
            for lbl, e in list(cm.invariants) + list(cm.assumed):
                if "forall" in e or "exists" in e:
                    continue
                if (lbl, e) in cm.assumed:
                    self.trusted_used.add("assumed invariant of %s (%s): %s" % (cm.name, lbl, e))
                st.assume(self.spec_bool(e, st, extra={"self": v}, old=st))
        finally:
            self._in_cheap = False

    def len_wf(self, ln):
        """A container length is a non-negative Py_ssize_t."""
        if T.mode() == "bv" and T.width() > 64:
            return z3.And(ln >= 0, ln < (1 << 63))
        return ln >= T.intval(0).t

    # frame ---------------------------------------------------------------
    def frame_check(self, st, ref_t, cls, fld):
        """Every heap write must be to a location the contract's modifies clause names,
        or to an object allocated by this very activation."""
        cm = C.CLASSES.get(cls)
        if cm is not None and cm.invariants and self.c.self_cls != cls and fld in cm.inv_fields():
            # a field an object invariant of `cls` depends on may only be written by methods of `cls`
            # (or on an object this activation has just created)
            self.oblige(st, "inv-frame", "%s.%s" % (cls, fld), self.is_fresh(st, ref_t), assume=False)
        allowed = [self.is_fresh(st, ref_t)]
        for loc in self.c.modifies_:
            a = self.loc_matches(st, loc, ref_t, cls, fld)
            if a is not None:
                allowed.append(a)
        g = z3.simplify(z3.Or(allowed))
        self.oblige(st, "frame", "%s.%s" % (cls, fld), g, assume=False)

    def loc_matches(self, st, loc, ref_t, cls, fld):
        """loc forms: 'Class.field' (any object), 'Class.*', 'expr.field', 'expr.*'."""
        head, _, f = loc.rpartition(".")
        if f != "*" and f != fld and not (fld.startswith("res:") and f == "res"):
            return None
        if head in C.CLASSES or head == "Future":
            return z3.BoolVal(True) if head == cls else None
        old = self.entry
        self.spec += 1
        try:
            outs = self.ev(ast.parse(head, mode="eval").body, old.copy())
        finally:
            self.spec -= 1
        _, hv = outs[0]
        ty = hv.ty.inner if isinstance(hv.ty, Opt) else hv.ty
        if not isinstance(ty, Ref) or ty.cls != cls:
            return None
        return ref_t == hv.t

    # ------------------------------------------------------------- truthiness
    def truthy(self, st, v):
        v = self.deref_dictlike(st, v)
        ty = v.ty
        if ty == BOOL:
            return v.t
        if ty == INT:
            return v.t != T.intval(0).t
        if ty == REAL:
            return v.t != 0
        if ty == NONE:
            return z3.BoolVal(False)
        if isinstance(ty, Opt):
            return z3.And(z3.Not(T.opt_is_none(v)), self.truthy(st, T.opt_val(v)))
        if isinstance(ty, (List,)) or ty == BYTES:
            return T.list_len(v) != T.intval(0).t
        if isinstance(ty, Set):
            return v.t != z3.K(ty.elem.sort(), False)
        if isinstance(ty, Dict):
            return T.dict_dom(v) != z3.K(ty.k.sort(), False)
        if isinstance(ty, (Ref, Enum, Tup)) or ty == EXC:
            return z3.BoolVal(True)
        if isinstance(ty, Opaque):
            f = z3.Function("truthy_" + ty.name, ty.sort(), z3.BoolSort())
            return f(v.t)
        if ty == PYOBJ:
            return z3.BoolVal(True)
        raise Unsupported("truthiness of %s" % ty)

    # --------------------------------------------------------------- equality
    def eq(self, st, a, b):
        if a.ty == NONE and b.ty == NONE:
            return z3.BoolVal(True)
        if self.spec and a.ty != NONE and b.ty != NONE:
            ia = a.ty.inner if isinstance(a.ty, Opt) else a.ty
            ib = b.ty.inner if isinstance(b.ty, Opt) else b.ty
            if ia != ib and (isinstance(ia, T.Opaque) or isinstance(ib, T.Opaque)) and PYOBJ not in (ia, ib):
                # a clause compares a value the model keeps opaque (e.g. an application object) with a modelled one: they
                # may or may not be the same object - an unconstrained boolean, the witness search decides on the real code
                return z3.FreshConst(z3.BoolSort(), "eq_with_opaque_value")
        if a.ty == NONE:
            a, b = b, a
        if b.ty == NONE:
            if isinstance(a.ty, Opt):
                return T.opt_is_none(a)
            return z3.BoolVal(False)
        if isinstance(a.ty, Opt) and not isinstance(b.ty, Opt):
            cb = T.coerce(b, a.ty.inner) or b
            if cb.ty != a.ty.inner:
                raise Unsupported("== between %s and %s (line %s)" % (a.ty, b.ty, self.cur_line))
            return z3.And(z3.Not(T.opt_is_none(a)), self.eq(st, T.opt_val(a), cb))
        if isinstance(b.ty, Opt) and not isinstance(a.ty, Opt):
            return self.eq(st, b, a)
        if a.ty == b.ty and a.ty != PYOBJ:
            return a.t == b.t
        if {a.ty, b.ty} <= {INT, BOOL, REAL}:
            x = T.coerce(a, REAL if REAL in (a.ty, b.ty) else INT)
            y = T.coerce(b, REAL if REAL in (a.ty, b.ty) else INT)
            return x.t == y.t
        if a.ty == PYOBJ and b.ty == PYOBJ and "typeof" in (a.t.kind, b.t.kind):
            # type(x) is SomeClass: decided by the class model; a model may declare a discriminating ghost field
            # for real classes that share one model (CLASSES[cls].type_tests = {"RealName": "expr over self"})
            tv, cv = (a.t, b.t) if a.t.kind == "typeof" else (b.t, a.t)
            x = tv.of
            xty = x.ty.inner if isinstance(x.ty, Opt) else x.ty
            cname = getattr(cv, "name", None)
            if isinstance(xty, Ref) and cname:
                cm = C.CLASSES.get(xty.cls)
                tests = getattr(cm, "type_tests", {}) if cm else {}
                if cname in tests:
                    return self.truthy(st, self.spec_eval(tests[cname], st, extra={"self": x}, old=st))
                real = (cm.real or "").split(":")[-1] if cm else ""
                return z3.BoolVal(real == cname or xty.cls == cname)
            raise Unsupported("type(%s) is %r" % (x.ty, cname))
        if a.ty == PYOBJ and b.ty == PYOBJ:
            return z3.BoolVal(a.t is b.t or (getattr(a.t, "kind", None) == getattr(b.t, "kind", 0)
                                            and a.t.__dict__ == b.t.__dict__))
        if isinstance(a.ty, Ref) and isinstance(b.ty, Ref):
            return a.t == b.t
        if self.spec and {type(a.ty), type(b.ty)} <= {Ref, Fut, type(INT)} and (a.ty == INT or b.ty == INT):
            return a.t == b.t          # specs may quantify over object identities as integers
        if self.spec and (PYOBJ in (a.ty, b.ty) or isinstance(a.ty, T.Opaque) or isinstance(b.ty, T.Opaque)):
            # a clause compares a modelled value with one the model knows nothing about (an attribute outside the class
            # model): not decidable from the model, so an unconstrained boolean - the clause cannot be discharged through it,
            # and the witness search decides on the real code
            return z3.FreshConst(z3.BoolSort(), "eq_with_unmodelled_value")
        raise Unsupported("== between %s and %s (line %s)" % (a.ty, b.ty, self.cur_line))

    # ------------------------------------------------------------- exceptions
    def exc_id(self, name):
        from .source import exception_hierarchy
        if self.exc is None:
            self.exc = exception_hierarchy()
        if name not in self.exc["ids"]:
            raise Unsupported("unknown exception class %s" % name)
        return self.exc["ids"][name]

    def exc_is(self, exc_t, name):
        """z3 bool: class id exc_t denotes `name` or a subclass."""
        self.exc_id(name)
        subs = [i for n, i in self.exc["ids"].items() if name in self.exc["anc"].get(n, {n})]
        return z3.Or([exc_t == i for i in subs])

    def raise_(self, st, name, line=None):
        """Record an exceptional outcome for the enclosing statement."""
        if self.spec:
            return
        self.raises_stack[-1].append(Out("raise", st, V(EXC, z3.IntVal(self.exc_id(name)))))

    def fork_raise(self, st, cond, name):
        """Fork: a path raising `name` when cond, and continue under Not(cond)."""
        if self.spec or self.no_oblige:
            return
        c = z3.simplify(cond)
        if z3.is_false(c):
            return
        s2 = st.copy().assume(c)
        if self.feasible(s2):
            self.raise_(s2, name)
        st.assume(z3.Not(c))
