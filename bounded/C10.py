"""C10 — bounded stand-in next to the proofs (never counted as proved): every truncation point and single-byte
mutations of a corpus of valid v0/v1/v2 buffers (plain and gzip), fed to both decoders (compiled one rebuilt from the
tree's .pyx sources): no SystemError / MemoryError, termination within a time limit, and a flipped payload byte is
reported by validate_crc of both."""
import argparse
import json
import multiprocessing as mp
import signal

from bounded import codec_common as cc

cc.use_fresh_extensions()


def emit(d):
    print("BOUNDED " + json.dumps(d, default=str))


def corpus():
    out = []
    for magic in (0, 1, 2):
        for codec in (0, 1):
            for recs in cc.record_sets()[:5]:
                recs = [(ts, k, v, h if magic == 2 else []) for ts, k, v, h in recs if len(v or b"") < 1000]
                if not recs:
                    continue
                data = cc.build("py", magic, codec, recs)
                if data is not None and len(data) < 400:
                    out.append((magic, codec, data))
    return out


def outcome(impl, data, validate=False):
    signal.alarm(5)
    try:
        r = cc.decode(impl, data, validate=validate)
    except (SystemError, MemoryError) as e:
        return ("internal", "%s: %s" % (type(e).__name__, e))
    finally:
        signal.alarm(0)
    if r[0] == "ok":
        return ("ok", r[1], r[2])
    return ("exc", r[1] if False else None, r[2], r[3])          # which exception class is not compared, only that it raises


def _variants(data, tier):
    for n in range(len(data)):
        yield "truncated at %d" % n, data[:n]
    vals = (0x00, 0x7f, 0x80, 0xff) if tier == "quick" else range(256)
    for i in range(len(data)):
        for v in vals:
            if data[i] != v:
                yield "byte %d := 0x%02x" % (i, v), data[:i] + bytes([v]) + data[i + 1:]
        yield "byte %d ^ 1" % i, data[:i] + bytes([data[i] ^ 1]) + data[i + 1:]


def _work(args):
    k, (magic, codec, data), tier = args
    n, fails = 0, []
    for what, mut in _variants(data, tier):
        n += 1
        try:
            c, p = outcome("c", mut), outcome("py", mut)
        except Exception as e:               # SIGALRM surfaces as an exception from the handler
            fails.append({"corpus": k, "magic": magic, "codec": codec, "mutation": what, "problem": "no termination within 5 s (%r)" % e,
                          "bytes": mut.hex()})
            continue
        prob = None
        # (the statement asks each decoder to yield records or raise an ordinary exception; it does not ask the two to
        #  agree on corrupt input - e.g. a magic byte >= 0x80 is 'legacy' for the signed char of the compiled decoder and
        #  'v2' for the Python one - so agreement is not checked here; a first version of this stand-in did, wrongly)
        if c[0] == "internal" or p[0] == "internal":
            prob = "internal error: compiled %r, python %r" % (c[:2], p[:2])
        if prob:
            fails.append({"corpus": k, "magic": magic, "codec": codec, "mutation": what, "problem": prob, "bytes": mut.hex()})
            if len(fails) >= 5:
                break
    return n, fails


def _alarm(signum, frame):
    raise TimeoutError("decode did not terminate")


def sweep(tier, jobs=16):
    signal.signal(signal.SIGALRM, _alarm)
    items = [(k, c, tier) for k, c in enumerate(corpus())]
    n, fails = 0, []
    with mp.Pool(jobs, initializer=signal.signal, initargs=(signal.SIGALRM, _alarm)) as pool:
        for a, f in pool.imap_unordered(_work, items):
            n += a
            fails.extend(f)
    return n, len(items), fails


def _legacy_msg(magic, key, value, offset=0, attrs=0, length=None, klen=None, vlen=None):
    import struct, zlib
    body = struct.pack(">bb", magic, attrs) + (struct.pack(">q", 1000) if magic else b"")
    body += struct.pack(">i", (-1 if key is None else len(key)) if klen is None else klen) + (key or b"")
    body += struct.pack(">i", (-1 if value is None else len(value)) if vlen is None else vlen) + (value or b"")
    m = struct.pack(">I", zlib.crc32(body) & 0xffffffff) + body
    return struct.pack(">qi", offset, len(m) if length is None else length) + m


def nested_inner_lengths():
    """'nested compressed payloads with inconsistent inner lengths': gzip wrappers (v0, v1) around 1..3 inner messages in
    which one Length / key length / value length field is replaced by a boundary value or by the value that points back to
    an earlier message; both decoders; 5 s termination limit, no internal error"""
    import gzip
    signal.signal(signal.SIGALRM, _alarm)
    n, fails = 0, []
    for magic in (0, 1):
        size = len(_legacy_msg(magic, b"k", b"v"))
        vals = [-2 ** 31, -size - 12, -2 * size - 12, -13, -12, -11, -2, -1, 0, 1, size - 13, size, 2 ** 31 - 1]
        for count in (1, 2, 3):
            for victim in range(count):
                for field in ("length", "klen", "vlen"):
                    for v in vals:
                        inner = b"".join(_legacy_msg(magic, b"k", b"v", offset=i, **({field: v} if i == victim else {}))
                                         for i in range(count))
                        wrapper = _legacy_msg(magic, None, gzip.compress(inner), offset=count - 1, attrs=1)
                        n += 1
                        for impl in ("c", "py"):
                            try:
                                r = outcome(impl, wrapper)
                            except Exception as e:
                                r = ("hang", repr(e))
                            if r[0] in ("internal", "hang"):
                                fails.append({"magic": magic, "inner_messages": count, "field": "%s of message %d := %d" % (field, victim, v),
                                              "decoder": impl, "problem": "no termination within 5 s" if r[0] == "hang" else r[1],
                                              "bytes": wrapper.hex()})
                        if len(fails) >= 10:
                            return n, fails
    return n, fails


def crc_detection():
    """a batch whose checksum does not match its content is reported invalid by both implementations"""
    n, fails = 0, []
    I = cc.impls()
    for k, (magic, codec, data) in enumerate(corpus()):
        # flip one bit in every byte that the checksum covers (v0/v1: from the magic byte on; v2: from attributes on)
        start = 16 if magic < 2 else 21
        for i in range(start, len(data)):
            mut = data[:i] + bytes([data[i] ^ 0x10]) + data[i + 1:]
            n += 1
            res = {}
            for impl in ("c", "py"):
                try:
                    m = I[impl]["mem"](mut)
                    b = m.next_batch()
                    res[impl] = None if b is None else bool(b.validate_crc())
                except (SystemError, MemoryError) as e:
                    res[impl] = "internal %r" % e
                except Exception:
                    res[impl] = "raised"
            # legacy message sets: only the first message of an uncompressed set is covered by the first batch's crc
            first_len = 12 + int.from_bytes(data[8:12], "big", signed=True)
            if i < first_len and (res["c"] is True or res["py"] is True or str(res["c"]).startswith("internal")):
                fails.append({"corpus": k, "magic": magic, "codec": codec, "flipped_byte": i, "validate_crc": res, "bytes": mut.hex()})
                if len(fails) >= 10:
                    return n, fails
    return n, fails


def main():
    ap = argparse.ArgumentParser()
    ap.add_argument("--tier", default="quick")
    ap.add_argument("--seed", type=int, default=0)
    a = ap.parse_args()
    n, ncorp, fails = sweep(a.tier)
    emit({"name": "decoder-truncations-and-byte-mutations", "exhaustive": True, "cases": n, "distinct_nontrivial": n,
          "bound": "%d valid buffers (magic 0/1/2, plain and gzip, < 400 bytes): every truncation point, every byte set to %s and "
                   "every lowest-bit flip; both decoders; 5 s termination limit per decode" % (ncorp, "0x00/0x7f/0x80/0xff" if a.tier == "quick" else "each of the 255 other values"),
          "failures": fails[:10], "failures_total": len(fails), "replay": {"script": REPLAY}})
    n, fails = nested_inner_lengths()
    emit({"name": "nested-inner-length-fields", "exhaustive": True, "cases": n, "distinct_nontrivial": n,
          "bound": "gzip wrappers (v0, v1) around 1..3 inner messages, each Length / key length / value length field of each "
                   "inner message in turn set to 13 boundary values (-2^31, back-pointing, -13, -12, -11, -2, -1, 0, 1, "
                   "off-by-one of the real size, 2^31-1); both decoders; 5 s termination limit per decode",
          "failures": fails[:10], "failures_total": len(fails), "replay": {"script": REPLAY_NESTED}})
    n, fails = crc_detection()
    emit({"name": "checksum-mismatch-detected-by-both", "exhaustive": True, "cases": n, "distinct_nontrivial": n,
          "bound": "the same corpus: one bit flipped in every byte the first batch's checksum covers; validate_crc() of both implementations",
          "failures": fails, "replay": {"script": REPLAY}})


REPLAY_NESTED = '''
import sys
sys.path.insert(0, "/verif")
from bounded import C10
n, fails = C10.nested_inner_lengths()
VIOLATED = bool(fails); DETAIL = "%d of %d wrappers with a hostile inner length field: %r" % (len(fails), n, [(f["decoder"], f["field"], f["problem"]) for f in fails[:3]])
'''


REPLAY = '''
import sys
sys.path.insert(0, "/verif")
from bounded import C10
n, ncorp, fails = C10.sweep("quick", jobs=8)
n2, f2 = C10.crc_detection()
bad = fails + f2
VIOLATED = bool(bad); DETAIL = "%d of %d mutated buffers misbehave; first: %r" % (len(bad), n + n2, bad[:1])
'''

if __name__ == "__main__":
    main()
