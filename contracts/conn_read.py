"""C12 / C19 — aiokafka/conn.py: the reader task of a connection (AIOKafkaConnection._read) and the done-callback that
closes the connection when it ends (_on_read_task_error).

C12: "A ... malformed frame or transport loss closes the connection and fails every outstanding waiter ... none is left
pending". The mechanism is a pair: _read leaves every transport loss (EOF at any byte, reset) and every malformed frame as
an exception of its task, and _on_read_task_error turns any such exception into close(CONNECTION_BROKEN). So _read may
end *normally* only when the connection object itself is gone (the weak reference is dead): a quiet normal return while
the connection is alive would leave it open, with its waiters pending."""
import z3
from pyvc import ty as T
from pyvc.contract import contract, classmodel, specfn, SPEC_TYPES
from pyvc.ty import V, INT, BOOL, REAL, STR, NONE, EXC, BYTES, Opt, Tup, List, Set, Dict, Ref, Opaque
from pyvc.exec_base import Fut
from . import conn as CN

MOD = CN.MOD
classmodel("WeakRef", {})
OCONN = Opt(Ref("Conn"))


@specfn("no_conn")
def no_conn(ex, st):
    return T.opt_none(OCONN)


@contract(MOD + ":AIOKafkaConnection._read", ["C12", "C19"])
def _(c):
    c.param("self_ref", Ref("WeakRef"))
    c.none_raises = True
    c.ghost("$last", OCONN, "no_conn()")          # what the weak reference gave the last time it was asked
    c.call("self_ref", returns=OCONN, ghost={"$last": "result"},
           note="weakref call: the connection object, or None once it has been garbage collected")
    c.call("reader.readexactly", returns=BYTES, havoc_all=True, raises=["IncompleteReadError", "OSError", "CancelledError", "ValueError"],
           post=["len(result) == a0"],
           note="StreamReader.readexactly(n): suspends; n bytes, or IncompleteReadError at EOF / OSError on reset / ValueError for n < 0")
    c.call("struct.unpack", returns=Tup(INT), note="struct.unpack('>i', 4 bytes): one big-endian int32")
    c.call("self._handle_frame", havoc_all=False, raises=["Exception"],
           modifies=["Conn._writer", "Conn._reader", "Conn._read_task", "Conn._requests", "Conn._on_close_cb", "Conn.g_closes",
                     "Conn._last_action", "Future.state", "Future.nres", "Future.exc", "Future.res", "Handle.cancelled"],
           note="AIOKafkaConnection._handle_frame (under contract, conn.py): completes the head waiter or closes the "
                "connection on a correlation mismatch; raises on an unsolicited or malformed frame")
    c.modifies("Conn._writer", "Conn._reader", "Conn._read_task", "Conn._requests", "Conn._on_close_cb", "Conn.g_closes",
               "Conn._last_action", "Future.state", "Future.nres", "Future.exc", "Future.res", "Handle.cancelled")
    c.raises("transport-loss-malformed-frame-or-cancelled", "BaseException")
    c.loop(0, header="while True", invariants=[])
    # "for any fragmentation of the incoming byte stream": a frame is the 4-byte size prefix and then exactly that many
    # bytes, however the transport chunks them (readexactly); that body, whole and alone, is what gets dispatched
    c.hook("before", "self._handle_frame", [
        ("assert", "dispatches-exactly-the-body-the-size-prefix-announced", "a0 == resp and len(a0) == size"),
        ("assert", "dispatches-to-the-live-connection", "$last is not None and self == $last"),
    ])
    c.ensures_internal("ends-quietly-only-when-the-connection-object-is-gone", "$last is None")
    c.replay_fn = lambda model, ob=None: {"script": _READ_SCRIPT}


@contract(MOD + ":AIOKafkaConnection._on_read_task_error", ["C12", "C19"])
def _(c):
    """done-callback of the reader task: whatever ended the reader (EOF, reset, malformed or unsolicited frame) closes
    the connection as broken, which fails every outstanding waiter (close contract, conn.py)"""
    c.param("cls", Ref("RespClass"))              # the class object: unused
    c.param("self_ref", Ref("WeakRef"))
    c.param("read_task", Fut(NONE))
    c.requires("read_task.done()", "callback-runs-when-the-task-is-done")
    c.ghost("$last", OCONN, "no_conn()")
    c.ghost("$asked", BOOL, "False")
    c.ghost("$closed_as_broken", BOOL, "False")
    c.call("self_ref", returns=OCONN, ghost={"$last": "result", "$asked": "True"},
           note="weakref call: the connection object, or None once it has been garbage collected")
    c.call("self.close", returns=Opt(Fut(NONE)), raises=[],
           modifies=["Conn._writer", "Conn._reader", "Conn._read_task", "Conn._requests", "Conn._on_close_cb", "Conn.g_closes",
                     "Future.state", "Future.nres", "Future.exc", "Handle.cancelled"],
           note="AIOKafkaConnection.close (under contract, conn.py: fails every pending waiter with KafkaConnectionError)")
    c.modifies("Conn._writer", "Conn._reader", "Conn._read_task", "Conn._requests", "Conn._on_close_cb", "Conn.g_closes",
               "Future.state", "Future.nres", "Future.exc", "Handle.cancelled")
    c.raises("reader-ended-with-a-base-exception", "BaseException")
    c.never_raises("Exception")         # an ordinary error of the reader is handled here, it never escapes the callback
    c.replay_fn = lambda model, ob=None: {"script": _READ_SCRIPT}
    c.hook("before", "self.close", [
        ("assert", "closed-as-a-broken-connection-with-the-readers-error",
         "kw_reason == CloseReason.CONNECTION_BROKEN and kw_exc == read_task.exception()"),
        ("set", "$closed_as_broken", "True"),
    ])
    c.ensures_internal("a-reader-that-ended-with-an-error-closes-the-live-connection",
                       "implies(old(read_task.exception()) is not None and is_exc(old(read_task.exception()), Exception),"
                       " $asked and ($last is None or $closed_as_broken))")


# replay: a real AIOKafkaConnection over an in-memory StreamReader; three pipelined requests, the first answered, then EOF
# after k further bytes of the next response (k = 0 is EOF exactly on a frame boundary): every outstanding waiter must
# fail with a connection error
_READ_SCRIPT = '''
import asyncio, struct, logging
logging.disable(logging.CRITICAL)
from unittest import mock
from aiokafka.conn import AIOKafkaConnection
from aiokafka.protocol.metadata import MetadataRequest_v0, MetadataResponse_v0
from aiokafka import errors as Errors

async def scenario(k):
    conn = AIOKafkaConnection(host="h", port=9092, request_timeout_ms=40000)
    reader = asyncio.StreamReader()
    writer = mock.MagicMock()
    conn._reader, conn._writer = reader, writer
    conn._versions = {3: (0, 0)}
    closed = []
    conn._on_close_cb = lambda c, reason=None: closed.append(reason)
    conn._read_task = conn._create_reader_task()
    from aiokafka.protocol.metadata import MetadataRequest
    futs = [asyncio.ensure_future(conn.send(MetadataRequest([]))) for _ in range(3)]
    await asyncio.sleep(0)
    def frame(cid):
        body = struct.pack(">i", cid) + MetadataResponse_v0([], []).encode()
        return struct.pack(">i", len(body)) + body
    cids = [r[0] for r in conn._requests]
    reader.feed_data(frame(cids[0]))
    await asyncio.sleep(0.01)
    reader.feed_data(frame(cids[1])[:k])
    reader.feed_eof()
    await asyncio.sleep(0.05)
    pending = [i for i, f in enumerate(futs) if not f.done()]
    wrong = [i for i, f in enumerate(futs[1:], 1) if f.done() and not isinstance(f.exception(), Errors.KafkaConnectionError)]
    for f in futs:
        if not f.done():
            f.cancel()
    await asyncio.gather(*futs, return_exceptions=True)
    conn.close()
    if pending:
        return "EOF %d bytes into the next frame left waiter(s) %r pending (connection still open: %r)" % (k, pending, conn._reader is not None)
    if wrong:
        return "EOF %d bytes into the next frame: waiter(s) %r did not fail with a connection error" % (k, wrong)
    return None

async def main():
    bad = []
    for k in (0, 1, 3, 4, 6, 9):
        r = await scenario(k)
        if r:
            bad.append(r)
    return bad
bad = asyncio.run(main())
VIOLATED = bool(bad); DETAIL = repr(bad)
'''
