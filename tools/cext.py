#!/usr/bin/env python3
"""Builds the Cython extensions of a repo tree into a cache directory under /verif/.cache and prints the directory to
put first on sys.path (`<dir>/aiokafka` is a copy of the tree's package with freshly compiled extensions).

The compiled modules in /repo itself are ignored build artefacts that may be stale with respect to the .pyx sources;
replays and bounded stand-ins of the compiled decoders therefore always run on a build made from the *current* sources
of the tree they are about. The cache key is a hash of everything that goes into the build.

usage: tools/cext.py [repo]            (stdlib only: runs under any python; the build itself uses /venv/bin/python)"""
import hashlib
import os
import shutil
import subprocess
import sys

ROOT = os.path.dirname(os.path.dirname(os.path.abspath(__file__)))
CACHE = os.path.join(ROOT, ".cache", "cext")
VENV_PY = os.environ.get("PYVC_REPO_PYTHON", "/venv/bin/python")


def tree_hash(repo):
    h = hashlib.sha256()
    d = os.path.join(repo, "aiokafka", "record", "_crecords")
    for f in sorted(os.listdir(d)):
        if f.endswith((".pyx", ".pxd", ".pxi", ".h")) or f == "crc32c.c":
            h.update(f.encode())
            h.update(open(os.path.join(d, f), "rb").read())
    h.update(open(os.path.join(repo, "setup.py"), "rb").read())
    return h.hexdigest()[:16]


def py_hash(repo):
    """hash of every pure-Python file of the package: the cache directory holds a *copy* of the package, so a change of
    a .py file must select another directory (an earlier version keyed the cache by the native sources only and kept
    serving a stale copy of the Python files: seeded change C09-c, in default_records.py, was invisible)"""
    h = hashlib.sha256()
    root = os.path.join(repo, "aiokafka")
    for dp, dn, fns in sorted(os.walk(root)):
        dn.sort()
        for f in sorted(fns):
            if f.endswith(".py"):
                path = os.path.join(dp, f)
                h.update(os.path.relpath(path, root).encode())
                h.update(open(path, "rb").read())
    return h.hexdigest()[:12]


def ensure(repo="/repo", quiet=True):
    nkey = tree_hash(repo)
    key = nkey + "-" + py_hash(repo)
    out = os.path.join(CACHE, key)
    marker = os.path.join(out, ".built")
    if os.path.exists(marker):
        return out
    if os.path.exists(out):
        shutil.rmtree(out, ignore_errors=True)
    tmp_out = out + ".tmp%d" % os.getpid()
    final_out, out = out, tmp_out
    if os.path.exists(out):
        shutil.rmtree(out)
    os.makedirs(out)
    shutil.copytree(os.path.join(repo, "aiokafka"), os.path.join(out, "aiokafka"),
                    ignore=shutil.ignore_patterns("*.so", "__pycache__", "*.c.bak"))
    # same native sources already built for another state of the Python files: reuse the compiled modules
    sibling = None
    if os.path.isdir(CACHE):
        for d in sorted(os.listdir(CACHE)):
            if d.startswith(nkey + "-") and os.path.exists(os.path.join(CACHE, d, ".built")):
                sibling = os.path.join(CACHE, d)
                break
    if sibling is not None:
        sdir = os.path.join(sibling, "aiokafka", "record", "_crecords")
        ddir = os.path.join(out, "aiokafka", "record", "_crecords")
        sos = [f for f in os.listdir(sdir) if f.endswith(".so")]
        if sos:
            for f in sos:
                shutil.copy(os.path.join(sdir, f), ddir)
            open(os.path.join(out, ".built"), "w").write(repo + " (compiled modules reused from %s)\n" % os.path.basename(sibling))
            try:
                os.rename(out, final_out)
            except OSError:
                shutil.rmtree(out, ignore_errors=True)      # another process got there first
            return final_out
    # generated C files of an older build must not be reused
    cdir = os.path.join(out, "aiokafka", "record", "_crecords")
    for f in os.listdir(cdir):
        if f.endswith(".c") and f != "crc32c.c":
            os.remove(os.path.join(cdir, f))
    for f in ("setup.py", "pyproject.toml", "README.rst", "MANIFEST.in", "setup.cfg", "LICENSE", "CHANGES.rst"):
        p = os.path.join(repo, f)
        if os.path.exists(p):
            shutil.copy(p, out)
    env = dict(os.environ, CFLAGS=os.environ.get("PYVC_CFLAGS", "-O1 -g"))
    r = subprocess.run([VENV_PY, "setup.py", "build_ext", "--inplace", "-j", "4"], cwd=out, env=env,
                       stdout=subprocess.PIPE, stderr=subprocess.STDOUT, text=True)
    if r.returncode != 0:
        sys.stderr.write(r.stdout[-3000:])
        raise SystemExit("building the extensions of %s failed" % repo)
    open(os.path.join(out, ".built"), "w").write(repo + "\n")
    try:
        os.rename(out, final_out)
    except OSError:
        shutil.rmtree(out, ignore_errors=True)              # another process got there first
    # keep the cache small: the six most recent entries
    builds = sorted((os.path.getmtime(os.path.join(CACHE, d)), d) for d in os.listdir(CACHE) if ".tmp" not in d)
    for _, d in builds[:-6]:
        shutil.rmtree(os.path.join(CACHE, d), ignore_errors=True)
    return final_out


if __name__ == "__main__":
    print(ensure(sys.argv[1] if len(sys.argv) > 1 else os.environ.get("PYVC_REPO", "/repo")))
