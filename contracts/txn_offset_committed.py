"""C07 / C16 — aiokafka/producer/transaction_manager.py: TransactionManager.offset_committed.

The other methods of the manager are in transaction_manager.py. This one works on the dict a pending
send_offsets_to_transaction() entry carries, which is shared by reference with the request handler; the class model
OffsetsDict is declared dict-like, so `tp in pending_offsets`, `pending_offsets[tp]`, `del pending_offsets[tp]` and
`not pending_offsets` act on its heap field.

C07: "A read-committed reader sees ... all offset commits of a transaction whose commit_transaction() returned
successfully and none of a transaction that was aborted": whether EndTxn is sent at all is decided from
_txn_partitions / _txn_consumer_groups (is_empty_transaction; the hook in Sender._do_txn_commit). Acknowledging an
offset must therefore leave the fact "a consumer group is part of this transaction" alone; it only takes the
acknowledged offset off the pending entry and, with the last one, resolves the application's future."""
from pyvc.contract import contract, classmodel, specfn, SPEC_TYPES, CLASSES
from pyvc.ty import V, INT, BOOL, REAL, STR, NONE, EXC, BYTES, Opt, Tup, List, Set, Dict, Ref, Opaque
from pyvc.exec_base import Fut
from .common import TP
from .subscription_state import OAM
from . import transaction_manager as TMC

MOD = TMC.MOD
CLASSES["OffsetsDict"].fields["d"] = Dict(TP, OAM)
CLASSES["OffsetsDict"].dict_field = "d"
HEAD = "old(self._pending_txn_offsets)[0]"


@contract(MOD + ":TransactionManager.offset_committed", ["C07", "C16"])
def _(c):
    c.self_("TransactionManager")
    c.param("tp", TP)
    c.param("offset", INT)
    c.param("group_id", STR)
    c.index_raises = True
    c.requires("forall(lambda j: implies(0 <= j < len(self._pending_txn_offsets), not self._pending_txn_offsets[j][2].done()))",
               "pending-offset-futures-pending")
    c.modifies("self._pending_txn_offsets", "OffsetsDict.d", "Future.state", "Future.nres")
    c.raises("nothing-pending-or-not-the-pending-offset", "Exception",
             ensures=[("no-effect", "unchanged(self) and same_heap('OffsetsDict') and same_heap('Future')")])
    c.ensures("the-acknowledged-offset-leaves-the-pending-entry-and-nothing-else-does",
              "forall(TP, lambda q: (q in " + HEAD + "[1].d) == (q != tp and q in old(" + HEAD + "[1].d))"
              " and implies(q in " + HEAD + "[1].d, " + HEAD + "[1].d[q] == old(" + HEAD + "[1].d[q])))")
    c.ensures("the-entry-is-done-exactly-when-its-last-offset-is-acknowledged",
              "(forall(TP, lambda q: q not in " + HEAD + "[1].d)) == " + HEAD + "[2].done()"
              " and implies(" + HEAD + "[2].done(), len(self._pending_txn_offsets) == len(old(self._pending_txn_offsets)) - 1"
              " and forall(lambda j: implies(0 <= j < len(self._pending_txn_offsets),"
              " self._pending_txn_offsets[j] == old(self._pending_txn_offsets)[j + 1])))"
              " and implies(not " + HEAD + "[2].done(), self._pending_txn_offsets == old(self._pending_txn_offsets))")
    # frame (not in `modifies`): state, _txn_partitions, _pending_txn_partitions, _txn_consumer_groups, the waiters
    c.ensures("the-group-stays-part-of-the-transaction", "self._txn_consumer_groups == old(self._txn_consumer_groups)"
              " and self._txn_partitions == old(self._txn_partitions) and self.state == old(self.state)")
