#!/bin/sh
# usage: tools/with_patch.sh <patch.diff> <command...>
# Applies a patch to a scratch git worktree of /repo (never to /repo itself), runs the command
# with PYVC_REPO pointing at it, removes the worktree afterwards.
set -e
PATCH="$(readlink -f "$1")"; shift
W="$(mktemp -d /tmp/pyvc-wt.XXXXXX)"
git -C /repo worktree add --detach -f "$W" HEAD >/dev/null 2>&1
trap 'git -C /repo worktree remove --force "$W" >/dev/null 2>&1; rm -rf "$W"' EXIT
git -C "$W" apply "$PATCH"
PYVC_REPO="$W" "$@"
