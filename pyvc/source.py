"""Mechanical extraction of the functions under contract from /repo's working tree.

Nothing is copied into /verif: every run re-reads the file, finds the function by
qualified name and hands the *real* AST to the symbolic executor. What is dropped is
stated in DESIGN.md §1.2 (docstrings, annotations, logging calls, default-arg caches).
"""
import ast
import hashlib
import os

REPO = os.environ.get("PYVC_REPO", "/repo")


class SourceError(Exception):
    """The function under contract is gone / changed shape: exit 3, never a violation."""


_CACHE = {}


class Module:
    def __init__(self, dotted, repo=None):
        self.dotted = dotted
        self.repo = repo or REPO
        rel = dotted.replace(".", "/")
        cands = [rel + ".py", rel + "/__init__.py"]
        self.path = None
        for c in cands:
            p = os.path.join(self.repo, c)
            if os.path.exists(p):
                self.path = p
                break
        self.pyx_dropped = None
        if self.path is None and os.path.exists(os.path.join(self.repo, rel + ".pyx")):
            # a Cython module: translated mechanically to Python text on every run (pyvc/pyx.py states the subset)
            from . import pyx
            d = os.path.dirname(rel)
            names = sorted(f for f in os.listdir(os.path.join(self.repo, d)) if f.endswith((".pyx", ".pxd")))
            sigs = pyx.signatures(self.repo, [os.path.join(d, f) for f in names])
            self.path = os.path.join(self.repo, rel + ".pyx")
            try:
                self.text, self.pyx_dropped = pyx.translate(self.repo, rel + ".pyx", sigs)
            except pyx.PyxError as e:
                raise SourceError("cannot translate %s: %s" % (self.path, e))
        elif self.path is None:
            raise SourceError("module %s not found under %s" % (dotted, self.repo))
        else:
            self.text = open(self.path, encoding="utf-8").read()
        try:
            self.tree = ast.parse(self.text)
        except SyntaxError as e:
            raise SourceError("cannot parse %s: %s" % (self.path, e))
        self.lines = self.text.splitlines()
        self._scan()

    def _scan(self):
        self.consts = {}
        self.enums = {}
        self.classes = {}
        self.funcs = {}
        self.imports = {}
        for node in self.tree.body:
            self._scan_node(node)

    def _scan_node(self, node):
        if isinstance(node, ast.Assign) and len(node.targets) == 1 and isinstance(node.targets[0], ast.Name):
            v = _const_eval(node.value, self.consts)
            if v is not _NOCONST:
                self.consts[node.targets[0].id] = v
        elif isinstance(node, ast.AnnAssign) and isinstance(node.target, ast.Name) and node.value is not None:
            v = _const_eval(node.value, self.consts)
            if v is not _NOCONST:
                self.consts[node.target.id] = v
        elif isinstance(node, ast.ClassDef):
            self.classes[node.name] = node
            bases = [b.id if isinstance(b, ast.Name) else getattr(b, "attr", "?") for b in node.bases]
            if any(b in ("Enum", "IntEnum") for b in bases):
                mem = []
                for s in node.body:
                    if isinstance(s, ast.Assign) and len(s.targets) == 1 and isinstance(s.targets[0], ast.Name):
                        val = _const_eval(s.value, self.consts)
                        if val is not _NOCONST:
                            mem.append((s.targets[0].id, val))
                self.enums[node.name] = mem
        elif isinstance(node, (ast.FunctionDef, ast.AsyncFunctionDef)):
            self.funcs[node.name] = node
        elif isinstance(node, ast.ImportFrom):
            for a in node.names:
                self.imports[a.asname or a.name] = (node.module, a.name, node.level)
        elif isinstance(node, ast.Import):
            for a in node.names:
                self.imports[a.asname or a.name.split(".")[0]] = (a.name, None, 0)
        elif isinstance(node, (ast.If, ast.Try)):
            for sub in ast.iter_child_nodes(node):
                if isinstance(sub, ast.stmt):
                    self._scan_node(sub)

    def func(self, qual):
        """qual: 'f' or 'Class.f' or 'Class.Inner.f'."""
        parts = qual.split(".")
        scope = self.tree.body
        node = None
        for i, p in enumerate(parts):
            found = None
            for n in scope:
                if isinstance(n, (ast.ClassDef, ast.FunctionDef, ast.AsyncFunctionDef)) and n.name == p:
                    found = n       # last definition wins, like Python
            if found is None:
                raise SourceError("%s:%s not found (at %r)" % (self.dotted, qual, p))
            node = found
            scope = getattr(found, "body", [])
        if not isinstance(node, (ast.FunctionDef, ast.AsyncFunctionDef)):
            raise SourceError("%s:%s is not a function" % (self.dotted, qual))
        return node

    def class_attr_consts(self, cls):
        """Simple constant class attributes (API_KEY = 3, ...)."""
        out = {}
        node = self.classes.get(cls)
        if node is None:
            return out
        for s in node.body:
            if isinstance(s, ast.Assign) and len(s.targets) == 1 and isinstance(s.targets[0], ast.Name):
                v = _const_eval(s.value, self.consts)
                if v is not _NOCONST:
                    out[s.targets[0].id] = v
        return out

    def segment(self, node):
        return ast.get_source_segment(self.text, node) or ""

    def func_hash(self, node):
        return hashlib.sha256(ast.dump(node).encode()).hexdigest()[:16]


_NOCONST = object()


def _const_eval(node, env):
    try:
        if isinstance(node, ast.Constant):
            return node.value
        if isinstance(node, ast.Name) and node.id in env:
            return env[node.id]
        if isinstance(node, ast.UnaryOp) and isinstance(node.op, (ast.USub, ast.Invert, ast.UAdd)):
            v = _const_eval(node.operand, env)
            if isinstance(v, int):
                return {ast.USub: lambda x: -x, ast.Invert: lambda x: ~x, ast.UAdd: lambda x: x}[type(node.op)](v)
        if isinstance(node, ast.BinOp):
            a = _const_eval(node.left, env)
            b = _const_eval(node.right, env)
            if isinstance(a, int) and isinstance(b, int) and not isinstance(a, bool):
                ops = {ast.Add: lambda x, y: x + y, ast.Sub: lambda x, y: x - y, ast.Mult: lambda x, y: x * y,
                       ast.Pow: lambda x, y: x ** y if 0 <= y < 200 else _NOCONST,
                       ast.LShift: lambda x, y: x << y if 0 <= y < 200 else _NOCONST,
                       ast.RShift: lambda x, y: x >> y, ast.BitOr: lambda x, y: x | y,
                       ast.BitAnd: lambda x, y: x & y, ast.BitXor: lambda x, y: x ^ y,
                       ast.FloorDiv: lambda x, y: x // y if y else _NOCONST,
                       ast.Mod: lambda x, y: x % y if y else _NOCONST}
                f = ops.get(type(node.op))
                if f:
                    return f(a, b)
        if isinstance(node, ast.Tuple):
            vals = [_const_eval(e, env) for e in node.elts]
            if all(v is not _NOCONST for v in vals):
                return tuple(vals)
    except Exception:
        pass
    return _NOCONST


def module(dotted, repo=None):
    k = (dotted, repo or REPO)
    if k not in _CACHE:
        _CACHE[k] = Module(dotted, repo)
    return _CACHE[k]


def clear_cache():
    _CACHE.clear()


def exception_hierarchy(repo=None):
    """class name -> (id, set of ancestor names incl. itself, attrs) from aiokafka/errors.py
    plus the builtins the code in scope raises."""
    m = module("aiokafka.errors", repo)
    parents = {
        "BaseException": [], "Exception": ["BaseException"], "RuntimeError": ["Exception"],
        "AssertionError": ["Exception"], "ValueError": ["Exception"], "TypeError": ["Exception"],
        "KeyError": ["LookupError"], "IndexError": ["LookupError"], "LookupError": ["Exception"],
        "OSError": ["Exception"], "AttributeError": ["Exception"], "NotImplementedError": ["RuntimeError"],
        "StopIteration": ["Exception"], "StopAsyncIteration": ["Exception"],
        "CancelledError": ["BaseException"], "TimeoutError": ["OSError"], "InvalidStateError": ["Exception"],
        "EOFError": ["Exception"], "IncompleteReadError": ["EOFError"], "SystemError": ["Exception"], "MemoryError": ["Exception"],
        "OverflowError": ["ArithmeticError"], "ArithmeticError": ["Exception"],
        "ZeroDivisionError": ["ArithmeticError"], "struct.error": ["Exception"],
        "UnicodeDecodeError": ["ValueError"], "ConnectionError": ["OSError"],
        "NameError": ["Exception"], "UnboundLocalError": ["NameError"],
    }
    attrs = {}
    for name, node in m.classes.items():
        bs = []
        for b in node.bases:
            if isinstance(b, ast.Name):
                bs.append(b.id)
            elif isinstance(b, ast.Attribute):
                bs.append(b.attr)
        parents[name] = bs
        attrs[name] = m.class_attr_consts(name)
    anc = {}

    def ancestors(n, seen=()):
        if n in anc:
            return anc[n]
        s = {n}
        for p in parents.get(n, []):
            if p not in seen:
                s |= ancestors(p, seen + (n,))
        anc[n] = s
        return s
    for n in list(parents):
        ancestors(n)
    ids = {n: i + 1 for i, n in enumerate(sorted(parents))}

    def attr(n, a):
        # inherited class attribute lookup (first base wins, depth-first like MRO for single inheritance)
        if n in attrs and a in attrs[n]:
            return attrs[n][a]
        for p in parents.get(n, []):
            v = attr(p, a)
            if v is not None:
                return v
        return None
    # errors.for_code: kafka_errors = {x.errno: x for x in _iter_subclasses(BrokerResponseError)} (DFS over
    # __subclasses__() in definition order; later entries win), default UnknownError
    order = [n for n in m.classes]                      # dict preserves file order
    children = {}
    for n in order:
        for p in parents.get(n, []):
            children.setdefault(p, []).append(n)
    table = {}

    def dfs(n):
        for ch in children.get(n, []):
            e = attr(ch, "errno")
            if isinstance(e, int):
                table[e] = ch
            dfs(ch)
    dfs("BrokerResponseError")
    # module-level aliases (`CoordinatorNotAvailableError = GroupCoordinatorNotAvailableError`): the same class object
    for s in m.tree.body if hasattr(m, "tree") else []:
        if isinstance(s, ast.Assign) and len(s.targets) == 1 and isinstance(s.targets[0], ast.Name) \
                and isinstance(s.value, ast.Name) and s.value.id in ids and s.targets[0].id not in ids:
            a, b = s.targets[0].id, s.value.id
            ids[a] = ids[b]
            anc[a] = anc[b]
            parents[a] = parents[b]
            attrs[a] = attrs.get(b, {})
    return {"ids": ids, "anc": anc, "attr": attr, "parents": parents, "for_code": table}


_ATTR_STORES = {}


def attribute_stores(repo=None):
    """attr name -> [(relative file, line, enclosing class or None, enclosing function or None, receiver text,
    base class names of the enclosing class)] for every attribute store (`x.attr = ...`, augmented, annotated, del)
    in the package's .py files (the compiled .pyx modules are not scanned)."""
    repo = repo or REPO
    if repo in _ATTR_STORES:
        return _ATTR_STORES[repo]
    out = {}

    def walk(node, cls, fn, rel, bases=()):
        for ch in ast.iter_child_nodes(node):
            if isinstance(ch, ast.ClassDef):
                walk(ch, ch.name, None, rel, tuple(ast.unparse(b).split(".")[-1] for b in ch.bases))
            elif isinstance(ch, (ast.FunctionDef, ast.AsyncFunctionDef)):
                walk(ch, cls, ch.name if fn is None else fn, rel, bases)
            else:
                if isinstance(ch, ast.Attribute) and isinstance(ch.ctx, (ast.Store, ast.Del)):
                    out.setdefault(ch.attr, []).append((rel, ch.lineno, cls, fn, ast.unparse(ch.value), bases))
                walk(ch, cls, fn, rel, bases)
    root = os.path.join(repo, "aiokafka")
    for dp, dn, fns in os.walk(root):
        for f in sorted(fns):
            if f.endswith(".py"):
                path = os.path.join(dp, f)
                try:
                    tree = ast.parse(open(path).read())
                except SyntaxError:
                    continue
                walk(tree, None, None, os.path.relpath(path, repo))
    # setattr(x, "name", ...) would escape this scan
    _ATTR_STORES[repo] = out
    return out
