"""C19 — aiokafka/client.py: waiting for a metadata refresh (AIOKafkaClient._maybe_wait_metadata).

C19 "Afterwards no task, timer or connection created by that client is still alive": close() stops the metadata synchroniser
(_md_synchronizer) and then closes every connection. The synchroniser completes the future `_md_update_fut`, which every
caller waiting for a refresh shares. asyncio propagates the cancellation of a task to the future it is waiting on, so a
caller that gives up (wait_for timeout of an offsets lookup, request_timeout_ms) while awaiting that future *bare* cancels it
for everybody: the synchroniser's set_result then raises InvalidStateError, the task dies, and close() re-raises that error
before a single connection is closed. Every wait on the shared future therefore goes through asyncio.shield."""
from pyvc.contract import contract, classmodel, specfn, SPEC_TYPES, CLASSES
from pyvc.ty import V, INT, BOOL, REAL, STR, NONE, EXC, BYTES, Opt, Tup, List, Set, Dict, Ref, Opaque
from pyvc.exec_base import Fut

MOD = "aiokafka.client"
classmodel("LoopObj3", {})
classmodel("KafkaClient", {"_md_update_fut": Opt(Fut(BOOL)), "_md_update_waiter": Fut(NONE), "_loop": Ref("LoopObj3")},
           real=MOD + ":AIOKafkaClient")


@contract(MOD + ":AIOKafkaClient._maybe_wait_metadata", ["C19"])
def _(c):
    c.self_("KafkaClient")
    c.no_class_inv = True
    c.none_raises = True
    c.shared("self._md_update_fut")
    c.call("asyncio.shield", returns=Fut(BOOL), post=["fresh(result)"],
           note="asyncio.shield(fut): a new outer future that follows fut; cancelling the outer one does not cancel fut")
    c.raises("cancelled-or-the-refresh-failed", "BaseException")
    c.replay_fn = lambda model, ob=None: {"script": _WAIT_SCRIPT}


@contract(MOD + ":AIOKafkaClient.force_metadata_update", ["C19"])
def _(c):
    c.self_("KafkaClient")
    c.returns(Fut(BOOL))
    c.no_class_inv = True
    c.none_raises = True
    c.call("asyncio.shield", returns=Fut(BOOL), post=["fresh(result)"],
           note="asyncio.shield(fut): a new outer future that follows fut; cancelling the outer one does not cancel fut")
    c.call("self._loop.create_future", returns=Fut(BOOL), post=["fresh(result)", "not result.done()"], note="a new pending future")
    c.modifies("self._md_update_fut", "Future.state", "Future.nres")
    c.ensures("callers-get-a-shield-never-the-shared-future-itself",
              "self._md_update_fut is not None and result != self._md_update_fut and fresh(result)")
    c.ensures("a-refresh-in-progress-is-joined-not-replaced",
              "implies(old(self._md_update_fut) is not None, self._md_update_fut == old(self._md_update_fut))")
    c.ensures("the-synchroniser-is-woken-for-a-new-refresh",
              "implies(old(self._md_update_fut) is None, self._md_update_waiter.done())")
    c.replay_fn = lambda model, ob=None: {"script": _WAIT_SCRIPT}


# replay: a real AIOKafkaClient object (never bootstrapped): a refresh is pending, a caller waiting for it is cancelled
# (through _maybe_wait_metadata and through force_metadata_update): the shared future must survive
_WAIT_SCRIPT = '''
import asyncio, logging
logging.disable(logging.CRITICAL)
from aiokafka.client import AIOKafkaClient

async def main():
    bad = []
    for how in ("_maybe_wait_metadata", "force_metadata_update"):
        client = AIOKafkaClient(bootstrap_servers=[])
        if how == "_maybe_wait_metadata":
            client._md_update_fut = asyncio.get_running_loop().create_future()
            waiter = asyncio.ensure_future(client._maybe_wait_metadata())
        else:
            async def caller():
                await client.force_metadata_update()
            waiter = asyncio.ensure_future(caller())
        await asyncio.sleep(0.01)
        shared = client._md_update_fut
        waiter.cancel()
        await asyncio.gather(waiter, return_exceptions=True)
        if shared is None or shared.cancelled():
            bad.append("a caller cancelled while waiting in %s cancelled the metadata future shared with the synchroniser "
                       "(its set_result would raise InvalidStateError)" % how)
        elif shared.done():
            bad.append("%s: shared future unexpectedly done" % how)
        else:
            shared.set_result(True)
    return bad
bad = asyncio.run(main())
VIOLATED = bool(bad); DETAIL = "; ".join(bad)
'''
