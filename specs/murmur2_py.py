"""Oracle for C17: org.apache.kafka.common.utils.Utils.murmur2(byte[]) transcribed in 32-bit
two's-complement arithmetic (DESIGN.md Appendix C.1). Two forms: an executable Python twin
(used by replays and self-checks) and z3 terms (used in contracts)."""

SEED = 0x9747B28C
M = 0x5BD1E995
R = 24
MASK = 0xFFFFFFFF


def jm2_py(data: bytes) -> int:
    """Returns the Java int result as an unsigned 32-bit number."""
    length = len(data)
    h = (SEED ^ length) & MASK
    for i in range(length // 4):
        k = (data[4 * i] & 0xFF) + ((data[4 * i + 1] & 0xFF) << 8) + ((data[4 * i + 2] & 0xFF) << 16) + ((data[4 * i + 3] & 0xFF) << 24)
        k &= MASK
        k = (k * M) & MASK
        k ^= k >> R
        k = (k * M) & MASK
        h = (h * M) & MASK
        h ^= k
    rem = length % 4
    base = length & ~3
    if rem == 3:
        h ^= (data[base + 2] & 0xFF) << 16
    if rem >= 2:
        h ^= (data[base + 1] & 0xFF) << 8
    if rem >= 1:
        h ^= data[base] & 0xFF
        h = (h * M) & MASK
    h ^= h >> 13
    h = (h * M) & MASK
    h ^= h >> 15
    return h


def java_partition(key: bytes, n: int) -> int:
    return (jm2_py(key) & 0x7FFFFFFF) % n


# literals computed by the Java client (also in tests/test_partitioner.py)
_LITERALS = {b"": 681, b"a": 524, b"ab": 434, b"abc": 107, b"123456789": 566, b"\x00 ": 742}
for _k, _v in _LITERALS.items():
    assert java_partition(_k, 1000) == _v, (_k, java_partition(_k, 1000), _v)


