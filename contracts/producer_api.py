"""C07 / C16 / C02 — aiokafka/producer/producer.py: the application-facing calls (send, send_batch, begin/commit/abort
transaction, send_offsets_to_transaction).

C16 "Transactional calls are accepted only in protocol order ... and a call out of order raises without any effect": the
state machine itself is TransactionManager (every method under contract, C16); these functions are where a call reaches it.
C07 "never writes transactional data outside an open transaction": a record or a user-built batch of a transactional
producer reaches the accumulator only while the manager is IN_TRANSACTION, checked after the last suspension before the
hand-over. commit/abort return normally only when the transaction's waiter completed without an error - awaited through a
shield, because the sender shares that future (a caller that gives up must not cancel it)."""
from pyvc.contract import contract, classmodel, specfn, SPEC_TYPES, CLASSES
from pyvc.ty import V, INT, BOOL, REAL, STR, NONE, EXC, BYTES, Opt, Tup, List, Set, Dict, Ref, Opaque
from pyvc.exec_base import Fut
from .common import TP, tp_ctor
from . import producer_init, message_accumulator as MA, transaction_manager as TMC, sender_txn      # noqa: F401
from .sender_txn import TS_BIND, OFFS

MOD = producer_init.MOD
P = CLASSES["Producer"].fields
P.update({"_key_serializer": Opt(Opaque("Serializer")), "_value_serializer": Opt(Opaque("Serializer")), "_max_request_size": INT})
TXN = "self._txn_manager is not None and self._txn_manager.transactional_id is not None"
IN_TXN = "self._txn_manager.state == TransactionState.IN_TRANSACTION"
ANY = Opaque("UserValue")
TM_MODS = ["TransactionManager.state", "TransactionManager._txn_partitions", "TransactionManager._pending_txn_partitions",
           "TransactionManager._txn_consumer_groups", "TransactionManager._pending_txn_offsets", "TransactionManager._transaction_waiter",
           "TransactionManager._task_waiter", "Future.state", "Future.nres", "Future.exc"]


def _common(c):
    c.self_("Producer")
    c.no_class_inv = True
    c.none_raises = True
    c.bind("TransactionState", TS_BIND)
    c.bind("TopicPartition", tp_ctor)
    c.owns("self._txn_manager", "self._message_accumulator", "self.client", "self._request_timeout_ms")
    c.call("self.client._wait_on_metadata", havoc_all=True, raises=["KafkaError", "CancelledError"], note="suspends until the topic's metadata is known")
    c.call("self._partition", returns=INT, raises=["AssertionError"], note="AIOKafkaProducer._partition (bounded C17): the partition number")
    c.raises("not-in-a-transaction-refused-closed-timed-out-or-cancelled", "BaseException")


CLASSES["Producer"].fields["_closed"] = BOOL
# C19 "later API calls fail with the documented stopped/closed error": stop() closes the client, after which nobody updates
# metadata any more - a call that waits for metadata on a stopped producer would wait for ever
STOPPED_WAITS_FOR_NOTHING = ("assert", "a-stopped-producer-does-not-wait-for-metadata-nobody-updates-any-more", "not self._closed")


@contract(MOD + ":AIOKafkaProducer.partitions_for", ["C19"])
def _(c):
    _common(c)
    c.param("topic", STR)
    c.call("self.client._wait_on_metadata", returns=Set(INT), havoc_all=True, raises=["KafkaError", "CancelledError"],
           note="suspends until the topic's metadata is known")
    c.raises("stopped", "ProducerClosed", when="self._closed", exact=True)
    c.hook("before", "self.client._wait_on_metadata", [STOPPED_WAITS_FOR_NOTHING])
    c.replay_fn = lambda model, ob=None: {"script": _AFTER_STOP_SCRIPT}


@contract(MOD + ":AIOKafkaProducer.send", ["C07", "C16", "C02", "C19"])
def _(c):
    _common(c)
    c.raises("stopped", "ProducerClosed", when="self._closed and not (value is None and key is None)", exact=True)
    c.hook("before", "self.client._wait_on_metadata", [STOPPED_WAITS_FOR_NOTHING])
    c.replay_fn = lambda model, ob=None: {"script": _AFTER_STOP_SCRIPT}
    for n in ("topic",):
        c.param(n, STR)
    c.param("value", Opt(ANY), default="None")
    c.param("key", Opt(ANY), default="None")
    c.param("partition", Opt(INT), default="None")
    c.param("timestamp_ms", Opt(INT), default="None")
    c.param("headers", Opt(List(Tup(STR, Opt(BYTES)))), default="None")
    c.returns(MA.MSGFUT)
    c.local("headers", List(Tup(STR, Opt(BYTES))))
    c.call("self._serialize", returns=Tup(Opt(BYTES), Opt(BYTES)), raises=["Exception"], note="user serializers; size check")
    c.call("self._message_accumulator.add_message", returns=MA.MSGFUT, havoc_all=True, raises=["BaseException"],
           note="MessageAccumulator.add_message (under contract, accumulator_add.py)")
    c.hook("before", "self._message_accumulator.add_message", [
        ("assert", "a-transactional-producer-hands-a-record-over-only-inside-an-open-transaction", "implies(" + TXN + ", " + IN_TXN + ")"),
        ("assert", "to-the-partition-chosen-with-the-serialized-key-and-value-and-the-configured-wait",
         "a0.topic == topic and a0.partition == partition and a1 == key_bytes and a2 == value_bytes"
         " and a3 * 1000 == self._request_timeout_ms and kw_timestamp_ms == timestamp_ms"),
    ])


@contract(MOD + ":AIOKafkaProducer.send_batch", ["C07", "C16", "C02"])
def _(c):
    _common(c)
    c.param("batch", Ref("BatchBuilder"))
    c.param("topic", STR)
    c.param("partition", INT)
    c.returns(MA.MSGFUT)
    c.call("self._message_accumulator.add_batch", returns=MA.MSGFUT, havoc_all=True, raises=["BaseException"],
           note="MessageAccumulator.add_batch (under contract, accumulator_add.py)")
    c.hook("before", "self._message_accumulator.add_batch", [
        ("assert", "a-transactional-producer-hands-a-batch-over-only-inside-an-open-transaction", "implies(" + TXN + ", " + IN_TXN + ")"),
        ("assert", "the-batch-given-for-the-partition-given", "a0 == batch and a1.topic == topic and a1.partition == partition"
                                                               " and a2 * 1000 == self._request_timeout_ms"),
    ])


def _txn_call(c):
    c.self_("Producer")
    c.no_class_inv = True
    c.none_raises = True
    c.bind("TransactionState", TS_BIND)
    c.owns("self._txn_manager")
    c.shared("self._txn_manager._transaction_waiter", "self._txn_manager._pid_waiter")
    c.call("self._ensure_transactional", raises=["IllegalOperation"], post=[TXN],
           note="AIOKafkaProducer._ensure_transactional (under contract below)")
    c.call("asyncio.shield", returns=Fut(NONE), post=["fresh(result)"],
           note="asyncio.shield(awaitable): an outer future that follows it; cancelling the outer one does not cancel it")
    c.modifies(*TM_MODS)
    c.raises("not-transactional-out-of-order-failed-or-cancelled", "BaseException")


@contract(MOD + ":AIOKafkaProducer._ensure_transactional", ["C16", "C07"])
def _(c):
    c.self_("Producer")
    c.no_class_inv = True
    c.raises("no-transactional-id", "IllegalOperation", when="not (" + TXN + ")", exact=True)
    c.ensures("a-transactional-producer", TXN)


@contract(MOD + ":AIOKafkaProducer.begin_transaction", ["C16", "C07"])
def _(c):
    _txn_call(c)
    c.call("self._txn_manager.wait_for_pid", returns=Opaque("Coroutine"), note="coroutine that waits for the producer id")
    c.call("self._txn_manager.begin_transaction", modifies=TM_MODS, raises=["AssertionError"],
           post=["self._txn_manager.state == TransactionState.IN_TRANSACTION"],
           note="TransactionManager.begin_transaction (under contract, C16: refuses, without effect, unless READY)")
    c.ensures_internal("on-return-a-transaction-is-open", "self._txn_manager.state == TransactionState.IN_TRANSACTION")


for _name, _call, _label in (("commit_transaction", "committing_transaction", "commit"), ("abort_transaction", "aborting_transaction", "abort")):
    def _mk(call=_call):
        def body(c):
            _txn_call(c)
            c.ghost("$requested", BOOL, "False")
            c.ghost("$awaited", BOOL, "False")
            c.call("self._txn_manager." + call, modifies=TM_MODS, raises=["BaseException"], ghost={"$requested": "True"},
                   note="TransactionManager.%s (under contract, C16: refuses out of order; commit re-raises an abortable error)" % call)
            c.call("self._txn_manager.wait_for_transaction_end", returns=Fut(NONE), ghost={"$awaited": "$requested"},
                   note="the waiter the sender resolves when EndTxn was acknowledged (or the transaction failed)")
            c.ensures_internal("returns-only-after-the-end-was-requested-and-its-waiter-awaited", "$requested and $awaited")
        return body
    contract(MOD + ":AIOKafkaProducer." + _name, ["C16", "C07"])(_mk())


@contract(MOD + ":AIOKafkaProducer.send_offsets_to_transaction", ["C16", "C07"])
def _(c):
    _txn_call(c)
    c.param("offsets", Opaque("UserOffsets"))
    c.param("group_id", STR)            # (anything that is not a non-empty str is refused with ValueError)
    c.call("commit_structure_validate", returns=OFFS, raises=["ValueError", "TypeError"], post=["fresh(result)"],
           note="aiokafka.util.commit_structure_validate: normalises {tp: offset | (offset, metadata) | OffsetAndMetadata}")
    c.call("self._txn_manager.add_offsets_to_txn", returns=Fut(NONE), modifies=TM_MODS, raises=["AssertionError"],
           note="TransactionManager.add_offsets_to_txn (under contract, C16)")
    c.hook("before", "self._txn_manager.add_offsets_to_txn", [
        ("assert", "offsets-join-only-an-open-transaction", IN_TXN),
        ("assert", "for-the-group-given", "a1 == group_id"),
    ])


# replay: a real producer started without a cluster (bootstrap and the metadata synchroniser stubbed), stopped, then asked
# about a topic that is not in its cached metadata
_AFTER_STOP_SCRIPT = '''
import asyncio, logging
logging.disable(logging.CRITICAL)
from unittest import mock
from aiokafka.producer.producer import AIOKafkaProducer
from aiokafka.errors import ProducerClosed
async def main():
    bad = []
    for api in ("send", "partitions_for", "send_and_wait"):
        p = AIOKafkaProducer(bootstrap_servers="h:1")
        async def boot(): return None
        p.client.api_version = (2, 0, 0)
        async def sync(): await asyncio.sleep(3600)
        p.client._md_synchronizer = sync
        with mock.patch.object(type(p.client), "bootstrap", new=lambda self: boot()):
            await p.start()
        await p.stop()
        call = {"send": lambda: p.send("unknown-topic", b"v"), "partitions_for": lambda: p.partitions_for("unknown-topic"),
                "send_and_wait": lambda: p.send_and_wait("unknown-topic", b"v")}[api]
        try:
            await asyncio.wait_for(call(), 2)
            bad.append("%s() on a stopped producer returned" % api)
        except ProducerClosed:
            pass
        except asyncio.TimeoutError:
            bad.append("%s() on a stopped producer, topic not in the cached metadata: no answer (waits for a metadata update nobody will make)" % api)
        except Exception as e:
            bad.append("%s() on a stopped producer raised %r, not ProducerClosed" % (api, e))
    return bad
bad = asyncio.run(main())
VIOLATED = bool(bad)
DETAIL = "%r" % (bad[:3],) if bad else "ok"
'''
