"""Sidecar contract DSL. Contracts live in /verif/contracts/*.py, keyed by the qualified
name of the real function in /repo; the function text itself is never copied."""
from . import ty as T

REGISTRY = {}          # qual -> Contract
BY_METHOD = {}         # (class model, method) -> Contract
BY_FUNC = {}           # (module, func) -> Contract
CLASSES = {}           # class model name -> ClassModel
SPECFNS = {}           # name -> python callable(exec, state, args:[V]) -> V
LEMMAS = []
SPEC_TYPES = {}         # names usable as quantifier types in spec expressions


class ClassModel:
    def __init__(self, name, fields, real=None, invariants=(), bases=()):
        self.name = name
        self.fields = dict(fields)          # field -> Ty
        self.real = real                    # "module:Class" of the real class (for replay)
        # Object invariants [(label, expr over `self`)]. They may mention only the object's own
        # fields (checked), are proved as a postcondition of every contracted method of the class
        # and required of `self` at its entry; for any *other* receiver they are assumed (visible-
        # state semantics), which is sound because fields they mention cannot be written from
        # outside the class (an `inv-frame` obligation on every such write).
        self.invariants = list(invariants)
        # Invariants that are assumed everywhere and never proved: listed in the trusted base.
        self.assumed = []
        self.props = {}                     # property name -> expr over self (real @property, inlined spec)
        CLASSES[name] = self

    def inv_fields(self):
        import re
        fs = set()
        for _, e in self.invariants:
            fs.update(f for f in re.findall(r"self\.([A-Za-z_][A-Za-z0-9_]*)", e) if f in self.fields)
        return fs


class LoopSpec:
    def __init__(self, ordinal, invariants=(), decreases=None, unroll=None, header=None, ghost=None):
        self.ordinal = ordinal
        self.invariants = [(l, e) for l, e in invariants]
        self.decreases = decreases
        self.unroll = unroll
        self.header = header
        self.ghost = ghost or {}


class CallModel:
    """Trusted / assumed behaviour of a call that is not under contract (listed in evidence)."""
    def __init__(self, pattern, returns=None, post=(), modifies=(), raises=(), havoc_all=False, note="",
                 ghost=None, pre=(), fresh=None, kwargs=None, nargs=None, permutes=None):
        self.pattern = pattern
        # index of a positional argument (a local list) that the call rearranges in place: afterwards it holds the
        # same elements in an unknown order (random.shuffle)
        self.permutes = permutes
        self.returns = returns
        self.post = list(post)
        self.pre = list(pre)
        self.modifies = list(modifies)
        self.raises = list(raises)
        self.havoc_all = havoc_all
        self.note = note
        self.ghost = ghost
        self.fresh = fresh or {}
        # call shape the model was written for: keyword names it covers (None: not checked) and positional count
        self.kwargs = None if kwargs is None else list(kwargs)
        self.nargs = nargs


class Contract:
    def __init__(self, qual, prop, mode="int"):
        self.qual = qual
        self.module, self.fname = qual.split(":")
        self.props = [prop] if isinstance(prop, str) else list(prop)
        self.mode = mode
        self.self_cls = None
        self.self_name = "self"
        self.params = []            # [(name, Ty)]
        self.ret = None
        self.requires_ = []
        self.ensures_ = []
        self.raises_ = []           # (label, excname, when, ensures list, exact)
        self.modifies_ = []
        self.loops = {}
        self.binds = {}
        self.calls = []
        self.inline = set()
        self.hooks = []             # (when, pattern, action)
        self.index_raises = False   # True: out-of-range index forks an IndexError path
        self.none_raises = False
        self.ghosts = {}            # ghost variable name -> (Ty, init expr)
        self.owns_ = []             # heap locations that survive an await
        self.locks_ = []            # expressions that denote an asyncio.Lock (`async with <expr>:` = await, then body)
        self.rely_ = []             # predicates assumed after every await
        self.yield_inv_ = []        # predicates asserted before every await
        self.verify_body = True
        self.trusted_note = None
        self.replay_fn = None
        self.tv_fn = None           # translation validation sampler
        self.lemmas = []
        self.unfolds = []
        self.assume_invariants = []
        self.field_defaults = {}
        self.notes = []
        self.is_generator = False
        self.pure = False
        self.path_cap = 4000
        self.timeout_ms = None
        self.closure_of = None
        self.ignore_calls = set()
        self.result_name = "result"
        self.no_class_inv = False   # True: the method may be entered/left with the object invariant broken

    # ---- declaration API -------------------------------------------------
    def self_(self, cls, name="self"):
        self.self_cls = cls
        self.self_name = name
        return self

    def param(self, name, ty, default=None):
        self.params.append((name, ty))
        return self

    def local(self, name, ty):
        """Declared type of a local (needed for empty containers and locals that start as None)."""
        self.__dict__.setdefault("locals_", {})[name] = ty
        return self

    def fragment(self, header, requires=()):
        """Verify only the statement whose first line is `header`, from an entry state in which the
        locals declared with c.local() are arbitrary values satisfying `requires`."""
        self.fragment_ = header
        self.frag_requires_ = [("frag-pre%d" % i, e) for i, e in enumerate(requires)]
        return self

    def returns(self, ty):
        self.ret = ty
        return self

    def requires(self, expr, label=None):
        self.requires_.append((label or "pre%d" % len(self.requires_), expr))
        return self

    def ensures(self, label, expr):
        self.ensures_.append((label, expr))
        return self

    def abstract_local(self, name, ty):
        """the value of this local is irrelevant to the contract: assignments to it are skipped (right-hand sides not
        evaluated) and it holds an arbitrary value of `ty`; listed in the evidence as dropped computation"""
        self.__dict__.setdefault("abstract_locals_", {})[name] = ty
        return self

    def wrapping(self, *targets):
        """assignment targets (source text) whose value is plain data, never an index or a size: its arithmetic is
        taken to wrap (two's complement) instead of carrying no-overflow obligations; listed as an assumption"""
        self.__dict__.setdefault("wrapping_", set()).update(targets)
        return self

    def never_raises(self, *names):
        """exception classes (with subclasses) that must not escape, even though a broader raises clause covers them"""
        self.__dict__.setdefault("never_raises_", []).extend(names)
        return self

    def ensures_internal(self, label, expr):
        """a postcondition proved of the body but not exported to callers (it may mention ghost variables)"""
        self.__dict__.setdefault("ensures_internal_", []).append((label, expr))
        return self

    def raises(self, label, exc, when=None, ensures=(), exact=False):
        self.raises_.append((label, exc, when, list(ensures), exact))
        return self

    def callee_view(self, callee, ensures):
        """At calls of the contracted function whose name ends with `callee` assume only the listed postconditions
        (by label) of its contract. Assuming fewer facts is sound; it keeps quantified clauses the caller's argument
        does not need out of every later query. Preconditions, frame and exceptional exits are used in full."""
        self.__dict__.setdefault("callee_views", {})[callee] = set(ensures)
        return self

    def modifies(self, *locs):
        self.modifies_.extend(locs)
        return self

    def loop(self, ordinal, invariants=(), decreases=None, unroll=None, header=None, ghost=None):
        self.loops[ordinal] = LoopSpec(ordinal, invariants, decreases, unroll, header, ghost)
        return self

    def bind(self, name, value):
        self.binds[name] = value
        return self

    def call(self, pattern, **kw):
        if kw.get("ghost"):
            kw["ghost"] = {k.replace("$", "G_"): v for k, v in kw["ghost"].items()}
        self.calls.append(CallModel(pattern, **kw))
        return self

    def inline_(self, *names):
        self.inline.update(names)
        return self

    def ghost(self, name, ty, init):
        self.ghosts[name.replace("$", "G_")] = (ty, init)
        return self

    def hook(self, when, pattern, action):
        """when: 'before'|'after'; pattern: callee text prefix; action: list of
        ('assert', label, expr) | ('set', ghost, expr)."""
        action = [tuple(x.replace("$", "G_") if (i == 1 and a[0] == "set") else x for i, x in enumerate(a)) for a in action]
        self.hooks.append((when, pattern, action))
        return self

    def owns(self, *locs):
        self.owns_.extend(locs)
        return self

    def immutable(self, *locs):
        """'Class.field' locations that are assigned only in the class's own __init__ (checked syntactically over every
        module of the package on each run): they keep their value across suspensions like owned locations."""
        self.__dict__.setdefault("immutable_", []).extend(locs)
        self.owns_.extend(locs)
        return self

    def shared(self, *exprs):
        """expressions denoting futures that other tasks complete or wait for: a bare `await <that future>` would cancel it
        when the awaiting task is cancelled (asyncio propagates a task's cancellation to the future it waits on); every
        bare await of a future is checked not to be one of them (they have to go through asyncio.shield / asyncio.wait)"""
        self.__dict__.setdefault("shared_", []).extend(exprs)
        return self

    def lock(self, *exprs):
        self.locks_.extend(exprs)
        return self

    def rely(self, expr, label=None):
        self.rely_.append((label or "rely%d" % len(self.rely_), expr))
        return self

    def yield_inv(self, label, expr):
        self.yield_inv_.append((label, expr))
        return self

    def trusted(self, note):
        """Contract is assumed, body not verified (external / out of reach)."""
        self.verify_body = False
        self.trusted_note = note
        return self

    def unfold(self, fn, *argexprs, at="loop-body"):
        self.unfolds.append((fn, argexprs, at))
        return self

    def replay(self, fn):
        self.replay_fn = fn
        return fn


class Sink:
    """Parameter type for a callback that only consumes values (e.g. `write` of a varint
    encoder): calls append their argument to the ghost list `$<ghost>`."""
    def __init__(self, elem, ghost="out"):
        self.elem = elem
        self.ghost = "G_" + ghost


def contract(qual, prop, mode="int", variant=None):
    """variant: a second contract on the same function (e.g. the memory-safety view of a
    decoder); only the primary contract is used at call sites."""
    def deco(fn):
        c = Contract(qual, prop, mode)
        c.variant = variant
        fn(c)
        key = qual if variant is None else "%s#%s" % (qual, variant)
        c.key = key
        REGISTRY[key] = c
        if variant is None:
            mod, f = qual.split(":")
            if c.self_cls and "." in f:
                BY_METHOD[(c.self_cls, f.split(".")[-1])] = c
            BY_FUNC[(mod, f)] = c
        return c
    return deco


def classmodel(name, fields, real=None, invariants=(), props=None, assumed=()):
    cm = ClassModel(name, fields, real, invariants)
    cm.assumed = list(assumed)
    if props:
        cm.props.update(props)
    return cm


def specfn(name):
    def deco(fn):
        SPECFNS[name] = fn
        return fn
    return deco
