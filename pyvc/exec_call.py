"""Calls: spec functions, builtins, container/future methods, contracted callees
(modular: pre asserted, modifies havocked, post assumed), trusted call models, inlining."""
import ast
import fnmatch
import z3
from . import ty as T
from .ty import V, INT, BOOL, REAL, NONE, NONEV, BYTES, EXC, PYOBJ, STR, Opt, Ref, Tup, List, Set, Dict, Enum, Opaque
from .state import St, Out, Unsupported, BindingError
from . import contract as C
from . import arith
from .exec_base import PyThing, Fut, FUTURE_FIELDS
from .exec_expr import ExprMixin, _parse


class CallMixin(ExprMixin):

    # C casts of translated Cython code (pyvc/pyx.py): values are 64-bit two's-complement words; signedness of 64-bit
    # types is not tracked (identity), narrower unsigned types mask, narrower signed types must already fit
    CAST_IDENTITY = {"Py_ssize_t", "ssize_t", "int64_t", "long", "long long", "size_t", "uint64_t", "unsigned long",
                     "char*", "char *", "void*", "void *", "unsigned char*", "unsigned char *", "const char*", "object"}
    CAST_MASK = {"uint32_t": 32, "uint16_t": 16, "uint8_t": 8, "unsigned char": 8, "unsigned int": 32}
    CAST_SIGNED = {"int32_t": 32, "int": 32, "int16_t": 16, "short": 16, "char": 8, "int8_t": 8}

    def ev_cast(self, e, st):
        cty = e.args[0].value
        res = []
        for s, v in self.ev(e.args[1], st):
            if cty in self.CAST_IDENTITY or v.ty != INT:
                res.append((s, v))
            elif cty in self.CAST_MASK:
                res.append((s, arith.binop(self, s, ast.BitAnd(), v, T.intval((1 << self.CAST_MASK[cty]) - 1), e.lineno)))
            elif cty in self.CAST_SIGNED:
                # narrowing to a signed type keeps the low bits and sign-extends them (implementation-defined in C;
                # this is what gcc and clang do on every supported platform)
                w = self.CAST_SIGNED[cty]
                if T.mode() == "bv" and w < T.width():
                    res.append((s, V(INT, z3.SignExt(T.width() - w, z3.Extract(w - 1, 0, v.t)))))
                else:
                    lo, hi = T.intval(-(1 << (w - 1))).t, T.intval((1 << (w - 1)) - 1).t
                    self.oblige(s, "overflow", "cast-to-%s-in-range" % cty.replace(" ", "-"), z3.And(v.t >= lo, v.t <= hi), e.lineno)
                    res.append((s, v))
            else:
                raise Unsupported("C cast to %s (line %s)" % (cty, e.lineno))
        return res

    def ev_Call(self, e, st):
        ftext = ast.unparse(e.func)
        if ftext == "__cast__" and not self.spec:
            return self.ev_cast(e, st)
        if ftext == "__undef__" and not self.spec:
            return [(st, self.fresh(INT, "undef"))]          # an uninitialised C scalar (translated Cython)
        # ---- specification-only forms (arguments are not evaluated eagerly)
        if self.spec and isinstance(e.func, ast.Name):
            n = e.func.id
            if n == "old":
                base = self.spec_old if self.spec_old is not None else self.entry
                s = base.copy()
                for k, v in st.env.items():
                    if k.startswith("$q") or k not in s.env:
                        s.env[k] = v          # bound variables / result stay visible
                saved = self.spec_old
                self.spec_old = None
                try:
                    _, v = self.ev1(e.args[0], s)
                finally:
                    self.spec_old = saved
                return [(st, v)]
            if n in ("forall", "exists"):
                return [(st, self.quant(n, e, st))]
            if n == "implies":
                a = self.truthy(st, self.ev1(e.args[0], st)[1])
                b = self.truthy(st, self.ev1(e.args[1], st)[1])
                return [(st, V(BOOL, z3.Implies(a, b)))]
            if n == "iff":
                a = self.truthy(st, self.ev1(e.args[0], st)[1])
                b = self.truthy(st, self.ev1(e.args[1], st)[1])
                return [(st, V(BOOL, a == b))]
            if n == "ite":
                c = self.truthy(st, self.ev1(e.args[0], st)[1])
                a = self.ev1(e.args[1], st)[1]
                b = self.ev1(e.args[2], st)[1]
                if a.ty != b.ty:
                    a2 = T.coerce(a, b.ty)
                    b2 = T.coerce(b, a.ty)
                    if a2 is not None:
                        a = a2
                    elif b2 is not None:
                        b = b2
                    else:
                        raise Unsupported("ite types %s %s" % (a.ty, b.ty))
                return [(st, V(a.ty, z3.If(c, a.t, b.t)))]
            if n == "fresh":
                _, v = self.ev1(e.args[0], st)
                base = self.spec_old if self.spec_old is not None else self.entry
                return [(st, V(BOOL, v.t >= base.nalloc))]
            if n == "unchanged":
                # unchanged(obj[, "f1", "f2"...]): the object's modelled fields equal their old values
                _, v = self.ev1(e.args[0], st)
                base = self.spec_old if self.spec_old is not None else self.entry
                ty = v.ty.inner if isinstance(v.ty, Opt) else v.ty
                flds = [a.value for a in e.args[1:]] or self.class_fields(ty.cls, st)
                cs = []
                for f in flds:
                    fty = self.any_field_ty(ty.cls, f)
                    cs.append(z3.Select(self.hmap(st, ty.cls, f, fty), v.t) == z3.Select(self.hmap(base, ty.cls, f, fty), v.t))
                return [(st, V(BOOL, z3.And(cs) if cs else z3.BoolVal(True)))]
            if n == "same_heap":
                # same_heap("Class"[, "field"...]): no object of the class changed (whole-map frame)
                base = self.spec_old if self.spec_old is not None else self.entry
                cls = e.args[0].value
                flds = [a.value for a in e.args[1:]] or self.class_fields(cls, st)
                cs = []
                for f in flds:
                    fty = self.any_field_ty(cls, f)
                    cs.append(self.hmap(st, cls, f, fty) == self.hmap(base, cls, f, fty))
                return [(st, V(BOOL, z3.And(cs) if cs else z3.BoolVal(True)))]
            if n == "same_except":
                # same_except("Class", "field", ref...): the field map changed at most at the given objects
                base = self.spec_old if self.spec_old is not None else self.entry
                cls, f = e.args[0].value, e.args[1].value
                fty = self.any_field_ty(cls, f)
                m = self.hmap(base, cls, f, fty)
                now = self.hmap(st, cls, f, fty)
                for a in e.args[2:]:
                    _, r = self.ev1(a, st)
                    m = z3.Store(m, r.t, z3.Select(now, r.t))
                return [(st, V(BOOL, now == m))]
            if n == "is_exc":
                _, v = self.ev1(e.args[0], st)
                return [(st, V(BOOL, self.exc_is(v.t, e.args[1].id if isinstance(e.args[1], ast.Name) else e.args[1].value)))]
            if n in C.SPECFNS:
                args = [self.ev1(a, st)[1] for a in e.args]
                return [(st, C.SPECFNS[n](self, st, *args))]
        if ftext == "super().__init__" and not self.spec and "." in self.c.fname:
            # `super().__init__(...)` of a class with one base class defined in the same module: the base constructor's
            # body runs on the same object (inlined; a base class from elsewhere is outside the verified text)
            cls = self.c.fname.split(".")[0]
            node = self.module.classes.get(cls)
            bases = [b.id for b in (node.bases if node is not None else []) if isinstance(b, ast.Name)]
            if len(bases) != 1 or bases[0] not in self.module.classes:
                raise Unsupported("super().__init__ of %s: base class not in this module (line %s)" % (cls, self.cur_line))
            try:
                bnode = self.module.func("%s.__init__" % bases[0])
            except Exception:
                raise Unsupported("super().__init__ of %s: %s has no __init__ (line %s)" % (cls, bases[0], self.cur_line))
            res = []
            for s, vals in self.ev_list(list(e.args) + [k.value for k in e.keywords], st):
                args = vals[:len(e.args)]
                kw = {k.arg: v for k, v in zip(e.keywords, vals[len(e.args):])}
                res.extend(self.inline_node(s, "%s.__init__" % bases[0], bnode, s.env.get("self"), args, kw))
            return res
        # pattern "callee" matches any call of it, "callee/N" only calls with N positional arguments,
        # "callee#K" only the K-th call of it in the function's source text (0-based)
        # (a callee reached through a local that merely names an attribute chain - `m = self._mgr; m.f()` - also answers to
        # the chain's text: contracts written against `self._mgr.f` keep binding when such a local is introduced or removed)
        texts = self.call_texts(ftext) if not self.spec else [ftext]
        hooks_b = [h for h in self.c.hooks if h[0] == "before" and
                   (any(_match(h[1], t) or _match(h[1], "%s/%d" % (t, len(e.args))) for t in texts)
                    or ("#" in h[1] and _match(h[1], "%s#%d" % (ftext, self.call_occurrence(e, ftext)))))] if not self.spec else []
        res = []
        for s, f in self.ev(e.func, st):
            argexprs = list(e.args)
            if any(isinstance(a, ast.Starred) for a in argexprs) and not any(k.arg is None for k in e.keywords) \
                    and not self.spec and self.find_call_model(ftext) is not None:
                # `f(*xs)` of a modelled callee: the model sees the sequence itself as one argument
                argexprs = [a.value if isinstance(a, ast.Starred) else a for a in argexprs]
            if any(isinstance(a, ast.Starred) for a in argexprs) or any(k.arg is None for k in e.keywords):
                raise Unsupported("*args/**kwargs call (line %s)" % self.cur_line)
            lazy = f.ty == PYOBJ and f.t.kind == "builtin" and f.t.name in ("isinstance", "any", "all", "sum", "sorted", "list", "set", "dict", "tuple", "frozenset", "min", "max") \
                and e.args and isinstance(e.args[0], (ast.GeneratorExp, ast.ListComp)) or \
                (f.ty == PYOBJ and f.t.kind == "builtin" and f.t.name in ("isinstance", "issubclass", "hasattr", "getattr"))
            if lazy:
                res.extend(self.call_lazy(s, f, e))
                continue
            for s2, vals in self.ev_list(argexprs + [k.value for k in e.keywords], s):
                args = vals[:len(argexprs)]
                kw = {k.arg: v for k, v in zip(e.keywords, vals[len(argexprs):])}
                if hooks_b:
                    # the hook sees the evaluated arguments as a0, a1, ... and kw_<name>
                    extra = {"a%d" % i: a for i, a in enumerate(args)}
                    extra.update({"kw_" + k: v for k, v in kw.items()})
                    for h in hooks_b:
                        self.run_hook(s2, h, e, extra)
                res.extend(self.call(s2, f, args, kw, e, ftext))
        if not self.spec:
            hooks_a = [h for h in self.c.hooks if h[0] == "after" and any(_match(h[1], t) for t in self.call_texts(ftext))]
            for h in hooks_a:
                for s, r in res:
                    self.run_hook(s, h, e, {"result": r} if isinstance(r, V) else None)
        return res

    def is_coroutine_creation(self, con, node):
        if self.spec or getattr(self, "awaited_call", None) is node:
            return False
        try:
            from . import source
            fn = source.module(con.module).func(con.fname)
        except Exception:
            return False
        return isinstance(fn, ast.AsyncFunctionDef)

    def call_occurrence(self, node, ftext):
        """index of this call among the calls with the same callee text, in source order of the function under contract"""
        tab = getattr(self, "_call_occ", None)
        if tab is None:
            tab = self._call_occ = {}
            seen = {}
            root = getattr(self, "fnode", None)
            calls = [n for n in ast.walk(root) if isinstance(n, ast.Call)] if root is not None else []
            calls.sort(key=lambda n: (n.lineno, n.col_offset))
            for n in calls:
                t = ast.unparse(n.func)
                tab[id(n)] = seen.get(t, 0)
                seen[t] = seen.get(t, 0) + 1
        return tab.get(id(node), -1)

    def run_hook(self, st, h, node, extra=None):
        for act in h[2]:
            if act[0] == "assert":
                # reachability of the hook (vacuity guard): some path must arrive here
                reach = self.__dict__.setdefault("hook_reach", {})
                reach.setdefault((act[1], node.lineno), []).append(z3.And(st.pc) if st.pc else z3.BoolVal(True))
                try:
                    cond = self.spec_bool(act[2], st, extra=extra, old=self.entry)
                except Unsupported as ex:
                    if "unbound name" not in str(ex):
                        raise
                    # the clause speaks of a local the code has not (definitely) bound at this call: it cannot be
                    # established there; left undischarged, the witness search decides on the real code
                    self.note("clause %s at line %s of %s: %s - not established" % (act[1], node.lineno, self.c.qual, ex))
                    self.oblige(st, "trace", act[1], z3.BoolVal(False), node.lineno, assume=False, undecidable=str(ex))
                    continue
                self.oblige(st, "trace", act[1], cond, node.lineno, assume=True)
            elif act[0] == "set":
                st.ghost[act[1]] = self.spec_eval(act[2], st, extra=extra, old=self.entry)
            elif act[0] == "assume":
                st.assume(self.spec_assume(act[1], st, extra=extra, old=self.entry))

    def quant(self, kind, e, st):
        lam = e.args[-1]
        if not isinstance(lam, ast.Lambda):
            raise Unsupported("forall/exists need a lambda")
        names = [a.arg for a in lam.args.args]
        tys = []
        for i, n in enumerate(names):
            if i < len(e.args) - 1:
                tn = e.args[i]
                if not (isinstance(tn, ast.Name) and tn.id in C.SPEC_TYPES):
                    raise Unsupported("quantifier type %s (register it in contract.SPEC_TYPES)" % ast.unparse(tn))
                tys.append(C.SPEC_TYPES[tn.id])
            else:
                tys.append(INT)
        s = st.copy()
        bound = []
        for n, ty in zip(names, tys):
            ty = ty if isinstance(ty, T.Ty) else INT
            v = self.fresh(ty, "q_" + n)
            s.env[n] = v
            bound.append(v.t)
        body = self.truthy(s, self.ev1(lam.body, s)[1])
        return V(BOOL, (z3.ForAll if kind == "forall" else z3.Exists)(bound, body))

    # ------------------------------------------------------------------ dispatch
    def call(self, st, f, args, kw, node, ftext):
        if f.ty == EXC:
            # exception construction: the value is the class id
            return [(st, V(EXC, f.t))]
        if f.ty != PYOBJ:
            cm = self.find_call_model(ftext) if not self.spec else None
            if cm is not None:
                # calling a value that is a class/callable object (e.g. a request-struct class)
                return self.apply_model(st, cm, f, args, kw, node, ftext)
            raise Unsupported("call of non-callable %s (line %s)" % (f.ty, self.cur_line))
        th = f.t
        k = th.kind
        if k == "specfn":
            return [(st, C.SPECFNS[th.name](self, st, *args))]
        if k == "opaquector":
            # constructor of an immutable value modelled as an uninterpreted sort: injective, with projections
            oty = th.ty
            cvs = []
            names = [n for n, _ in th.fields]
            vals = list(args) + [kw[n] for n in names[len(args):] if n in kw]
            for v, (fname, fty) in zip(vals, th.fields):
                cv = self.coerce_to(st, v, fty, fname)
                if cv is None:
                    raise Unsupported("%s(%s: %s)" % (oty, fname, v.ty))
                cvs.append(cv)
            f = z3.Function("mk_" + oty.name, *([c.ty.sort() for c in cvs] + [oty.sort()]))
            r = f(*[c.t for c in cvs])
            from .exec_expr import OPAQUE_ATTRS
            for (fname, fty), cv in zip(th.fields, cvs):
                acc = z3.Function("attr_%s_%s" % (oty.name, fname), oty.sort(), fty.sort())
                st.assume(acc(r) == cv.t)
            return [(st, V(oty, r))]
        if k == "tupctor":
            tty = th.ty
            vals = list(args)
            if tty.names:
                for nm in tty.names[len(vals):]:
                    if nm not in kw:
                        raise Unsupported("missing field %s of %s" % (nm, tty))
                    vals.append(kw[nm])
            cvs = []
            for v, ity in zip(vals, tty.items):
                cv = T.coerce(v, ity)
                if cv is None:
                    raise Unsupported("tuple field %s where %s expected (line %s)" % (v.ty, ity, self.cur_line))
                cvs.append(cv)
            return [(st, T.tup_mk(tty, cvs))]
        if k == "sink":
            y = st.ghost[th.ghost]
            cv = T.coerce(args[0], y.ty.elem)
            if cv is None:
                raise Unsupported("sink %s receives %s" % (th.ghost, args[0].ty))
            ln = T.list_len(y)
            st.ghost[th.ghost] = T.list_mk(y.ty, z3.Store(T.list_arr(y), ln, cv.t), ln + T.intval(1).t)
            return [(st, NONEV)]
        if k == "builtin":
            cm = self.find_call_model(ftext) if not self.spec else None
            if cm is not None:
                return self.apply_model(st, cm, None, args, kw, node, ftext)     # e.g. next(iterator, default)
            return self.call_builtin(st, th.name, args, kw, node)
        if k == "method":
            recv = th.recv
            rt = recv.ty
            if isinstance(rt, Opt):
                if not self.spec:
                    if self.c.none_raises:
                        self.fork_raise(st, T.opt_is_none(recv), "AttributeError")
                    else:
                        self.oblige(st, "none", "call-%s" % th.name, z3.Not(T.opt_is_none(recv)))
                recv = T.opt_val(recv)
                recv.lv = th.recv.lv
                rt = recv.ty
            if isinstance(rt, Ref) and rt.cls == "Future":
                return self.future_method(st, recv, th.name, args, kw, node)
            if isinstance(rt, Ref) and rt.cls in C.CLASSES and getattr(C.CLASSES[rt.cls], "dict_field", None) \
                    and th.name in ("keys", "values", "items", "get") and C.BY_METHOD.get((rt.cls, th.name)) is None:
                # the read-only dict methods of an object modelled as a shared dict go to the dict it stands for
                return self.container_method(st, self.deref_dictlike(st, recv), th.name, args, kw, node)
            if isinstance(rt, Ref):
                con = C.BY_METHOD.get((rt.cls, th.name))
                cm0 = self.find_call_model(ftext) if con is not None else None
                if cm0 is not None:
                    # the caller's contract deliberately abstracts this call (listed as trusted) although the callee
                    # has a contract of its own, e.g. because the callee's preconditions are caller-history facts
                    return self.apply_model(st, cm0, recv, args, kw, node, ftext)
                if con is not None and self.is_coroutine_creation(con, node):
                    # `f(...)` of a coroutine function without `await` only creates the coroutine object: nothing runs
                    return [(st, V(PYOBJ, PyThing("coroutine", qual=con.qual)))]
                if con is not None:
                    return self.apply_contract(st, con, recv, args, kw, node)
                cm = self.find_call_model(ftext, "%s.%s" % (rt.cls, th.name))
                if cm is not None:
                    return self.apply_model(st, cm, recv, args, kw, node, ftext)
                if th.name in self.c.inline or ("%s.%s" % (rt.cls, th.name)) in self.c.inline:
                    return self.inline_call(st, rt.cls, th.name, recv, args, kw, node)
                if th.name == "create_future":
                    return [(st, self.new_future(st))]          # loop.create_future()
                helper = self.small_helper(rt.cls, th.name)
                if helper is not None:
                    # an un-contracted helper of the class under contract (typically the product of an "extract method"
                    # refactoring): its body is verified in place, as part of the caller, instead of giving up
                    self.trusted_used.add("helper %s.%s has no contract of its own: its body is inlined into the caller's proof"
                                          % (rt.cls, th.name))
                    self._inlining = getattr(self, "_inlining", 0) + 1
                    try:
                        return self.inline_call(st, rt.cls, th.name, recv, args, kw, node)
                    finally:
                        self._inlining -= 1
                raise Unsupported("call to %s.%s without contract or model (line %s)" % (rt.cls, th.name, self.cur_line))
            if isinstance(rt, (List, Set, Dict)) or rt == BYTES:
                return self.container_method(st, recv, th.name, args, kw, node)
            cm = self.find_call_model(ftext, "%s.%s" % (rt, th.name))
            if cm is not None:
                return self.apply_model(st, cm, recv, args, kw, node, ftext)
            if isinstance(rt, Enum) or rt == PYOBJ and recv.t.kind == "enumcls":
                ctx = getattr(self, "spec_ctx", None)
                mods = [ctx[1].dotted] if (ctx and self.spec) else []
                mods.append(self.module.dotted)
                con = None
                if rt == PYOBJ:
                    for md in mods:                 # a callee's clause names the enum of *its* module
                        con = con or C.BY_FUNC.get((md, "%s.%s" % (recv.t.name, th.name)))
                if con is not None:
                    return self.apply_contract(st, con, None, args, kw, node)
            if rt == STR and th.name in ("startswith", "endswith") and len(args) == 1 and args[0].ty == STR:
                # strings are an uninterpreted sort: the test is a fixed but unknown function of the two strings
                f = z3.Function("str_" + th.name, STR.sort(), STR.sort(), z3.BoolSort())
                return [(st, V(BOOL, f(recv.t, args[0].t)))]
            raise Unsupported("method %s on %s (line %s)" % (th.name, rt, self.cur_line))
        if k == "enumcls":
            # Enum(value)
            ety = th.ty
            t = None
            x = args[0]
            for m in ety.members:
                val = ety.values[m]
                c = z3.BoolVal(False) if not isinstance(val, int) else (x.t == T.intval(val).t)
                t = ety.member(m).t if t is None else z3.If(c, ety.member(m).t, t)
            return [(st, V(ety, t))]
        if k in ("func", "import", "classattr", "modattr", "class", "selfcls"):
            name = th.name
            cm = self.find_call_model(ftext, name)
            if cm is not None:
                return self.apply_model(st, cm, None, args, kw, node, ftext)
            mod = getattr(th, "module", None)
            con = None
            if k == "func":
                con = C.BY_FUNC.get((mod, name))
            elif k == "import":
                con = C.BY_FUNC.get((self.resolve_module(th.module), name))
            elif k == "modattr":
                con = C.BY_FUNC.get((mod, name))          # module.function(...) of a contracted function
            elif k == "classattr":
                owner = th.owner
                con = C.BY_FUNC.get((getattr(owner, "module", self.module.dotted) or self.module.dotted,
                                     "%s.%s" % (owner.name, name)))
                if con is None:
                    con = C.BY_FUNC.get((self.module.dotted, "%s.%s" % (owner.name, name)))
            if con is not None:
                return self.apply_contract(st, con, None, args, kw, node)
            if name == "for_code" and getattr(th, "module", "") and th.module.endswith("errors") and len(args) == 1:
                # aiokafka.errors.for_code: the errno -> class table is rebuilt from errors.py on every run
                self.exc_id("Exception")
                t = z3.IntVal(self.exc_id("UnknownError"))
                for code, cname in self.exc["for_code"].items():
                    t = z3.If(args[0].t == T.intval(code).t, z3.IntVal(self.exc_id(cname)), t)
                return [(st, V(EXC, t))]
            if name == "create_future" or ftext.endswith("create_future"):
                return [(st, self.new_future(st))]
            if ftext in ("collections.defaultdict", "defaultdict", "collections.deque", "deque", "collections.OrderedDict"):
                # container constructors: typed by the contract's c.local()/field declaration at the assignment
                return [(st, V(PYOBJ, PyThing("emptylist" if ftext.endswith("deque") else "emptydict")))]
            if name in self.c.inline and k == "func":
                return self.inline_call(st, None, name, None, args, kw, node)
            raise Unsupported("call to %s without contract or model (line %s)" % (ftext, self.cur_line))
        if k == "lambda":
            lam = th.node
            s = st.copy()
            s.env = dict(th.env)
            for a, v in zip(lam.args.args, args):
                s.env[a.arg] = v
            outs = self.ev(lam.body, s)
            return [(st, outs[0][1])]
        raise Unsupported("call of %r (line %s)" % (th, self.cur_line))

    def resolve_module(self, m):
        return m

    def find_call_model(self, ftext, alt=None):
        texts = self.call_texts(ftext)
        for cm in self.c.calls:
            if any(_match(cm.pattern, t) for t in texts) or (alt and _match(cm.pattern, alt)):
                return cm
        return None

    def call_texts(self, ftext):
        """the callee text and, when its root is a local assigned exactly once in the function from a plain attribute chain
        (`txn_manager = self._txn_manager`), the text with that chain written out"""
        amap = getattr(self, "_alias_map", None)
        if amap is None:
            amap = self._alias_map = {}
            root = getattr(self, "fnode", None)
            counts = {}
            if root is not None:
                def chain(v):
                    while isinstance(v, ast.Attribute):
                        v = v.value
                    return isinstance(v, ast.Name)
                for n in ast.walk(root):
                    tgts = []
                    if isinstance(n, ast.Assign):
                        tgts = [t for t in n.targets]
                    elif isinstance(n, (ast.AugAssign, ast.AnnAssign)):
                        tgts = [n.target]
                    elif isinstance(n, (ast.For, ast.AsyncFor)):
                        tgts = [n.target]
                    elif isinstance(n, (ast.With, ast.AsyncWith)):
                        tgts = [i.optional_vars for i in n.items if i.optional_vars is not None]
                    elif isinstance(n, ast.NamedExpr):
                        tgts = [n.target]
                    for t in tgts:
                        for x in ast.walk(t):
                            if isinstance(x, ast.Name):
                                counts[x.id] = counts.get(x.id, 0) + 1
                    if isinstance(n, ast.Assign) and len(n.targets) == 1 and isinstance(n.targets[0], ast.Name) \
                            and isinstance(n.value, ast.Attribute) and chain(n.value):
                        amap[n.targets[0].id] = ast.unparse(n.value)
                params = {a.arg for a in root.args.args + root.args.kwonlyargs}
                for k in list(amap):
                    if counts.get(k, 0) != 1 or k in params:
                        del amap[k]
        head, dot, rest = ftext.partition(".")
        if dot and head in amap:
            return [ftext, amap[head] + "." + rest]
        return [ftext]

    # ------------------------------------------------------------------ builtins
    def call_lazy(self, st, f, e):
        n = f.t.name
        if n == "isinstance":
            res = []
            for s, o in self.ev(e.args[0], st):
                names = []
                cl = e.args[1]

                def alts(x):
                    # isinstance(o, (A, B)) and the PEP 604 form isinstance(o, A | B)
                    if isinstance(x, ast.Tuple):
                        return [y for el in x.elts for y in alts(el)]
                    if isinstance(x, ast.BinOp) and isinstance(x.op, ast.BitOr):
                        return alts(x.left) + alts(x.right)
                    return [x]
                for x in alts(cl):
                    names.append(ast.unparse(x).split(".")[-1])
                if o.ty == EXC:
                    res.append((s, V(BOOL, z3.Or([self.exc_is(o.t, nm) for nm in names]))))
                elif isinstance(o.ty, Opt) and o.ty.inner == EXC:
                    res.append((s, V(BOOL, z3.And(o.t != 0, z3.Or([self.exc_is(o.t, nm) for nm in names])))))
                elif isinstance(o.ty, (List, Set, Dict)):
                    # a container type of the model stands for the Python types it may be at run time: the test is true
                    # when all of them are named, false when none is, unknown otherwise
                    kinds = {List: {"list", "tuple"}, Set: {"set", "frozenset"}, Dict: {"dict", "defaultdict", "OrderedDict"}}[type(o.ty)]
                    hit = kinds & set(names)
                    if hit == kinds or (isinstance(o.ty, Set) and "set" in hit) or (isinstance(o.ty, Dict) and "dict" in hit):
                        res.append((s, T.boolval(True)))
                    elif not hit:
                        res.append((s, T.boolval(False)))
                    else:
                        res.append((s, V(BOOL, z3.FreshConst(z3.BoolSort(), "isinst"))))
                else:
                    tn = {"int": INT, "bool": BOOL, "bytes": BYTES, "bytearray": BYTES, "str": STR}
                    oty = o.ty
                    r = any(tn.get(nm) == oty for nm in names) or \
                        (isinstance(oty, Ref) and oty.cls in names)
                    res.append((s, T.boolval(r)))
            return res
        if n == "getattr" and len(e.args) in (2, 3) and isinstance(e.args[1], ast.Constant):
            res = []
            for s, o in self.ev(e.args[0], st):
                attr = e.args[1].value
                if o.ty == EXC and attr in ("retriable", "invalid_metadata"):
                    res.extend(self.getattr_(s, o, attr))       # class attribute table, False when absent
                else:
                    raise Unsupported("getattr(%s, %r) (line %s)" % (o.ty, attr, self.cur_line))
            return res
        if n in ("any", "all") and isinstance(e.args[0], ast.GeneratorExp) and len(e.args[0].generators) == 1 \
                and not e.args[0].generators[0].ifs and isinstance(e.args[0].generators[0].target, ast.Name):
            return self.any_all(st, n, e.args[0])
        raise Unsupported("builtin %s over a comprehension (line %s)" % (n, self.cur_line))

    def any_all(self, st, n, gen):
        """any(elt for x in S) / all(...) for a set or list S and an element expression that is pure up to `x.result()` of
        futures. The result is a fresh Boolean tied to the quantified statement over the members; `x.result()` of a member
        that is not done-with-a-result may raise (any/all stop at the first deciding member, in an order nobody promises:
        both the exception and each normal outcome consistent with some order are kept)."""
        g = gen.generators[0]
        var = g.target.id
        calls = [c for c in ast.walk(gen.elt) if isinstance(c, ast.Call)]
        for c in calls:
            ok = isinstance(c.func, ast.Attribute) and isinstance(c.func.value, ast.Name) and c.func.value.id == var \
                and c.func.attr in ("result", "done", "cancelled") and not c.args
            if not ok:
                raise Unsupported("any/all over an element expression with the call %s (line %s)" % (ast.unparse(c), self.cur_line))
        res = []
        for s, it in self.ev(g.iter, st):
            if isinstance(it.ty, Set):
                ety = it.ty.elem
                q = z3.FreshConst(ety.sort(), "q")
                member = z3.Select(it.t, q)
                bound = [q]
                xv = V(ety, q)
            elif isinstance(it.ty, List):
                ety = it.ty.elem
                i = z3.FreshConst(T.INT.sort(), "qi")
                member = z3.And(i >= 0, i < T.list_len(it).t)
                bound = [i]
                xv = V(ety, z3.Select(T.list_arr(it), i))
            else:
                raise Unsupported("any/all over %s (line %s)" % (it.ty, self.cur_line))
            truth = self.spec_bool(ast.unparse(gen.elt), s, extra={var: xv})
            may_raise = None
            if any(c.func.attr == "result" for c in calls):
                if not (isinstance(ety, Ref) and ety.cls == "Future"):
                    raise Unsupported("any/all: .result() of %s (line %s)" % (ety, self.cur_line))
                state = z3.Select(self.hmap(s, "Future", "state", INT), xv.t)
                may_raise = z3.Exists(bound, z3.And(member, state != T.intval(1).t))
                if not (self.spec or self.no_oblige):
                    s2 = s.copy().assume(may_raise)
                    if self.feasible(s2):
                        self.raise_(s2, "BaseException")
            some_true = z3.Exists(bound, z3.And(member, truth))
            some_false = z3.Exists(bound, z3.And(member, z3.Not(truth)))
            b = z3.FreshConst(z3.BoolSort(), n)
            if n == "any":
                s.assume(z3.Implies(b, some_true))
                s.assume(z3.Implies(z3.Not(b), z3.Not(some_true) if may_raise is None else z3.BoolVal(True)))
                if may_raise is not None:
                    # False needs every member visited: none raised, none was true
                    s.assume(z3.Implies(z3.Not(b), z3.And(z3.Not(may_raise), z3.Not(some_true))))
                    # without a raising member the answer is determined
                    s.assume(z3.Implies(z3.Not(may_raise), b == some_true))
            else:
                s.assume(z3.Implies(z3.Not(b), some_false))
                if may_raise is not None:
                    s.assume(z3.Implies(b, z3.And(z3.Not(may_raise), z3.Not(some_false))))
                    s.assume(z3.Implies(z3.Not(may_raise), b == z3.Not(some_false)))
                else:
                    s.assume(b == z3.Not(some_false))
            res.append((s, V(BOOL, b)))
        return res

    def call_builtin(self, st, n, args, kw, node):
        if n == "len":
            a = args[0]
            if isinstance(a.ty, Opt):
                self.fork_raise(st, T.opt_is_none(a), "TypeError")
                a = T.opt_val(a)
            if isinstance(a.ty, List) or a.ty == BYTES:
                return [(st, V(INT, T.list_len(a)))]
            if isinstance(a.ty, (Set, Dict)):
                return [(st, V(INT, self.card(st, a)))]
            if isinstance(a.ty, Tup):
                return [(st, T.intval(len(a.ty.items)))]
            raise Unsupported("len of %s" % a.ty)
        if n in ("min", "max") and len(args) == 2:
            a, b = args
            if isinstance(a.ty, Opt):
                a = self.coerce_to(st, a, a.ty.inner, n)
            if isinstance(b.ty, Opt):
                b = self.coerce_to(st, b, b.ty.inner, n)
            if a.ty != b.ty and {a.ty, b.ty} == {INT, REAL}:
                a, b = T.coerce(a, REAL), T.coerce(b, REAL)
            if a.ty == b.ty and a.ty in (INT, REAL):
                c = (a.t < b.t) if n == "min" else (a.t > b.t)
                return [(st, V(a.ty, z3.If(c, a.t, b.t)))]
            raise Unsupported("min/max types")
        if n == "abs" and args[0].ty == INT:
            a = args[0]
            return [(st, V(INT, z3.If(a.t < T.intval(0).t, -a.t, a.t)))]
        if n == "int" and len(args) == 1 and args[0].ty in (INT, BOOL):
            return [(st, T.coerce(args[0], INT))]
        if n == "int" and len(args) == 1 and args[0].ty == REAL:
            return [(st, self.fresh(INT, "int_of_real"))]          # truncation of a float: value not tracked
        if n == "bool" and len(args) == 1:
            return [(st, V(BOOL, self.truthy(st, args[0])))]
        if n in ("list", "set", "frozenset", "dict", "tuple"):
            if not args:
                return [(st, V(PYOBJ, PyThing({"list": "emptylist", "tuple": "emptylist", "dict": "emptydict"}.get(n, "emptyset"))))]
            a = args[0]
            if n in ("list", "tuple") and isinstance(a.ty, List):
                return [(st, V(a.ty, a.t))]
            if n in ("set", "frozenset") and isinstance(a.ty, Set):
                return [(st, V(a.ty, a.t))]
            if n in ("set", "frozenset") and a.ty == PYOBJ and a.t.kind in ("emptylist", "emptyset"):
                return [(st, V(PYOBJ, PyThing("emptyset")))]
            if n in ("set", "frozenset") and a.ty == PYOBJ and a.t.kind == "dictkeys":
                d = a.t.dict
                return [(st, V(Set(d.ty.k), T.dict_dom(d)))]          # set(d.keys()): the key set
            if n == "list" and isinstance(a.ty, Set):
                return [(st, V(PYOBJ, PyThing("setiter", set=a)))]
            if n == "list" and a.ty == PYOBJ and a.t.kind in ("dictkeys", "dictvalues", "dictitems"):
                return [(st, a)]
            raise Unsupported("%s(%s)" % (n, a.ty))
        if n in ("bytes", "bytearray", "memoryview") and args and args[0].ty == BYTES:
            return [(st, args[0])]
        if n in ("print", "repr", "id"):
            return [(st, NONEV)]
        if n == "type":
            return [(st, V(PYOBJ, PyThing("typeof", of=args[0])))]
        if n == "str":
            return [(st, self.fresh(STR, "str"))]
        raise Unsupported("builtin %s (line %s)" % (n, self.cur_line))

    def card(self, st, a):
        ty = a.ty
        arr = a.t if isinstance(ty, Set) else T.dict_dom(a)
        ks = ty.elem.sort() if isinstance(ty, Set) else ty.k.sort()
        f = z3.Function("card_%s" % T._san(ty.key()), z3.ArraySort(ks, z3.BoolSort()), INT.sort())
        zero = T.intval(0).t
        if not self.spec:
            st.assume(f(arr) >= zero)
            st.assume((f(arr) == zero) == (arr == z3.K(ks, False)))
        return f(arr)

    # --------------------------------------------------------------- containers
    def container_method(self, st, recv, name, args, kw, node):
        ty = recv.ty
        lv = recv.lv
        one = T.intval(1).t
        zero = T.intval(0).t

        def wb(nv):
            if lv is None:
                raise Unsupported("mutation of a container that is not an lvalue (line %s)" % self.cur_line)
            self.write_lv(st, lv, nv)

        if isinstance(ty, List):
            arr, ln = T.list_arr(recv), T.list_len(recv)
            if name == "append":
                x = self.coerce_to(st, args[0], ty.elem, "append")
                if x is None:
                    raise Unsupported("append %s to %s" % (args[0].ty, ty))
                wb(T.list_mk(ty, z3.Store(arr, ln, x.t), ln + one))
                return [(st, NONEV)]
            if name == "appendleft":
                x = self.coerce_to(st, args[0], ty.elem, "appendleft")
                j = z3.Const("j!al", INT.sort())
                narr = z3.Lambda([j], z3.If(j == zero, x.t, z3.Select(arr, j - one)))
                wb(T.list_mk(ty, narr, ln + one))
                return [(st, NONEV)]
            if name in ("popleft",) or (name == "pop" and args and arith.const_of(args[0].t) == 0):
                self.fork_raise(st, ln == zero, "IndexError")
                j = z3.Const("j!pl", INT.sort())
                narr = z3.Lambda([j], z3.Select(arr, j + one))
                x = V(ty.elem, z3.Select(arr, zero))
                self.assume_valid(st, x)
                wb(T.list_mk(ty, narr, ln - one))
                return [(st, x)]
            if name == "pop" and not args:
                self.fork_raise(st, ln == zero, "IndexError")
                x = V(ty.elem, z3.Select(arr, ln - one))
                self.assume_valid(st, x)
                wb(T.list_mk(ty, arr, ln - one))
                return [(st, x)]
            if name == "clear":
                wb(T.list_mk(ty, arr, zero))
                return [(st, NONEV)]
            if name == "extend" and args[0].ty == ty:
                wb(self.list_concat(recv, args[0]))
                return [(st, NONEV)]
            if name == "copy":
                return [(st, V(ty, recv.t))]
        if isinstance(ty, Set):
            if name in ("add", "discard", "remove"):
                x = self.coerce_to(st, args[0], ty.elem, name)
                if x is None:
                    raise Unsupported("set.%s elem type %s vs %s" % (name, args[0].ty, ty.elem))
                if name == "remove":
                    self.fork_raise(st, z3.Not(z3.Select(recv.t, x.t)), "KeyError")
                wb(V(ty, z3.Store(recv.t, x.t, name == "add")))
                return [(st, NONEV)]
            if name == "clear":
                wb(V(ty, z3.K(ty.elem.sort(), False)))
                return [(st, NONEV)]
            if name == "pop" and not args:
                self.fork_raise(st, recv.t == z3.K(ty.elem.sort(), False), "KeyError")
                x = self.fresh(ty.elem, "popped")          # set.pop(): an arbitrary element
                st.assume(z3.Select(recv.t, x.t))
                self.assume_valid(st, x)
                wb(V(ty, z3.Store(recv.t, x.t, False)))
                return [(st, x)]
            if name == "copy":
                return [(st, V(ty, recv.t))]
            if name in ("update", "difference_update") and len(args) == 1 and isinstance(args[0].ty, (Set, Dict, List)):
                from .exec_expr import _or_decl, _and_decl, _not_decl
                a = args[0]
                aty = a.ty
                ety = aty.elem if isinstance(aty, (Set, List)) else aty.k
                if ety != ty.elem:
                    # the argument's members are values of another modelled type: none of them equals a member of
                    # this set (Python compares e.g. an int node id and a TopicPartition as unequal), so for the
                    # modelled element type the set does not change
                    return [(st, NONEV)]
                if isinstance(aty, List):
                    raise Unsupported("set.%s(list) (line %s)" % (name, self.cur_line))
                other = a.t if isinstance(aty, Set) else T.dict_dom(a)
                if name == "update":
                    wb(V(ty, z3.Map(_or_decl(), recv.t, other)))
                else:
                    wb(V(ty, z3.Map(_and_decl(), recv.t, z3.Map(_not_decl(), other))))
                return [(st, NONEV)]
        if isinstance(ty, Dict):
            dom, val = T.dict_dom(recv), T.dict_val(recv)
            if name == "get":
                k = T.coerce(args[0], ty.k)
                has = z3.Select(dom, k.t)
                oty = ty.v if isinstance(ty.v, Opt) else Opt(ty.v)
                dflt = T.opt_none(oty) if len(args) < 2 else T.coerce(args[1], oty)
                if isinstance(ty.v, Ref) and not self.spec:
                    # a reference stored under a present key denotes an existing object
                    st.assume(z3.Implies(has, self.ref_valid(st, z3.Select(val, k.t))))
                if (isinstance(ty.v, List) or ty.v == BYTES) and not self.spec:
                    # a list stored under a present key has a non-negative length (as for subscripts)
                    st.assume(z3.Implies(has, self.len_wf(T.list_len(V(ty.v, z3.Select(val, k.t))))))
                some = T.coerce(V(ty.v, z3.Select(val, k.t)), oty)
                r = V(oty, z3.If(has, some.t, dflt.t), lv=("item", lv, k) if lv else None)
                return [(st, r)]
            if name == "pop":
                k = T.coerce(args[0], ty.k)
                has = z3.Select(dom, k.t)
                if len(args) < 2:
                    self.fork_raise(st, z3.Not(has), "KeyError")
                    r = V(ty.v, z3.Select(val, k.t))
                else:
                    oty = ty.v if isinstance(ty.v, Opt) else Opt(ty.v)
                    r = V(oty, z3.If(has, T.coerce(V(ty.v, z3.Select(val, k.t)), oty).t, T.coerce(args[1], oty).t))
                wb(T.dict_mk(ty, z3.Store(dom, k.t, False), val))
                self.assume_valid(st, r)
                return [(st, r)]
            if name == "clear":
                wb(T.dict_mk(ty, z3.K(ty.k.sort(), False), val))
                return [(st, NONEV)]
            if name in ("keys", "values", "items"):
                return [(st, V(PYOBJ, PyThing("dict" + name, dict=recv)))]
            if name == "setdefault":
                k = T.coerce(args[0], ty.k)
                d = T.coerce(args[1], ty.v)
                has = z3.Select(dom, k.t)
                nv = z3.If(has, z3.Select(val, k.t), d.t)
                wb(T.dict_mk(ty, z3.Store(dom, k.t, True), z3.Store(val, k.t, nv)))
                return [(st, V(ty.v, nv, lv=("item", lv, k) if lv else None))]
        raise Unsupported("method %s on %s (line %s)" % (name, ty, self.cur_line))

    # ------------------------------------------------------------------- futures
    def new_future(self, st, res=None):
        r = self.alloc(st, "Future")
        self.no_oblige += 1
        try:
            self.hwrite(st, r, "Future", "state", T.intval(0), check_frame=False)
            self.hwrite(st, r, "Future", "nres", T.intval(0), check_frame=False)
        finally:
            self.no_oblige -= 1
        return V(Fut(res), r)

    def fut_state(self, st, f):
        return z3.Select(self.hmap(st, "Future", "state"), f.t)

    def future_method(self, st, f, name, args, kw, node):
        state = self.fut_state(st, f)
        zero = T.intval(0).t
        if name == "done":
            return [(st, V(BOOL, state != zero))]
        if name == "cancelled":
            return [(st, V(BOOL, state == T.intval(3).t))]
        if name in ("set_result", "set_exception"):
            self.fork_raise(st, state != zero, "InvalidStateError")
            self.hwrite(st, f.t, "Future", "state", T.intval(1 if name == "set_result" else 2))
            nres = z3.Select(self.hmap(st, "Future", "nres"), f.t)
            self.hwrite(st, f.t, "Future", "nres", V(INT, nres + T.intval(1).t), check_frame=False)
            v = args[0]
            if name == "set_result":
                if v.ty != NONE or getattr(f.ty, "res", None) not in (None, NONE):
                    rty = getattr(f.ty, "res", None) or v.ty
                    cv = T.coerce(v, rty)
                    if cv is None:
                        raise Unsupported("future result type %s vs %s" % (v.ty, rty))
                    self.hwrite(st, f.t, "Future", "res:" + rty.key(), cv, ty=rty, check_frame=False)
            else:
                if v.ty != EXC:
                    raise Unsupported("set_exception(%s)" % v.ty)
                self.hwrite(st, f.t, "Future", "exc", v, check_frame=False)
            return [(st, NONEV)]
        if name in ("result", "exception"):
            if not self.spec:
                # pending future: InvalidStateError; failed future: re-raises the stored exception
                self.fork_raise(st, state == zero, "InvalidStateError")
                self.fork_raise(st, state == T.intval(3).t, "CancelledError")
            exc = V(EXC, z3.Select(self.hmap(st, "Future", "exc"), f.t))
            if not self.spec:
                st.assume(z3.Implies(state == T.intval(2).t, z3.And(exc.t > 0, exc.t <= max(self.exc_names().values()))))
            if name == "exception":
                oty = Opt(EXC)
                return [(st, V(oty, z3.If(state == T.intval(2).t, exc.t, z3.IntVal(0))))]
            if not self.spec:
                s2 = st.copy().assume(state == T.intval(2).t)
                if self.feasible(s2):
                    self.raises_stack[-1].append(Out("raise", s2, exc))
                st.assume(state != T.intval(2).t)
            rty = getattr(f.ty, "res", None)
            if rty is None or rty == NONE:
                return [(st, NONEV)]
            return [(st, self.hread(st, f.t, "Future", "res:" + rty.key(), ty=rty))]
        if name == "cancel":
            was = state == zero
            self.hwrite(st, f.t, "Future", "state", V(INT, z3.If(was, T.intval(3).t, state)))
            return [(st, V(BOOL, was))]
        if name in ("add_done_callback", "remove_done_callback"):
            self.note("Future.%s: callbacks are not modelled (they run later, in another atomic section)" % name)
            return [(st, NONEV)]
        raise Unsupported("Future.%s" % name)

    def note(self, s):
        if s not in self.notes:
            self.notes.append(s)

    # ------------------------------------------------------- contracted callees
    def bind_args(self, con, fnode, recv, args, kw, st=None):
        env = {}
        names = [a.arg for a in fnode.args.args] + [a.arg for a in fnode.args.kwonlyargs]
        pos = [a.arg for a in fnode.args.args]
        is_method = con.self_cls is not None or (pos and pos[0] in ("self", "cls"))
        if pos and pos[0] in ("self", "cls"):
            if recv is not None:
                env[pos[0]] = recv
            elif pos[0] == "cls":
                env["cls"] = V(PYOBJ, PyThing("selfcls", name=con.fname.split(".")[0], module=con.module))
            pos = pos[1:]
        for n, v in zip(pos, args):
            env[n] = v
        if len(args) > len(pos):
            raise Unsupported("too many positional args for %s" % con.qual)
        for n, v in kw.items():
            env[n] = v
        # defaults
        d = fnode.args.defaults
        allpos = [a.arg for a in fnode.args.args]
        for a, dn in zip(allpos[len(allpos) - len(d):], d):
            if a not in env:
                env[a] = self.default_of(dn)
        for a, dn in zip(fnode.args.kwonlyargs, fnode.args.kw_defaults):
            if a.arg not in env and dn is not None:
                env[a.arg] = self.default_of(dn)
        ptys = dict(con.params)
        for n in list(env):
            if n in ptys and isinstance(env[n], V):
                cv = T.coerce(env[n], ptys[n])
                if cv is None:
                    if env[n].ty == PYOBJ and env[n].t.kind in ("emptylist", "emptyset", "emptydict"):
                        cv = self.empty_container(ptys[n])
                    elif isinstance(env[n].ty, Opt) and env[n].ty.inner == ptys[n] and st is not None:
                        # callee's parameter type excludes None: that is part of its precondition
                        self.oblige(st, "pre", "%s:%s-not-None" % (con.fname, n), z3.Not(T.opt_is_none(env[n])))
                        cv = T.opt_val(env[n])
                    else:
                        raise Unsupported("argument %s of %s: %s where %s expected (line %s)" % (n, con.qual, env[n].ty, ptys[n], self.cur_line))
                env[n] = cv
        for n, _ in con.params:
            if n not in env:
                raise Unsupported("argument %s of %s not supplied (line %s)" % (n, con.qual, self.cur_line))
        return env

    def default_of(self, node):
        from .source import _const_eval, _NOCONST
        v = _const_eval(node, {})
        if v is _NOCONST:
            return V(PYOBJ, PyThing("default", node=node))
        return self.py_const(v)

    def apply_contract(self, st, con, recv, args, kw, node):
        from . import source
        saved = self.fact_target
        saved_ctx = getattr(self, "spec_ctx", None)
        if self._ax_sink is None:
            self.fact_target = st        # facts produced while evaluating the callee's clauses belong to the caller's path
        self.spec_ctx = (con, source.module(con.module))
        try:
            return self._apply_contract(st, con, recv, args, kw, node)
        finally:
            self.fact_target = saved
            self.spec_ctx = saved_ctx

    def _apply_contract(self, st, con, recv, args, kw, node):
        from . import source
        fnode = source.module(con.module).func(con.fname)
        env = self.bind_args(con, fnode, recv, args, kw, st)
        is_async = isinstance(fnode, ast.AsyncFunctionDef)
        call_st = st.copy()
        call_st.env = env
        call_st.ghost = dict(st.ghost)
        tag = con.fname
        if con.pure:
            # A pure deterministic function of its (value) arguments: its result *is* a function of
            # them, named by an uninterpreted symbol; what its own verification proved about `result`
            # for all arguments holds of that symbol (instances added as facts).
            args_v = [env[p] for p, _ in con.params]
            uf = z3.Function("pure_" + _safe(con.qual), *([a.ty.sort() for a in args_v] + [con.ret.sort()]))
            res = V(con.ret, uf(*[a.t for a in args_v]))
            post_st = st.copy()
            post_st.env = dict(env)
            post_st.env["result"] = res
            saved = self.unfold_on
            self.unfold_on = False
            facts = [self.spec_bool(expr, post_st, old=call_st) for _, expr in con.ensures_]
            self.unfold_on = saved
            if self._ax_sink is not None:
                self._ax_sink.extend(facts)
            else:
                for f in facts:
                    st.assume(f)
            if not self.spec:
                for label, expr in con.requires_:
                    self.oblige(st, "pre", "%s:%s" % (tag, label), self.spec_bool(expr, call_st, old=call_st), node.lineno)
            return [(st, res)]
        if not self.spec and con.self_cls and not con.no_class_inv and recv is not None:
            mine = self.entry is not None and "self" in self.entry.env and self.c.self_cls == con.self_cls \
                and recv.t.eq(self.entry.env["self"].t)
            for label, expr in self.class_inv(con.self_cls, assumed=True):
                g = self.spec_bool(expr, call_st, old=call_st)
                if mine and label.startswith("inv:"):
                    # re-entrant call on the object whose invariant this method may have broken: prove it
                    self.oblige(st, "pre", "%s:%s" % (tag, label), g, node.lineno)
                else:
                    st.assume(g)          # visible-state invariant of another object
        if not self.spec:
            for label, expr in con.requires_:
                g = self.with_mode_of(con, lambda: self.spec_bool(expr, call_st, old=call_st))
                self.oblige(st, "pre", "%s:%s" % (tag, label), g, node.lineno)
        results = []
        # exceptional behaviours
        normal_st = st
        for label, exc, when, ens, exact in con.raises_:
            cond = self.spec_bool(when, call_st, old=call_st) if when else None
            s2 = st.copy()
            if cond is not None:
                s2.assume(cond)
            if self.spec or not self.feasible(s2):
                if cond is not None and exact:
                    normal_st.assume(z3.Not(cond))
                continue
            if ens:
                self.havoc_modifies(s2, con, env)
                es = s2.copy()
                es.env = dict(env)
                ft, self.fact_target = self.fact_target, (s2 if self.fact_target is not None else None)
                for _, ex_expr in ens:
                    s2.assume(self.spec_assume(ex_expr, es, old=call_st))
                self.fact_target = ft
            ids = self.exc_subclass_ids(exc)
            ev = self.fresh(EXC, "exc")
            s2.assume(z3.Or([ev.t == i for i in ids]))
            self.raises_stack[-1].append(Out("raise", s2, ev))
            if cond is not None and exact:
                normal_st.assume(z3.Not(cond))
        if is_async and not self.spec:
            self.yield_point(normal_st, node)
        self.havoc_modifies(normal_st, con, env)
        if not self.spec:
            self.alloc_boundary(normal_st)       # the callee may have allocated
        res = NONEV
        if con.ret is not None and con.ret != NONE:
            res = self.fresh(con.ret, "ret_" + tag.split(".")[-1])
            self.assume_valid(normal_st, res)
        if any("fresh(result)" in e for _, e in con.ensures_):
            self.havoc_object(normal_st, res)
        post_st = normal_st.copy()
        post_st.env = dict(env)
        post_st.env["result"] = res
        auto = self.class_inv(con.self_cls) if (con.self_cls and not con.no_class_inv and recv is not None) else []
        view = None
        for suffix, labels in getattr(self.c, "callee_views", {}).items():
            if con.qual.endswith(suffix):
                view = labels
                unknown = labels - set(l for l, _ in con.ensures_)
                if unknown:
                    raise BindingError("callee_view(%s): %s has no postcondition labelled %s" % (suffix, con.qual, sorted(unknown)))
        for label, expr in auto + list(con.ensures_):
            if view is not None and (label, expr) in con.ensures_ and label not in view:
                continue
            normal_st.assume(self.spec_assume(expr, post_st, old=call_st))
        if is_async:
            return [(normal_st, V(PYOBJ, PyThing("awaited", value=res)))]
        return [(normal_st, res)]

    def with_mode_of(self, con, fn):
        return fn()

    def exc_subclass_ids(self, name):
        self.exc_id(name)
        return [i for n, i in self.exc["ids"].items() if name in self.exc["anc"].get(n, {n})]

    def havoc_modifies(self, st, con_or_model, env, only=None):
        """only: optional set of (class, field) — restrict the havoc to those maps."""
        mods = con_or_model.modifies_ if hasattr(con_or_model, "modifies_") else con_or_model.modifies
        fut_before = {f: self.hmap(st, "Future", f, self.any_field_ty("Future", f)) for f in self.class_fields("Future", st)} \
            if any(l.startswith("Future.") for l in mods) else None
        try:
            self._havoc_modifies(st, mods, env, only)
        finally:
            if fut_before is not None:
                # asyncio semantics: a future that is done never changes again
                r = z3.FreshConst(z3.IntSort(), "r")
                same = [z3.Select(self.hmap(st, "Future", f, self.any_field_ty("Future", f)), r) == z3.Select(m, r)
                        for f, m in fut_before.items()]
                st.assume(z3.ForAll([r], z3.Implies(z3.Select(fut_before["state"], r) != T.intval(0).t, z3.And(same))))

    def _havoc_modifies(self, st, mods, env, only=None):
        for loc in mods:
            head, _, f = loc.rpartition(".")
            if head in C.CLASSES or head == "Future":
                for fld in self.class_fields(head, st):
                    if only is not None and (head, fld) not in only and (head, "*") not in only:
                        continue
                    if f == "*" or f == fld or (f == "res" and fld.startswith("res:")):
                        ty = self.any_field_ty(head, fld)
                        st.heap[(head, fld)] = z3.FreshConst(z3.ArraySort(z3.IntSort(), ty.sort()), "hv_%s_%s" % (head, _safe(fld)))
                        self.pending_valid(st, ty, st.heap[(head, fld)], whole_map=True)
                continue
            s = st.copy()
            s.env = dict(env)
            self.spec += 1
            try:
                _, hv = self.ev1(_parse(head), s)
            finally:
                self.spec -= 1
            rty = hv.ty.inner if isinstance(hv.ty, Opt) else hv.ty
            if not isinstance(rty, Ref):
                raise Unsupported("modifies location %s is not a reference" % loc)
            saved_spec, self.spec = self.spec, 0
            self.assume_valid(st, hv)          # it was read from the heap: it denotes an allocated object
            self.spec = saved_spec
            cls = rty.cls
            for fld in self.class_fields(cls, st):
                if only is not None and (cls, fld) not in only and (cls, "*") not in only:
                    continue
                if f == "*" or f == fld or (f == "res" and fld.startswith("res:")):
                    ty = self.any_field_ty(cls, fld)
                    nv = z3.FreshConst(ty.sort(), "hv_%s_%s" % (cls, _safe(fld)))
                    st.heap[(cls, fld)] = z3.Store(self.hmap(st, cls, fld, ty), hv.t, nv)
                    self.pending_valid(st, ty, nv, whole_map=False)

    def havoc_object(self, st, res):
        """The callee returns a newly allocated object: its fields are whatever the callee's post says
        (the entry heap maps carry no information about a reference that did not exist at entry)."""
        ty = res.ty.inner if isinstance(res.ty, Opt) else res.ty
        if not isinstance(ty, Ref) or res.t is None:
            return
        for fld in self.class_fields(ty.cls, st):
            fty = self.any_field_ty(ty.cls, fld)
            nv = z3.FreshConst(fty.sort(), "new_%s_%s" % (ty.cls, _safe(fld)))
            st.heap[(ty.cls, fld)] = z3.Store(self.hmap(st, ty.cls, fld, fty), res.t, nv)
            self.pending_valid(st, fty, nv, whole_map=False)

    def class_fields(self, cls, st):
        if cls == "Future":
            fl = list(FUTURE_FIELDS)
            for (c, f) in list(self.heap0) + list(st.heap):
                if c == "Future" and f.startswith("res:") and f not in fl:
                    fl.append(f)
            return fl
        return list(C.CLASSES[cls].fields)

    def any_field_ty(self, cls, fld):
        if cls == "Future" and fld.startswith("res:"):
            for (c, f), (_, ty) in self.heap0.items():
                if c == cls and f == fld:
                    return ty
            raise Unsupported("unknown future result map %s" % fld)
        return self.field_ty(cls, fld)

    def apply_model(self, st, cm, recv, args, kw, node, ftext):
        self.trusted_used.add("call-model %s: %s" % (cm.pattern, cm.note or "assumed behaviour"))
        if cm.kwargs is not None and set(kw) - set(cm.kwargs):
            raise Unsupported("call model %s does not cover keyword argument(s) %s (line %s)" % (
                cm.pattern, sorted(set(kw) - set(cm.kwargs)), node.lineno))
        if cm.nargs is not None and len(args) != cm.nargs:
            raise Unsupported("call model %s is written for %d positional argument(s), the call has %d (line %s)" % (
                cm.pattern, cm.nargs, len(args), node.lineno))
        if getattr(cm, "permutes", None) is not None:
            a = args[cm.permutes]
            if not isinstance(a.ty, List) or a.lv is None:
                raise Unsupported("call model %s permutes argument %d, which is not a list variable (line %s)" % (
                    cm.pattern, cm.permutes, node.lineno))
            # same length; every new position holds some old element and every old element sits at some new position
            r = self.fresh(a.ty, "perm")
            n = self.__dict__["_perm_n"] = self.__dict__.get("_perm_n", 0) + 1
            ln = T.list_len(a)
            st.assume(T.list_len(r) == ln)
            k = z3.FreshConst(INT.sort(), "kp")
            src = z3.Function("perm_src%d" % n, INT.sort(), INT.sort())
            dst = z3.Function("perm_dst%d" % n, INT.sort(), INT.sort())
            zero = T.intval(0).t
            inr = z3.And(zero <= k, k < ln)
            st.assume(z3.ForAll([k], z3.Implies(inr, z3.And(zero <= src(k), src(k) < ln,
                                                            z3.Select(T.list_arr(r), k) == z3.Select(T.list_arr(a), src(k)))),
                                patterns=[z3.Select(T.list_arr(r), k)]))
            st.assume(z3.ForAll([k], z3.Implies(inr, z3.And(zero <= dst(k), dst(k) < ln,
                                                            z3.Select(T.list_arr(r), dst(k)) == z3.Select(T.list_arr(a), k))),
                                patterns=[z3.Select(T.list_arr(a), k)]))
            self.write_lv(st, a.lv, r)
        env = {"self_": recv} if recv is not None else {}
        for i, a in enumerate(args):
            env["a%d" % i] = a
        for k, v in kw.items():
            env["kw_" + k] = v
        call_st = st.copy()
        call_st.env = dict(st.env)
        call_st.env.update(env)
        for label, expr in cm.pre:
            self.oblige(st, "pre", "%s:%s" % (cm.pattern, label), self.spec_bool(expr, call_st, old=call_st), node.lineno)
        for exc in cm.raises:
            when = None
            if isinstance(exc, tuple):
                # (name, when, exact): raised only in states satisfying `when`; exact: and always in those
                exc, wexpr, exact = exc
                when = self.spec_bool(wexpr, call_st, old=call_st)
            s2 = st.copy()
            if when is not None:
                s2.assume(when)
                if exact:
                    st.assume(z3.Not(when))
                if not self.feasible(s2):
                    continue
            ev = self.fresh(EXC, "exc")
            s2.assume(z3.Or([ev.t == i for i in self.exc_subclass_ids(exc)]))
            if cm.havoc_all:
                self.yield_point(s2, node)
            self.raises_stack[-1].append(Out("raise", s2, ev))
        if cm.havoc_all:
            self.yield_point(st, node)
        self.havoc_modifies(st, cm, call_st.env)
        if not cm.havoc_all:
            self.alloc_boundary(st)
        res = NONEV
        surely_fresh = any(e.strip() == "fresh(result)" for e in cm.post)
        if cm.returns is not None and cm.returns != NONE:
            if isinstance(cm.returns, str):
                res = self.spec_eval(cm.returns, call_st, old=call_st)
            elif surely_fresh and isinstance(cm.returns, Ref):
                # the callee returns an object it has just created: allocated past everything that exists now (so it
                # aliases nothing, not even objects other tasks created during a suspension), and inside our frame
                res = V(cm.returns, self.alloc(st, cm.returns.cls))
            else:
                res = self.fresh(cm.returns, "ret")
                self.assume_valid(st, res)
        if any("fresh(result)" in e for e in cm.post):
            self.havoc_object(st, res)
        post_st = st.copy()
        post_st.env = dict(call_st.env)
        post_st.env["result"] = res
        for wn, wty in cm.fresh.items():
            post_st.env[wn] = self.fresh(wty, wn)
        for expr in cm.post:
            st.assume(self.spec_assume(expr, post_st, old=call_st))
        if cm.ghost:
            for g, expr in cm.ghost.items():
                st.ghost[g] = self.spec_eval(expr, post_st, old=call_st)
        if cm.havoc_all and getattr(self, "awaited_call", None) is node:
            # `await f(...)` with a suspending model: the model's havoc is the suspension, its post holds on resumption
            return [(st, V(PYOBJ, PyThing("awaited", value=res)))]
        return [(st, res)]

    def inline_call(self, st, cls, name, recv, args, kw, node):
        qual = ("%s.%s" % (self.real_class_name(cls), name)) if cls else name
        return self.inline_node(st, qual, self.module.func(qual), recv, args, kw)

    def inline_node(self, st, qual, fnode, recv, args, kw):
        fake = C.Contract("%s:%s" % (self.module.dotted, qual), self.pid)
        env = self.bind_args(fake, fnode, recv, args, kw, st)
        s = st.copy()
        s.env = env
        saved_ord = self.loop_ord
        outs = self.exec_block(fnode.body, s)
        self.loop_ord = saved_ord
        res = []
        for o in outs:
            o.st.env = dict(st.env)
            if o.kind == "fall":
                res.append((o.st, NONEV))
            elif o.kind == "return":
                res.append((o.st, o.val))
            elif o.kind == "raise":
                self.raises_stack[-1].append(o)
            else:
                raise Unsupported("inline outcome %s" % o.kind)
        return res

    def small_helper(self, cls, name):
        """The AST of method `name` of the real class behind class model `cls`, if it is defined in the module under
        verification, is synchronous, loop-free, not recursive and small; None otherwise."""
        if self.spec or getattr(self, "_inlining", 0) >= 2:
            return None
        cm = C.CLASSES.get(cls)
        if cm is None or not cm.real or cm.real.split(":")[0] != self.module.dotted:
            return None
        try:
            fnode = self.module.func("%s.%s" % (cm.real.split(":")[1], name))
        except Exception:
            return None
        if not isinstance(fnode, ast.FunctionDef) or fnode.decorator_list:
            return None
        nodes = list(ast.walk(fnode))
        if len(nodes) > 150 or any(isinstance(n, (ast.For, ast.While, ast.Await, ast.Yield, ast.YieldFrom, ast.Lambda,
                                                  ast.FunctionDef, ast.AsyncFunctionDef)) for n in nodes[1:]):
            return None
        if any(isinstance(n, ast.Attribute) and n.attr == name and isinstance(n.ctx, ast.Load) for n in nodes):
            return None            # (mutually) recursive helpers are not unfolded
        return fnode

    def real_class_name(self, cls):
        cm = C.CLASSES[cls]
        return cm.real.split(":")[1] if cm.real else cls


def _match(pattern, text):
    return fnmatch.fnmatchcase(text, pattern)


def _safe(s):
    return "".join(ch if ch.isalnum() else "_" for ch in s)
