"""C14 — range assignor: the per-topic split arithmetic (a fragment contract on the real loop).

Only the loop `for i, member in enumerate(consumers_for_topic)` of RangePartitionAssignor.assign is under
contract here: for every number of partitions n and of subscribed members k >= 1 the slices handed out tile
[0, n) contiguously and their sizes differ by at most one. The code around it (grouping members per topic,
sorting, building the protocol objects) and the round-robin and sticky assignors are covered only by the
exhaustive enumeration in bounded/C14.py, which is reported separately and never counted as proved."""
import z3
from pyvc.contract import contract, classmodel, specfn
from pyvc.ty import V, INT, BOOL, STR, Opt, Tup, List, Set, Dict, Ref, Opaque
from pyvc import ty as T

MOD = "aiokafka.coordinator.assignors.range"
ASSIGN = Dict(STR, Dict(STR, List(INT), default=None), default="dict")


@specfn("range_start")
def range_start(ex, st, j, n, k):
    """S(j) = q*j + min(j, r) with q = n div k, r = n mod k: first partition index of the j-th member (sorted order)."""
    q, r = n.t / k.t, n.t % k.t
    return V(INT, q * j.t + z3.If(j.t < r, j.t, r))


S = "range_start({0}, len(partitions_list), len(consumers_for_topic))"
SLICE_OF = ("len(assignment[consumers_for_topic[j]][topic]) == " + S.format("j + 1") + " - " + S.format("j") +
            " and forall(lambda t: implies(0 <= t < len(assignment[consumers_for_topic[j]][topic]),"
            " assignment[consumers_for_topic[j]][topic][t] == partitions_list[" + S.format("j") + " + t]))")


@contract(MOD + ":RangePartitionAssignor.assign", ["C14", "C05"])
def _(c):
    c.param("cluster", Opaque("Cluster"))
    c.param("members", Opaque("Members"))
    c.local("consumers_for_topic", List(STR))
    c.local("partitions_list", List(INT))
    c.local("partitions_per_consumer", INT)
    c.local("consumers_with_extra", INT)
    c.local("assignment", ASSIGN)
    c.local("topic", STR)
    c.fragment("for i, member in enumerate(consumers_for_topic)", requires=[
        "len(consumers_for_topic) >= 1",
        "partitions_per_consumer == len(partitions_list) // len(consumers_for_topic)",
        "consumers_with_extra == len(partitions_list) % len(consumers_for_topic)",
        # members are distinct (they are the keys of the members mapping, each listed once per topic)
        "forall(lambda a, b: implies(0 <= a < b < len(consumers_for_topic), consumers_for_topic[a] != consumers_for_topic[b]))",
    ])
    c.loop(3, header="for i, member in enumerate(consumers_for_topic)", invariants=[
        ("earlier-members-hold-their-slice", "forall(lambda j: implies(0 <= j < $i, consumers_for_topic[j] in assignment"
         " and topic in assignment[consumers_for_topic[j]] and " + SLICE_OF + "))"),
    ])
    c.ensures("every-member-holds-its-contiguous-slice", "forall(lambda j: implies(0 <= j < len(consumers_for_topic),"
              " consumers_for_topic[j] in assignment and topic in assignment[consumers_for_topic[j]] and " + SLICE_OF + "))")
    # the slices [S(j), S(j+1)) tile [0, n): consecutive by construction, first starts at 0, last ends at n
    c.ensures("slices-start-at-zero", S.format("0") + " == 0")
    c.ensures("slices-end-at-n", S.format("len(consumers_for_topic)") + " == len(partitions_list)")
    c.ensures("loads-within-one", "forall(lambda j: implies(0 <= j < len(consumers_for_topic),"
              " partitions_per_consumer <= " + S.format("j + 1") + " - " + S.format("j") + " <= partitions_per_consumer + 1))")
    c.ensures("slices-inside-the-list", "forall(lambda j: implies(0 <= j <= len(consumers_for_topic),"
              " 0 <= " + S.format("j") + " <= len(partitions_list)))")
    c.replay_fn = lambda model, ob=None: {"script": _RANGE_SCRIPT}


# replay: the real RangePartitionAssignor over one topic, 0..13 partitions and 1..6 members (listed in two orders)
_RANGE_SCRIPT = '''
from unittest import mock
from aiokafka.coordinator.assignors.range import RangePartitionAssignor
bad = []
for n in range(0, 14):
    for k in range(1, 7):
        for rev in (False, True):
            names = ["m%d" % i for i in range(k)]
            members = {m: RangePartitionAssignor.metadata(["t"]) for m in (reversed(names) if rev else names)}
            cluster = mock.MagicMock()
            cluster.partitions_for_topic = lambda t, n=n: set(range(n))
            res = RangePartitionAssignor.assign(cluster, members)
            owned = {m: sorted(p for t, ps in res[m].assignment for p in ps) for m in names}
            flat = sorted(p for ps in owned.values() for p in ps)
            loads = [len(owned[m]) for m in names]
            want = []
            start = 0
            for j in range(k):
                ln = n // k + (1 if j < n % k else 0)
                want.append(list(range(start, start + ln))); start += ln
            if flat != list(range(n)) or max(loads) - min(loads) > 1 or [owned[m] for m in names] != want:
                bad.append((n, k, owned))
VIOLATED = bool(bad)
DETAIL = "range assignor, (partitions, members, what each member got): %r" % (bad[:2],) if bad else "ok"
'''
