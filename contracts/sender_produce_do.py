"""C01 / C02 — aiokafka/producer/sender.py: SendProduceReqHandler.do, one produce request/response round.

C02: "Every future returned by send() ... is resolved exactly once, with metadata or an error ... With idempotence
enabled, retriable faults alone never fail an accepted record"; C01: "no loss ... under retries". A batch that went out
with the request must not be dropped on the floor by whatever ends the round: when the send fails it is either failed
(only if it may not be retried: _can_retry, under contract) or put back into the accumulator; with acks=0 it is
resolved without metadata; otherwise the response decides per partition (handle_response, under contract). Every batch
queued for a retry is re-enqueued (reenqueue, under contract: at the front of its partition's queue) after the
back-off."""
import z3
from pyvc import ty as T
from pyvc.contract import contract, classmodel, specfn, SPEC_TYPES, CLASSES
from pyvc.ty import V, INT, BOOL, REAL, STR, NONE, EXC, BYTES, Opt, Tup, List, Set, Dict, Ref, Opaque
from pyvc.exec_base import Fut
from .common import TP
from .message_accumulator import BATCH
from . import sender, message_accumulator      # noqa: F401

MOD = "aiokafka.producer.sender"
SPEC_TYPES["BATCH"] = BATCH
classmodel("ProduceRequestObj", {"required_acks": INT})
QUEUED = "exists(lambda k: 0 <= k < len(self._to_reenqueue) and self._to_reenqueue[k] == %s)"
SETTLED = "forall(TP, lambda q: implies(q in self._batches, self._batches[q].future.done() or self._batches[q] in $requeued))"


@specfn("no_batches")
def no_batches(ex, st):
    return V(Set(BATCH), z3.K(BATCH.sort(), False))


@specfn("set_with")
def set_with(ex, st, s, x):
    return V(s.ty, z3.Store(s.t, x.t, True))


@contract(MOD + ":SendProduceReqHandler.do", ["C01", "C02"])
def _(c):
    c.self_("SendProduceReqHandler")
    c.param("node_id", INT)
    c.none_raises = True
    # the handler object lives for one request and is used by one task; a batch's future is created once
    c.owns("self._batches", "self._to_reenqueue", "self._sender", "self._client", "self._default_backoff",
           "Sender._message_accumulator", "Sender._txn_manager", "Sender._acks")
    c.immutable("MessageBatch.future")
    c.ghost("$send_failed", BOOL, "False")
    c.ghost("$noack", BOOL, "False")
    c.ghost("$requeued", Set(BATCH), "no_batches()")
    c.call("self.create_request", returns=Ref("ProduceRequestObj"), post=["fresh(result)", "result.required_acks == self._sender._acks"],
           note="create_request: a ProduceRequest builder for the batches of this handler (acks, timeout, transactional id of the sender)")
    c.call("self._client.send", returns=Ref("ProduceResponse"), havoc_all=True, raises=["KafkaError", "CancelledError"],
           post=["fresh(result)", "0 <= result.API_VERSION <= 8"],
           note="AIOKafkaClient.send: suspends; the decoded ProduceResponse of the negotiated version, or a KafkaError")
    c.call("self._client.force_metadata_update", note="requests a metadata refresh; touches nothing modelled here")
    c.call("self._client._maybe_wait_metadata", havoc_all=True, raises=["CancelledError"], note="suspends until a running metadata refresh is over")
    c.call("asyncio.sleep", havoc_all=True, raises=["CancelledError"], note="suspends")
    c.call("self.handle_response", modifies=["self_._to_reenqueue", "Future.state", "Future.nres", "Future.res", "Future.exc"],
           raises=["Exception"],
           note="handle_response (under contract): per partition of the response done / failure / queued for a retry")
    c.call("self._sender._message_accumulator.reenqueue",
           modifies=["MessageAccumulator._batches", "MessageAccumulator._pending_batches", "MessageBatch._drain_waiter"],
           raises=["Exception"], note="MessageAccumulator.reenqueue (under contract, C01: back to the FRONT of its partition's queue)")
    c.modifies("self._to_reenqueue", "MessageAccumulator._batches", "MessageAccumulator._pending_batches", "MessageBatch._drain_waiter",
               "Future.state", "Future.nres", "Future.res", "Future.exc")
    c.raises("cancelled-or-unexpected", "BaseException")
    c.replay_fn = lambda model, ob=None: {"script": _DO_SCRIPT}
    # the request is built (which closes every batch's builder: get_data_buffer) before anything can end the round:
    # a batch whose sequence numbers were assigned at drain time must not stay open for further records
    c.hook("before", "self._client.send", [
        ("assert", "sends-the-request-built-from-these-batches", "a0 == node_id and a1 == request"),
    ])
    c.loop(0, header="for batch in self._batches.values()", invariants=[
        ("visited-batches-failed-or-queued-for-a-retry",
         "forall(TP, lambda q: implies(q in $done, self._batches[q].future.done() or " + QUEUED % "self._batches[q]" + "))"),
        ("handler-fixed", "self._batches == old(self._batches)"),
    ])
    c.loop(1, header="for batch in self._batches.values()", invariants=[
        ("visited-batches-resolved", "forall(TP, lambda q: implies(q in $done, self._batches[q].future.done()))"),
        ("handler-fixed", "self._batches == old(self._batches)"),
    ])
    c.loop(2, header="for batch in self._to_reenqueue", invariants=[
        ("visited-batches-are-back-in-the-accumulator", "forall(lambda k: implies(0 <= k < $i, self._to_reenqueue[k] in $requeued))"),
    ])
    c.hook("before", "self._can_retry", [("set", "$send_failed", "True")])
    c.hook("before", "batch.done_noack", [("set", "$noack", "True")])
    c.hook("before", "self._sender._message_accumulator.reenqueue", [
        ("assert", "re-enqueues-a-batch-of-this-request", "exists(lambda k: 0 <= k < len(self._to_reenqueue) and self._to_reenqueue[k] == a0)"),
        ("set", "$requeued", "set_with($requeued, a0)"),
    ])
    c.ensures_internal("a-failed-send-leaves-every-batch-failed-or-back-in-the-accumulator",
                       "implies($send_failed, " + SETTLED + ")")
    c.ensures_internal("without-acks-every-batch-is-resolved",
                       "implies($noack, forall(TP, lambda q: implies(q in self._batches, self._batches[q].future.done())))")
    c.ensures_internal("every-batch-queued-for-a-retry-is-re-enqueued",
                       "forall(lambda k: implies(0 <= k < len(self._to_reenqueue), self._to_reenqueue[k] in $requeued))")


_DO_SCRIPT = '''
import sys
sys.path.insert(0, "/verif")
from specs import produce_do_replay
bad = produce_do_replay.sweep()
VIOLATED = bool(bad); DETAIL = repr(bad[:4])
'''
