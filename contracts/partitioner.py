"""C17 — aiokafka/partitioner.py: murmur2 is bit-for-bit Java's Utils.murmur2, and keyed
records go to all_partitions[toPositive(murmur2(key)) % n], independent of `available`."""
import z3
from pyvc.contract import contract, specfn
from pyvc import ty as T
from pyvc.ty import V, INT, BOOL, BYTES, Opt, List
from specs import murmur2_java as J

W = 72


def _jm2p():
    isort = INT.sort()
    return z3.Function("jm2p", z3.ArraySort(isort, z3.BitVecSort(8)), isort, isort, z3.BitVecSort(32))


def _prefix_term(ex, data, k):
    """jm2p(arr, len, k) plus the instance of its recursive definition at k."""
    f = _jm2p()
    arr, ln = T.list_arr(data), T.list_len(data)
    one, zero, four = z3.BitVecVal(1, W), z3.BitVecVal(0, W), z3.BitVecVal(4, W)
    t = f(arr, ln, k)
    init = J.bv32(J.SEED) ^ z3.Extract(31, 0, ln)
    km = z3.simplify(k - one)
    b = [z3.Select(arr, z3.simplify(four * km + z3.BitVecVal(j, W))) for j in range(4)]
    if z3.is_bv_value(z3.simplify(k)):
        if z3.simplify(k).as_long() == 0:
            ex.add_axiom(t == init)
    else:
        ex.add_axiom(z3.Implies(k > zero, t == J.step(f(arr, ln, km), *b)))
        ex.add_axiom(z3.Implies(k == zero, t == init))
    return t


@specfn("jm2_prefix")
def jm2_prefix(ex, st, data, k):
    """u32 hash state after k whole 4-byte chunks, as a non-negative integer."""
    return V(INT, z3.ZeroExt(W - 32, _prefix_term(ex, data, k.t)))


@specfn("jm2")
def jm2(ex, st, data):
    """Java murmur2(data) as an unsigned 32-bit integer."""
    if isinstance(data.ty, Opt):
        data = T.opt_val(data)
    arr, ln = T.list_arr(data), T.list_len(data)
    # len >= 0 (precondition): len div 4 = len >> 2, 4*(len div 4) = len & ~3, len mod 4 = len & 3
    n4 = ln >> z3.BitVecVal(2, W)
    h = _jm2p()(arr, ln, n4)          # no unfolding needed: the loop invariant delivers this term
    base = ln & z3.BitVecVal(~3, W)
    rem = z3.Extract(31, 0, ln & z3.BitVecVal(3, W))
    t = [z3.Select(arr, base + z3.BitVecVal(j, W)) for j in range(3)]
    return V(INT, z3.ZeroExt(W - 32, J.fin(J.tail(h, rem, *t))))


@contract("aiokafka.partitioner:murmur2", "C17", mode="bv%d" % W)
def _(c):
    c.param("data", BYTES)
    c.returns(INT)
    c.requires("0 <= len(data) < 2**31", "java-array-length")
    c.loop(0, header="for i in range(length4)", invariants=[
        ("hash-prefix", "h == jm2_prefix(data, $i)"),
        ("index", "0 <= $i <= len(data) // 4"),
    ])
    c.ensures("java-equal", "result == jm2(data)")
    c.ensures("range", "0 <= result < 2**32")

    @c.replay
    def replay(model, ob=None):
        # the counter-model of an inductive obligation is a loop-head state, not necessarily an
        # input: it is tried first, then a witness search over boundary and seeded random keys
        import random
        rnd = random.Random(int(__import__("os").environ.get("VERIF_SEED", "0") or 0))
        search = [[{"bytes": bytes(k).hex()}] for k in
                  [b"", b"a", b"ab", b"abc", b"abcd", b"abcde", b"\xff" * 7, b"\x80\x00\xff\x7f\x01", bytes(range(16))]]
        search += [[{"bytes": bytes(rnd.randrange(256) for _ in range(rnd.randrange(0, 40))).hex()}] for _ in range(200)]
        return {"call": "aiokafka.partitioner:murmur2", "args": [model.get("data", {"bytes": ""})],
                "expect": "specs.murmur2_py:jm2_py", "search": search}


@contract("aiokafka.partitioner:DefaultPartitioner.__call__", "C17", mode="bv%d" % W)
def _(c):
    c.param("key", Opt(BYTES))
    c.param("all_partitions", List(INT))
    c.param("available", List(INT))
    c.returns(INT)
    c.requires("1 <= len(all_partitions) < 2**31", "some-partition")
    c.requires("0 <= len(available) < 2**31")
    c.requires("implies(key is not None, len(key) < 2**31)")
    c.call("random.choice", returns=INT, post=["a0[result_index] == result", "0 <= result_index < len(a0)"],
           note="random.choice(s) returns an element of s", pre=[("non-empty", "len(a0) > 0")],
           fresh={"result_index": INT})
    c.ensures("keyed-java-partition",
              "implies(key is not None, result == all_partitions[(jm2(key) & 0x7FFFFFFF) % len(all_partitions)])")
    c.ensures("unkeyed-available",
              "implies(key is None and len(available) > 0, exists(lambda j: 0 <= j < len(available) and available[j] == result))")
