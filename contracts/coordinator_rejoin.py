"""C05 / C06 — aiokafka/consumer/group_coordinator.py: GroupCoordinator.ensure_active_group, one rejoin attempt of the
coordination task.

C05: "Every member taking part in a rebalance finishes its on_partitions_revoked callback before any member's
on_partitions_assigned callback for the resulting generation starts." Per member that is: the prepare step
(_on_join_prepare: gate closed, final commit, on_partitions_revoked awaited - under contract in
coordinator_commit_path.py) has completed before this member's JoinGroup leaves; the coordinator completes the join -
and with it anybody's assignment for the new generation - only after every member has sent it.
C06: "keeps heartbeating": the heartbeat task of the old generation is stopped before the rejoin and a new one is
started after every successful rejoin."""
from pyvc.contract import contract, classmodel, specfn, SPEC_TYPES, CLASSES
from pyvc.ty import V, INT, BOOL, REAL, STR, NONE, EXC, BYTES, Opt, Tup, List, Set, Dict, Ref, Opaque
from pyvc.exec_base import Fut
from . import coordinator_commit_path, coordinator_rebalance, close_paths      # noqa: F401

MOD = "aiokafka.consumer.group_coordinator"
G = CLASSES["GroupCoordinator"].fields
G.update({"_performed_join_prepare": BOOL, "_max_poll_interval": REAL, "_retry_backoff_ms": INT,
          "_subscription": Ref("SubscriptionState")})
S = CLASSES["SubscriptionState"]
S.fields.update({"_subscribed_pattern": Opt(Opaque("Pattern")), "g_idle_time": REAL})
S.props.update({"subscribed_pattern": "self._subscribed_pattern", "fetcher_idle_time": "self.g_idle_time"})


G.update({"_assignors": List(Ref("AssignorCls")), "_session_timeout_ms": INT})
PROTO_ASSIGNMENT = Tup(STR, Opt(coordinator_rebalance.ASSIGNMENT_BYTES))


@contract(MOD + ":GroupCoordinator._do_rejoin_group", ["C05", "C06"])
def _(c):
    """C05: "the assignments members adopt are exactly the ones distributed for that generation ... containing only
    partitions of topics the member subscribed to ... data fetched under a superseded ... subscription is never
    delivered", quantified over "subscription changes (including pattern matches appearing) during a rebalance": the
    subscription a join was made for may be replaced at any await of the join (JoinGroup, the leader's assignment, the
    SyncGroup wait); an assignment that comes back for a subscription that is no longer the active one is dropped."""
    c.self_("GroupCoordinator")
    c.param("subscription", Ref("Subscription"))
    c.returns(BOOL)
    c.local("assignment", Opt(PROTO_ASSIGNMENT))
    c.none_raises = True
    c.owns("self._client", "self._subscription", "self._retry_backoff_ms")
    c.ghost("$adopted", BOOL, "False")
    c.call("CoordinatorGroupRebalance", returns=Ref("Rebalance"), post=["fresh(result)", "result._subscription == a3"], nargs=7,
           note="CoordinatorGroupRebalance.__init__: stores its arguments (the join is made for the subscription given)")
    c.call("rebalance.perform_group_join", returns=Opt(PROTO_ASSIGNMENT), havoc_all=True, raises=["KafkaError", "CancelledError"],
           note="perform_group_join (under contract, C06): JoinGroup, then SyncGroup; the (protocol, assignment bytes) "
                "distributed to this member, or None when the join has to be retried")
    c.call("asyncio.sleep", havoc_all=True, raises=["CancelledError"], note="suspends")
    c.call("self._on_join_complete", havoc_all=True, raises=["BaseException"], ghost={"$adopted": "True"},
           note="_on_join_complete: adopts the assignment (assign_from_subscribed), restarts the committed-offset refresh "
                "and runs on_partitions_assigned")
    c.raises("join-failed-or-cancelled", "BaseException")
    c.hook("before", "self._on_join_complete", [
        ("assert", "an-assignment-is-adopted-only-while-the-subscription-it-was-distributed-for-is-still-the-active-one",
         "subscription.g_active"),
        ("assert", "adopted-under-the-identity-of-the-join", "a0 == self.generation and a1 == self.member_id"),
        ("assert", "adopts-what-the-join-returned", "assignment is not None and a2 == assignment[0] and a3 == assignment[1]"),
    ])
    c.ensures_internal("success-means-the-assignment-was-adopted", "result == $adopted")


@contract(MOD + ":GroupCoordinator.ensure_active_group", ["C05", "C06"])
def _(c):
    c.self_("GroupCoordinator")
    c.param("subscription", Ref("Subscription"))
    c.param("prev_assignment", Opt(Ref("Assignment")))
    c.returns(Opt(Ref("Assignment")))
    # only the coordination task, which runs this function, touches the flag and (re)starts the heartbeat task
    c.owns("self._client", "self._subscription", "self._performed_join_prepare", "self._max_poll_interval", "self._retry_backoff_ms")
    c.ghost("$rejoined", BOOL, "False")
    c.ghost("$heartbeat_stopped", BOOL, "False")
    c.ghost("$heartbeat_started", BOOL, "False")
    c.call("self._client.force_metadata_update", havoc_all=True, raises=["KafkaError", "CancelledError"],
           note="suspends until the next metadata refresh")
    c.call("self._on_join_prepare", havoc_all=True, raises=["CancelledError"],
           note="_on_join_prepare (under contract, coordinator_commit_path.py): closes the hand-out gate, does the final "
                "commit and awaits on_partitions_revoked; here only the fact that it has returned is used")
    c.call("self._stop_heartbeat_task", havoc_all=True, raises=["BaseException"], ghost={"$heartbeat_stopped": "True"},
           note="_stop_heartbeat_task (under contract for the close() call site, close_paths.py): cancels and awaits the "
                "heartbeat task and drops its reference")
    c.call("asyncio.sleep", havoc_all=True, raises=["CancelledError"], note="suspends")
    c.call("self._do_rejoin_group", returns=BOOL, havoc_all=True, raises=["KafkaError", "CancelledError"],
           ghost={"$rejoined": "result"},
           note="_do_rejoin_group: one JoinGroup/SyncGroup round (perform_group_join under contract, C06); True when "
                "the member is part of the new generation and its assignment is in place")
    c.call("self._start_heartbeat_task", ghost={"$heartbeat_started": "True"},
           note="_start_heartbeat_task: creates the heartbeat task if there is none")
    c.modifies("self._performed_join_prepare")
    c.raises("lookup-failed-or-cancelled", "BaseException")
    c.hook("before", "self._do_rejoin_group", [
        ("assert", "revocation-finished-before-this-member-joins-the-next-generation", "self._performed_join_prepare"),
        ("assert", "old-generations-heartbeat-stopped-before-the-rejoin", "$heartbeat_stopped"),
        ("assert", "joins-for-the-subscription-it-prepared-for", "a0 == subscription"),
    ])
    c.ensures_internal("an-assignment-is-returned-only-after-a-successful-rejoin-with-heartbeats-restarted",
                       "implies(result is not None, $rejoined and $heartbeat_started)")
    c.ensures_internal("a-successful-rejoin-restarts-the-heartbeat-and-re-arms-the-prepare-step",
                       "implies($rejoined, $heartbeat_started and not self._performed_join_prepare)")
    # C05 "after a member's on_partitions_revoked callback begins it returns no record of a revoked partition ...": the
    # coordination routine calls this function exactly when the member needs a new generation (it left the group, lost its
    # generation, the subscription changed). Whenever it comes back without one - the rejoin failed, or the application has
    # not polled for max_poll_interval_ms and no rejoin is attempted - the old assignment must already have been retired by
    # the join-prepare step (hand-out gate closed, on_partitions_revoked called): the group may have given the partitions to
    # somebody else in the meantime
    c.ensures_internal("without-a-new-generation-the-old-assignment-has-been-revoked",
                       "implies(not $rejoined and old(subscription.g_active) and subscription.g_active, self._performed_join_prepare)")


# ------------------------------------------------------------------ GroupCoordinator._perform_assignment (leader)
# C06 "the members' assignments together cover every partition of every subscribed topic, and no further rebalance occurs":
# the leader assigns from its client's metadata and rejoins when that metadata changes; both only work for the topics the
# client has been told to follow. Fragment: the statement that tells it (the member-metadata loop above it unpacks tuples
# whose arity depends on the response version: outside the verified subset).
S.fields.update({"_subscribed_pattern": Opt(Opaque("Pattern"))})


@contract(MOD + ":GroupCoordinator._perform_assignment", ["C06"], variant="topics-the-leader-follows")
def _(c):
    c.self_("GroupCoordinator")
    c.no_class_inv = True
    c.param("response", Ref("JoinGroupResponse"))
    c.local("all_subscribed_topics", Ref("GroupSubscription"))          # the set of topics, as one opaque value
    c.fragment("if not self._subscription.subscribed_pattern", requires=[
        "self._group_subscription is not None and self._group_subscription == all_subscribed_topics"])
    c.call("self._client.set_topics", note="AIOKafkaClient.set_topics: the topics whose metadata the client keeps fresh")
    c.hook("before", "self._client.set_topics", [
        ("assert", "the-leader-follows-every-topic-any-member-subscribes-to", "a0 == all_subscribed_topics"),
    ])
    c.replay_fn = lambda model, ob=None: {"script": _LEADER_TOPICS_SCRIPT}


# replay: the real _perform_assignment of a leader subscribed to {A} in a group whose other member subscribes to {A, B}
_LEADER_TOPICS_SCRIPT = '''
import asyncio, logging, types
logging.disable(logging.CRITICAL)
from unittest import mock
from aiokafka.consumer.group_coordinator import GroupCoordinator
from aiokafka.consumer.subscription_state import SubscriptionState
from aiokafka.coordinator.assignors.roundrobin import RoundRobinPartitionAssignor
from aiokafka.coordinator.protocol import ConsumerProtocolMemberMetadata

async def main():
    coord = GroupCoordinator.__new__(GroupCoordinator)
    subs = SubscriptionState()
    subs.subscribe({"A"})
    coord._subscription = subs
    coord.group_id = "g"
    coord._assignors = [RoundRobinPartitionAssignor]
    followed = []
    client = mock.MagicMock()
    client.set_topics = lambda topics: followed.append(set(topics))
    async def nothing():
        return None
    client._maybe_wait_metadata = nothing
    coord._client = client
    coord._cluster = mock.MagicMock()
    coord._cluster.partitions_for_topic = lambda t: {0, 1}
    coord._get_metadata_snapshot = lambda: {}
    enc = lambda topics: ConsumerProtocolMemberMetadata(0, sorted(topics), b"").encode()
    resp = types.SimpleNamespace(API_VERSION=2, group_protocol="roundrobin",
                                 members=[("leader", enc({"A"})), ("follower", enc({"A", "B"}))])
    await coord._perform_assignment(resp)
    if not followed or followed[-1] != {"A", "B"}:
        return ["the leader subscribes to {A}, a follower to {A, B}: the leader's client follows %r; topic B never gets metadata, "
                "its partitions are assigned to nobody and no metadata change triggers a rejoin" % (followed[-1:] or None)]
    return []
bad = asyncio.run(main())
VIOLATED = bool(bad); DETAIL = "; ".join(bad)
'''
