"""C14 — bounded stand-in (never counted as proved): the real range / round-robin / sticky assignors over the
property's own exhaustive space (members x topics x 0..P partitions or no metadata x every non-empty
subscription, up to member renaming) plus seeded random groups; checked against valid_assignment and the
balance clauses of the statement."""
import argparse
import logging
logging.disable(logging.CRITICAL)
import json
import multiprocessing as mp
import random
import time

from bounded.assign_common import assignors, run, check_valid, check_balance, box, random_case


def emit(d):
    print("BOUNDED " + json.dumps(d, default=str))


def _chunk(args):
    name, cases = args
    A = assignors()[name]
    fails, n, nontrivial = [], 0, 0
    for parts, subs in cases:
        n += 1
        try:
            res = run(A, parts, subs)
            errs = check_valid(parts, subs, res) + check_balance(name, parts, subs, res)
        except Exception as e:
            errs = ["raised %s: %s" % (type(e).__name__, e)]
        if len(subs) > 1 and sum(v or 0 for v in parts.values()) > 1:
            nontrivial += 1
        if errs:
            fails.append({"assignor": name, "partitions": parts, "subscriptions": subs, "errors": errs[:3]})
            if len(fails) >= 5:
                break
    return n, nontrivial, fails


def sweep(name, cases, jobs):
    cases = list(cases)
    step = max(1, len(cases) // (jobs * 4))
    chunks = [(name, cases[i:i + step]) for i in range(0, len(cases), step)]
    n = nontrivial = 0
    fails = []
    with mp.Pool(jobs) as pool:
        for a, b, f in pool.imap_unordered(_chunk, chunks):
            n += a
            nontrivial += b
            fails.extend(f)
    return n, nontrivial, fails[:10]


def main():
    ap = argparse.ArgumentParser()
    ap.add_argument("--tier", default="quick")
    ap.add_argument("--seed", type=int, default=0)
    a = ap.parse_args()
    topics = ["ta", "tb", "tc"]
    if a.tier == "quick":
        bm, bp, nrand = 3, 3, 300        # 3 members x 3 topics x 0..3 partitions (+ no metadata)
    else:
        bm, bp, nrand = 4, 4, 5000       # the property's full box
    cases = list(box(bm, topics, bp))
    # "every cluster layout": a layout with an internal topic (flagged so in the metadata, like __consumer_offsets), which
    # the real ClusterMetadata.topics() leaves out while partitions_for_topic() knows it
    icases = list(box(3, ["ta", "__ti"], 2 if a.tier == "quick" else 3))
    rnd = random.Random(a.seed)
    rcases = [random_case(rnd) for _ in range(nrand)]
    for name in ("range", "roundrobin", "sticky"):
        t0 = time.time()
        n, nontrivial, fails = sweep(name, cases, 16)
        emit({"name": "%s-box" % name, "exhaustive": True, "cases": n, "distinct_nontrivial": nontrivial,
              "bound": "every group of <= %d members (up to renaming) x topics %s x 0..%d partitions or no metadata x every "
                       "non-empty subscription per member" % (bm, topics, bp),
              "failures": fails, "wall_s": round(time.time() - t0, 1),
              "replay": {"script": REPLAY % (name, bm, bp)}})
        n, nontrivial, fails = sweep(name, icases, 16)
        emit({"name": "%s-internal-topic-box" % name, "exhaustive": True, "cases": n, "distinct_nontrivial": nontrivial,
              "bound": "every group of <= 3 members (up to renaming) x topics ['ta', '__ti' (internal)] x 0..%d partitions or no "
                       "metadata x every non-empty subscription per member" % (2 if a.tier == "quick" else 3),
              "failures": fails, "replay": {"script": REPLAY_INTERNAL % name}})
        n, nontrivial, fails = sweep(name, rcases, 16)
        emit({"name": "%s-random" % name, "exhaustive": False, "cases": n, "distinct_nontrivial": nontrivial,
              "bound": "%d seeded random groups up to 12 members x 8 topics x 12 partitions, seed %d" % (nrand, a.seed),
              "failures": fails, "replay": {"script": REPLAY % (name, 3, 3)}})
    # ---- the sticky assignor WITH previous-assignment user data (the statement's quantifier names it)
    pvals, m1, nn, nch = ((0, 1, 2, 3, 4, 5, 6), 3, 2, 4000) if a.tier == "quick" else ((0, 1, 2, 3, 4, 5, 6, 7, 8), 3, 3, 60000)
    t0 = time.time()
    n, fails = second_round_sweep(pvals, m1, nn)
    emit({"name": "sticky-second-round-box", "exhaustive": True, "cases": n, "distinct_nontrivial": n,
          "bound": "2 topics x partitions %r each x every first-round group of <= %d members (any non-empty subscriptions, up to "
                   "renaming) x every subset of members staying x 0..%d new members with any subscription; round 2 carries round "
                   "1's result as user data; validity + KIP-54 balance of round 2" % (list(pvals), m1, nn),
          "failures": fails[:10], "failures_total": len(fails), "wall_s": round(time.time() - t0, 1),
          "replay": {"script": REPLAY_ROUNDS}})
    n, fails = mixed_chains_sweep(a.seed, nch)
    emit({"name": "sticky-mixed-chains-random", "exhaustive": False, "cases": n, "distinct_nontrivial": n,
          "bound": "%d seeded chains of up to 4 rounds (<= 7 members, 5 topics, 6 partitions; members leave / join with any "
                   "subscription; every other chain lets members miss a round and report a stale generation), validity + KIP-54 "
                   "balance after every round, seed %d" % (nch, a.seed),
          "failures": fails[:10], "failures_total": len(fails), "replay": {"script": REPLAY_ROUNDS}})
    n, fails = arbitrary_user_data_sweep(a.seed, 20000 if a.tier == "quick" else 400000)
    emit({"name": "sticky-arbitrary-user-data-random", "exhaustive": False, "cases": n, "distinct_nontrivial": n,
          "bound": "%d seeded groups (<= 4 members, 3 topics, 4 partitions each) whose reported previous assignments are arbitrary: "
                   "claims by members that dropped the topic since (every other case), stale claims under a lower generation; "
                   "validity + KIP-54 balance; seed %d" % (n, a.seed),
          "failures": fails[:10], "failures_total": len(fails), "replay": {"script": REPLAY_ARB % a.seed}})


REPLAY_INTERNAL = '''
import sys
sys.path.insert(0, "/verif")
from bounded.assign_common import assignors, run, check_valid, check_balance
name = %r
parts = {"ta": 2, "__ti": 2}
subs = {"m0": ["ta", "__ti"], "m1": ["ta", "__ti"]}
try:
    res = run(assignors()[name], parts, subs)
    errs = check_valid(parts, subs, res) + check_balance(name, parts, subs, res)
except Exception as e:
    errs = ["raised %%s: %%s" %% (type(e).__name__, e)]
VIOLATED = bool(errs); DETAIL = "%%s assignor, partitions %%r, subscriptions %%r: %%r" %% (name, parts, subs, errs)
'''


REPLAY_ARB = '''
import sys
sys.path.insert(0, "/verif")
from bounded import C14
n, fails = C14.arbitrary_user_data_sweep(%d, 20000, jobs=8)
VIOLATED = bool(fails); DETAIL = "sticky assignor with arbitrary user data: %%d of %%d groups fail; first: %%r" %% (len(fails), n, fails[:1])
'''


# ------------------------------------------------------------------ sticky with previous assignments
SUBSETS2 = [("ta",), ("tb",), ("ta", "tb")]


def _tps(lst):
    from aiokafka.structs import TopicPartition
    return [TopicPartition(t, p) for t, p in lst]


def second_round_cases(pvals, m1max, newmax):
    import itertools
    for pc in itertools.product(pvals, repeat=2):
        parts = dict(zip(("ta", "tb"), pc))
        for k in range(1, m1max + 1):
            for combo in itertools.combinations_with_replacement(SUBSETS2, k):
                subs = {"m%d" % i: list(s) for i, s in enumerate(combo)}
                for stay in itertools.product((True, False), repeat=k):
                    for nn in range(0, newmax + 1):
                        for ncombo in itertools.combinations_with_replacement(SUBSETS2, nn):
                            subs2 = {m: subs[m] for m, s in zip(sorted(subs), stay) if s}
                            for i, s in enumerate(ncombo):
                                subs2["n%d" % i] = list(s)
                            if subs2:
                                yield parts, subs, subs2


def _second_round_chunk(cases):
    A = assignors()["sticky"]
    n, fails = 0, []
    for parts, subs, subs2 in cases:
        n += 1
        try:
            r1 = run(A, parts, subs)
            r2 = run(A, parts, subs2, previous={m: _tps(v) for m, v in r1.items()}, generation=1)
            errs = check_valid(parts, subs2, r2) + check_balance("sticky", parts, subs2, r2)
        except Exception as e:
            errs = ["raised %s: %s" % (type(e).__name__, e)]
        if errs:
            fails.append({"assignor": "sticky", "partitions": parts, "round1": subs, "round2": subs2, "errors": errs[:3]})
    return n, fails


def second_round_sweep(pvals, m1max, newmax, jobs=16):
    cases = list(second_round_cases(pvals, m1max, newmax))
    step = max(1, len(cases) // (jobs * 4))
    chunks = [cases[i:i + step] for i in range(0, len(cases), step)]
    n, fails = 0, []
    with mp.Pool(jobs) as pool:
        for a, f in pool.imap_unordered(_second_round_chunk, chunks):
            n += a
            fails.extend(f)
    return n, fails


def _mixed_chains(args):
    seed, n_chains, stale = args
    from aiokafka.coordinator.protocol import ConsumerProtocolMemberMetadata
    from bounded.assign_common import Cluster
    rnd = random.Random(seed)
    A = assignors()["sticky"]
    n, fails = 0, []
    for _ in range(n_chains):
        parts, subs = random_case(rnd, max_members=7, max_topics=5, max_parts=6)
        topics = sorted(parts)
        res = run(A, parts, subs)
        gens = {m: 1 for m in subs}
        prev = {m: _tps(v) for m, v in res.items()}
        for gen in range(2, 5):
            members = sorted(subs)
            subs2 = {m: subs[m] for m in members if not (rnd.random() < 0.25 and len(members) > 1)}
            for i in range(rnd.choice([0, 0, 1, 2])):
                subs2["x%d_%d" % (gen, i)] = rnd.sample(topics, rnd.randint(1, len(topics)))
            if not subs2:
                subs2 = {members[0]: subs[members[0]]}
            mm = {m: (A._metadata(sorted(t), prev[m], gens[m]) if m in prev
                      else ConsumerProtocolMemberMetadata(A.version, sorted(t), b"")) for m, t in subs2.items()}
            n += 1
            try:
                out = A.assign(Cluster(parts), mm)
                res2 = {m: [(t, p) for t, ps in x.assignment for p in ps] for m, x in out.items()}
                errs = check_valid(parts, subs2, res2) + check_balance("sticky", parts, subs2, res2)
            except Exception as e:
                errs = ["raised %s: %s" % (type(e).__name__, e)]
            if errs:
                fails.append({"assignor": "sticky", "round": gen, "partitions": parts, "before": subs, "now": subs2,
                              "reported": {m: (gens[m], [tuple(x) for x in prev[m]]) for m in subs2 if m in prev}, "errors": errs[:3]})
                break
            for m in subs2:
                if stale and m in prev and rnd.random() < 0.2:
                    continue                      # missed the sync: keeps reporting the older assignment and generation
                prev[m], gens[m] = _tps(res2[m]), gen
            for m in list(prev):
                if m not in subs2:
                    del prev[m]
            subs = subs2
    return n, fails


def mixed_chains_sweep(seed, n_chains, jobs=16):
    per = max(1, n_chains // jobs)
    n, fails = 0, []
    with mp.Pool(jobs) as pool:
        for a, f in pool.imap_unordered(_mixed_chains, [(seed * 1000 + j, per, bool(j % 2)) for j in range(jobs)]):
            n += a
            fails.extend(f)
    return n, fails


def _arbitrary_user_data(args):
    """previous-assignment user data that is not the assignor's own last output: members report partitions of topics
    they have since dropped (a subscription change is exactly what triggers such a rebalance), some members missed a
    round and report a stale view under a lower generation (two claims on one partition)"""
    seed, n = args
    from aiokafka.coordinator.protocol import ConsumerProtocolMemberMetadata
    from aiokafka.structs import TopicPartition
    from bounded.assign_common import Cluster
    rnd = random.Random(seed)
    A = assignors()["sticky"]
    fails = []
    for i in range(n):
        only_subscribed = bool(i % 2)
        nt = rnd.randint(1, 3)
        topics = ["t%d" % j for j in range(nt)]
        parts = {t: rnd.randint(0, 4) for t in topics}
        members = ["m%d" % j for j in range(rnd.randint(1, 4))]
        subs = {m: rnd.sample(topics, rnd.randint(1, nt)) for m in members}
        claims, stale = {m: [] for m in members}, {m: [] for m in members}
        for t in topics:
            for p in range(parts[t]):
                cands = [m for m in members if (t in subs[m] or not only_subscribed)]
                if cands and rnd.random() < 0.8:
                    o = rnd.choice(cands)
                    claims[o].append(TopicPartition(t, p))
                    others = [m for m in cands if m != o]
                    if others and rnd.random() < 0.3:
                        stale[rnd.choice(others)].append(TopicPartition(t, p))
        # ... and partitions that no longer exist: the topic was re-created with fewer partitions or lost its metadata,
        # the members still report what they owned (every other case)
        if i % 4 >= 2:
            for t in topics:
                for p in range(parts[t], parts[t] + rnd.randint(0, 2)):
                    cands = [m for m in members if t in subs[m] or not only_subscribed]
                    if cands:
                        claims[rnd.choice(cands)].append(TopicPartition(t, p))
        mm, reported = {}, {}
        for m in members:
            if stale[m] and rnd.random() < 0.7:
                mm[m], reported[m] = A._metadata(sorted(subs[m]), stale[m], 1), (1, [tuple(x) for x in stale[m]])
            elif claims[m] or rnd.random() < 0.5:
                mm[m], reported[m] = A._metadata(sorted(subs[m]), claims[m], 2), (2, [tuple(x) for x in claims[m]])
            else:
                mm[m] = ConsumerProtocolMemberMetadata(A.version, sorted(subs[m]), b"")
        try:
            out = A.assign(Cluster(parts), mm)
            res = {m: [(t, p) for t, ps in x.assignment for p in ps] for m, x in out.items()}
            errs = check_valid(parts, subs, res) + check_balance("sticky", parts, subs, res)
        except Exception as e:
            errs = ["raised %s: %s" % (type(e).__name__, e)]
        if errs:
            fails.append({"assignor": "sticky", "partitions": parts, "subscriptions": subs, "reported": reported, "errors": errs[:3]})
            if len(fails) >= 5:
                break
    return n, fails


def arbitrary_user_data_sweep(seed, n, jobs=16):
    per = max(1, n // jobs)
    total, fails = 0, []
    with mp.Pool(jobs) as pool:
        for a, f in pool.imap_unordered(_arbitrary_user_data, [(seed * 1000 + j, per) for j in range(jobs)]):
            total += a
            fails.extend(f)
    return total, fails


REPLAY_ROUNDS = '''
import sys
sys.path.insert(0, "/verif")
from bounded import C14
n, fails = C14.second_round_sweep((0, 1, 2, 3, 4, 5, 6), 3, 2, jobs=8)
n2, fails2 = C14.mixed_chains_sweep(0, 4000, jobs=8)
VIOLATED = bool(fails or fails2)
DETAIL = "sticky assignor with previous assignments: %d + %d cases, %d + %d fail; first: %r" % (n, n2, len(fails), len(fails2), (fails + fails2)[:1])
'''

REPLAY = '''
import sys
sys.path.insert(0, "/verif")
from bounded.assign_common import assignors, run, check_valid, check_balance, box
name, bm, bp = %r, %d, %d
A = assignors()[name]
bad = None
for parts, subs in box(min(bm, 3), ["ta", "tb", "tc"], min(bp, 3)):
    try:
        res = run(A, parts, subs)
        errs = check_valid(parts, subs, res) + check_balance(name, parts, subs, res)
    except Exception as e:
        errs = ["raised %%s: %%s" %% (type(e).__name__, e)]
    if errs:
        bad = (parts, subs, errs[:2]); break
VIOLATED = bad is not None
DETAIL = "%%s assignor on partitions=%%r subscriptions=%%r: %%r" %% ((name,) + bad) if bad else "ok"
'''

if __name__ == "__main__":
    main()
