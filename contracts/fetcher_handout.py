"""C05 / C03 / C19 — aiokafka/consumer/fetcher.py: Fetcher.next_record and Fetcher.fetched_records
(the only places records are handed to the application)."""
from pyvc.contract import contract, classmodel, specfn, SPEC_TYPES, CLASSES
from pyvc.ty import V, INT, BOOL, REAL, STR, NONE, EXC, BYTES, Opt, Tup, List, Set, Dict, Ref, Opaque
from pyvc.exec_base import Fut, PyThing
from .common import TP
from . import fetch_result, subscription_state     # noqa: F401

MOD = "aiokafka.consumer.fetcher"

classmodel("Subscription", {"_reassignment_in_progress": BOOL, "_assignment": Opt(Ref("Assignment"))},
           props={"assignment": "self._assignment"})
classmodel("SubscriptionState", {"_subscription": Opt(Ref("Subscription"))},
           props={"reassignment_in_progress": "(True if self._subscription is None else self._subscription._reassignment_in_progress)"})
# Fetcher._records holds FetchResult and FetchError objects; both are modelled by the FetchResult class model,
# told apart by a ghost flag (type(x) is FetchResult <=> not x.g_is_error)
CLASSES["FetchResult"].fields["g_is_error"] = BOOL
CLASSES["FetchResult"].type_tests = {"FetchResult": "not self.g_is_error", "FetchError": "self.g_is_error"}

classmodel("Fetcher", {
    "_closed": BOOL,
    "_subscriptions": Ref("SubscriptionState"),
    "_records": Dict(TP, Ref("FetchResult")),
    "_wait_consume_future": Opt(Fut(NONE)),
}, real=MOD + ":Fetcher")

# fetcher invariant, re-established by every (synchronous) fetcher section and therefore true at every yield point:
# a buffered FetchResult still has records (an exhausted one is deleted in the same section that exhausts it)
BUFFERED_OK = ("forall(TP, lambda q: implies(q in self._records and not self._records[q].g_is_error,"
               " self._records[q]._partition_records is not None and self._records[q]._topic_partition == q))")
GATE_NOW = "(not self._subscriptions.reassignment_in_progress) or $atomic_waited"


def _common(c):
    c.self_("Fetcher")
    c.ghost("$atomic_waited", BOOL, "False")      # reset at every yield point: 'the rebalance gate was passed in this atomic section'
    c.requires(BUFFERED_OK, "buffered-results-not-exhausted")
    c.rely(BUFFERED_OK, "buffered-results-not-exhausted")
    c.owns("self._subscriptions", "self._records")     # the *references*; the dict content may change at an await
    c.call("self._subscriptions.wait_for_assignment", returns=Fut(NONE), post=["fresh(result)"],
           note="returns a future resolved by the next assign_from_subscribed(), i.e. when the rebalance has finished")
    c.call("self._subscriptions.is_assigned", returns=BOOL, note="membership test on the current assignment")
    c.call("self._notify", note="wakes the fetch routine: resolves the given future if pending",
           modifies=["Future.state", "Future.nres"])
    c.call("self._create_fetch_waiter", returns=Fut(NONE), post=["fresh(result)"], note="a new waiter future registered with the fetch routine")
    c.call("res_or_error.check_raise", raises=["Exception"], post=["False"], note="FetchError.check_raise() always raises the stored error")
    c.modifies("self._records", "Future.state", "Future.nres", "Future.exc", "TPState._position", "FetchResult._partition_records",
               "PartitionRecords.next_fetch_offset", "PartitionRecords._aborted_transactions", "PartitionRecords._aborted_producers")
    c.raises("stopped-buffered-error-or-cancelled", "BaseException")
    # after `await self._subscriptions.wait_for_assignment()` the new assignment is in place
    c.hook("after-await", "self._subscriptions.wait_for_assignment", [("set", "$atomic_waited", "True")])
    c.replay_fn = lambda model, ob=None: {"script": _HANDOUT_SCRIPT}


_HANDOUT_SCRIPT = '''
import sys
sys.path.insert(0, "/verif")
from specs import handout_replay
bad = handout_replay.sweep()
VIOLATED = bool(bad); DETAIL = repr(bad)
'''


@contract(MOD + ":Fetcher.next_record", ["C05", "C03", "C19"])
def _(c):
    _common(c)
    c.param("partitions", Set(TP))
    c.returns(Ref("ConsumerRecordObj"))
    c.loop(0, header="while True", invariants=[("buffered-results-not-exhausted", BUFFERED_OK)])
    c.loop(1, header="for tp in list(self._records.keys())", invariants=[
        ("buffered-results-not-exhausted", BUFFERED_OK),
        ("gate-still-passed", GATE_NOW),
    ])
    c.hook("before", "res_or_error.getone", [
        ("assert", "no-hand-out-while-a-rebalance-is-in-progress", GATE_NOW),
        ("assert", "only-requested-partitions", "len_is_zero(partitions) or tp in partitions"),
    ])
    c.ensures("a-record-was-handed-out", "result is not None")


@contract(MOD + ":Fetcher.fetched_records", ["C05", "C03", "C04"])
def _(c):
    _common(c)
    c.param("partitions", Set(TP))
    c.param("timeout", REAL)
    c.param("max_records", Opt(INT))
    c.returns(Dict(TP, List(Ref("ConsumerRecordObj"))))
    c.local("drained", Dict(TP, List(Ref("ConsumerRecordObj"))))
    c.local("records", List(Ref("ConsumerRecordObj")))
    c.call("time.monotonic", returns=REAL, note="clock")
    c.call("asyncio.wait", returns=Tup(Set(Fut(NONE)), Set(Fut(NONE))), havoc_all=True,
           note="asyncio.wait([waiter], timeout): suspends; returns (done, pending)")
    # res_or_error.getall is FetchResult.getall, under contract (fetch_result.py): it moves the partition's position past
    # the records it returns, and it may raise (corrupt batch, failing deserializer) with no position moved
    # C03 "position() is never ... ahead of a visible record that has not been returned" / C04: records taken out of a
    # buffer (their partition's position has moved past them) are held in `drained` until the call returns them.
    # $holding: this call holds such records. The call may then only end by returning them.
    c.requires("max_records is None or max_records >= 1", "max-records-positive")     # getmany() validates it
    c.callee_view("FetchResult.getall", ["at-most-max-records"])
    c.ghost("$holding", BOOL, "False")
    c.hook("before", "res_or_error.has_more", [
        ("set", "$holding", "$holding or len(records) > 0"),
    ])
    c.loop(0, header="while True", invariants=[("buffered-results-not-exhausted", BUFFERED_OK),
                                               ("holds-no-records-between-rounds", "not $holding"),
                                               ("budget-left", "max_records is None or max_records >= 1")])
    c.loop(1, header="for tp in list(self._records.keys())", invariants=[
        ("buffered-results-not-exhausted", BUFFERED_OK),
        ("gate-still-passed", GATE_NOW),
        ("held-records-are-in-drained", "implies($holding, nonempty_dict(drained))"),
        # the loop walks a snapshot of the keys and deletes only the entry it is at: no KeyError half-way
        ("unvisited-keys-still-buffered", "forall(TP, lambda q: implies(q in $dom and q not in $done, q in self._records))"),
        ("budget-left", "max_records is None or max_records >= 1"),
    ])
    c.hook("before", "res_or_error.getall", [
        ("assert", "no-hand-out-while-a-rebalance-is-in-progress", GATE_NOW),
        ("assert", "only-requested-partitions", "len_is_zero(partitions) or tp in partitions"),
    ])
    c.raises_[:] = [r for r in c.raises_ if r[0] != "stopped-buffered-error-or-cancelled"]
    c.raises("stopped-buffered-error-or-cancelled", "BaseException",
             ensures=[("no-records-taken-from-a-buffer-are-dropped-with-the-exception", "not $holding")])
    c.ensures_internal("held-records-are-returned", "implies($holding, nonempty_dict(result))")


@specfn("nonempty_dict")
def nonempty_dict(ex, st, d):
    import z3
    from pyvc import ty as T
    return V(BOOL, T.dict_dom(d) != z3.K(d.ty.k.sort(), False))


@specfn("len_is_zero")
def len_is_zero(ex, st, s):
    import z3
    return V(BOOL, s.t == z3.K(s.ty.elem.sort(), False))
