"""C19 / C04 — aiokafka/consumer/group_coordinator.py: GroupCoordinator.__coordination_routine, the body of the
coordination task.

C19 "stop() always terminates": GroupCoordinator.close() resolves self._closing and then awaits this task. That the task
ends is a liveness fact; the safety discipline behind it is decided here: every wait of this routine that has no time
bound of its own also waits for self._closing (first completed), the loop is left as soon as _closing is resolved, and
nothing but the final commit follows the loop.
C04 "by the final commit on stop()": when the routine ends with an assignment in hand, the last auto-commit is attempted
for exactly that assignment (what it commits is the _maybe_do_last_autocommit contract)."""
from pyvc.contract import contract, classmodel, specfn, SPEC_TYPES, CLASSES
from pyvc.ty import V, INT, BOOL, REAL, STR, NONE, EXC, BYTES, Opt, Tup, List, Set, Dict, Ref, Opaque
from pyvc.exec_base import Fut
from . import coordinator_commit_path, coordinator_rebalance, close_paths, coordinator_rejoin      # noqa: F401

MOD = "aiokafka.consumer.group_coordinator"
TASK = Fut(NONE)
CLASSES["Subscription"].fields["unsubscribe_future"] = Fut(NONE)


@contract(MOD + ":GroupCoordinator.__coordination_routine", ["C19", "C04"])
def _(c):
    c.self_("GroupCoordinator")
    c.local("subscription", Opt(Ref("Subscription")))
    c.local("assignment", Opt(Ref("Assignment")))
    c.local("new_assignment", Opt(Ref("Assignment")))
    c.local("futures", List(Fut(NONE)))
    c.local("wait_timeout", Opt(REAL))
    c.none_raises = True
    c.owns("self._closing", "self._subscription", "self._client")
    c.ghost("$last_commit_for", Opt(Ref("Assignment")), "no_assignment()")
    c.call("self.request_rejoin", modifies=["Future.state", "Future.nres"], note="request_rejoin (under contract, C06)")
    c.call("self._subscription.wait_for_subscription", returns=Fut(NONE), post=["fresh(result)"],
           note="a future resolved by the next subscribe()/assign()")
    c.call("self._subscription.partitions_auto_assigned", returns=BOOL, note="subscription kind")
    c.call("asyncio.wait", returns=Tup(Set(TASK), Set(TASK)), havoc_all=True, raises=["CancelledError"],
           kwargs=["return_when", "timeout"], nargs=1,
           note="asyncio.wait(futures, timeout=..., return_when=FIRST_COMPLETED): suspends until one of them is done or the timeout")
    c.call("self.ensure_coordinator_known", havoc_all=True, raises=["KafkaError", "CancelledError"], note="suspends until a coordinator is known")
    c.call("self.need_rejoin", returns=BOOL, note="whether the subscription or the group state calls for a rejoin")
    c.call("self.ensure_active_group", returns=Opt(Ref("Assignment")), havoc_all=True, raises=["KafkaError", "CancelledError"],
           note="ensure_active_group (under contract, coordinator_rejoin.py): one rejoin attempt")
    c.call("self._maybe_do_autocommit", returns=Opt(REAL), havoc_all=True, raises=["KafkaError", "CancelledError"],
           note="_maybe_do_autocommit (under contract, C04): commits when due, returns the time to the next deadline")
    c.call("self._push_error_to_user", returns=Ref("WaitCoroutine"), post=["fresh(result)"],
           modifies=["GroupCoordinator._pending_exception", "GroupCoordinator._error_consumed_fut"],
           note="_push_error_to_user (under contract, close_paths.py: the wait it returns also waits for _closing)")
    c.call("self._maybe_do_last_autocommit", havoc_all=True, raises=["KafkaError", "CancelledError"],
           note="_maybe_do_last_autocommit (under contract, C04)")
    c.hook("before", "self._maybe_do_last_autocommit", [("set", "$last_commit_for", "some_assignment(a0)")])
    c.call("task.exception", returns=Opt(EXC), note="Task.exception() of a finished helper task")
    c.modifies("GroupCoordinator._pending_exception", "GroupCoordinator._error_consumed_fut", "Future.state", "Future.nres")
    c.raises("unexpected-error-or-cancelled", "BaseException")
    c.loop(0, header="while not self._closing.done()", invariants=[])
    c.loop(1, header="for task in *", invariants=[])
    WAKES = "fut_listed(a0, self._closing) and kw_return_when == asyncio.FIRST_COMPLETED"
    c.hook("before", "asyncio.wait", [
        ("assert", "every-wait-of-the-coordination-task-is-also-a-wait-for-close", WAKES),
    ])
    c.ensures_internal("ends-only-when-closing",
                       "self._closing.done()")
    c.ensures_internal("the-final-commit-is-attempted-for-the-assignment-in-hand",
                       "implies(assignment is not None, $last_commit_for == assignment)")


@specfn("fut_listed")
def fut_listed(ex, st, lst, x):
    """x occurs in the list: written out for the first eight positions (quantifier-free for the short literal lists the
    routine builds, so that a missing future is refuted with a model instead of leaving the solver undecided), with
    the general existential kept for longer lists"""
    import z3
    from pyvc import ty as T
    arr, ln = T.list_arr(lst), T.list_len(lst)
    k = z3.FreshConst(T.INT.sort(), "kf")
    first = [z3.And(T.intval(i).t < ln, z3.Select(arr, T.intval(i).t) == x.t) for i in range(8)]
    rest = z3.And(ln > T.intval(8).t, z3.Exists([k], z3.And(T.intval(8).t <= k, k < ln, z3.Select(arr, k) == x.t)))
    return V(BOOL, z3.Or(first + [rest]))


@specfn("no_assignment")
def no_assignment(ex, st):
    from pyvc import ty as T
    return T.opt_none(Opt(Ref("Assignment")))


@specfn("some_assignment")
def some_assignment(ex, st, a):
    from pyvc import ty as T
    ty = Opt(Ref("Assignment"))
    if isinstance(a.ty, Opt):
        return V(ty, a.t)
    return T.opt_some(ty, V(Ref("Assignment"), a.t))
