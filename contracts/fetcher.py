"""C08 / C03 — aiokafka/consumer/fetcher.py: PartitionRecords (isolation filter, position bookkeeping)."""
import z3
from pyvc.contract import contract, classmodel, specfn, SPEC_TYPES, CLASSES
from pyvc.ty import V, INT, BOOL, REAL, STR, NONE, EXC, BYTES, Opt, Tup, List, Set, Dict, Ref, Opaque
from pyvc.exec_base import Fut
from pyvc import ty as T
from .common import TP

MOD = "aiokafka.consumer.fetcher"

RECORD = Tup(INT, names=["offset"])                 # a decoded record; only its offset matters to the filter
classmodel("BatchObj", {                            # a record batch as MemoryRecords.next_batch() hands it out
    "producer_id": Opt(INT), "base_offset": INT, "next_offset": INT,
    "is_control_batch": BOOL, "is_transactional": BOOL,
    "g_records": List(RECORD),                      # ghost: the records iteration yields
    "g_abort": BOOL,                                # ghost: its control record is an ABORT marker
})
CLASSES["BatchObj"].iter_field = "g_records"
classmodel("Records", {"g_batches": List(Ref("BatchObj")), "g_pos": INT})      # MemoryRecords: ghost cursor over its batches
classmodel("ConsumerRecordObj", {"g_offset": INT})
ABORTED = List(Tup(INT, INT))                       # (producer_id, first_offset), sorted by first_offset

classmodel("PartitionRecords", {
    "_tp": TP, "_records": Ref("Records"),
    "_aborted_transactions": ABORTED, "_aborted_producers": Set(INT),
    "_check_crcs": BOOL, "_isolation_level": INT,
    "next_fetch_offset": INT,
}, real=MOD + ":PartitionRecords")
CLASSES["PartitionRecords"].invariants = [
    ("aborted-index-sorted-by-first-offset", "forall(lambda j, k: implies(0 <= j <= k < len(self._aborted_transactions),"
     " self._aborted_transactions[j][1] <= self._aborted_transactions[k][1]))"),
]

A = "self._aborted_transactions"


@contract(MOD + ":PartitionRecords._consume_aborted_up_to", ["C08", "C04"])
def _(c):
    """Java: while (!aborted.isEmpty() && aborted.peek().firstOffset <= offset) abortedProducerIds.add(aborted.poll().producerId)"""
    c.self_("PartitionRecords")
    c.param("batch_offset", INT)
    c.modifies("self._aborted_transactions", "self._aborted_producers")
    N = "(len(old(%s)) - len(%s))" % (A, A)
    c.loop(0, header="while aborted_transactions", invariants=[
        ("remaining-is-a-suffix", "0 <= len(%s) <= len(old(%s)) and forall(lambda j: implies(0 <= j < len(%s),"
         " %s[j] == old(%s)[j + %s]))" % (A, A, A, A, A, N)),
        ("consumed-prefix-started-at-or-before", "forall(lambda j: implies(0 <= j < %s, old(%s)[j][1] <= batch_offset"
         " and old(%s)[j][0] in self._aborted_producers))" % (N, A, A)),
        ("only-consumed-producers-added", "forall(lambda p: implies(p in self._aborted_producers, p in old(self._aborted_producers)"
         " or exists(lambda j: 0 <= j < %s and old(%s)[j][0] == p)))" % (N, A)),
        ("nothing-removed", "forall(lambda p: implies(p in old(self._aborted_producers), p in self._aborted_producers))"),
    ])
    c.ensures("remaining-is-a-suffix", "0 <= len(%s) <= len(old(%s)) and forall(lambda j: implies(0 <= j < len(%s),"
              " %s[j] == old(%s)[j + %s]))" % (A, A, A, A, A, N))
    c.ensures("index-consumed-up-to-offset", "forall(lambda j: implies(0 <= j < len(%s), %s[j][1] > batch_offset))" % (A, A))
    c.ensures("consumed-prefix-started-at-or-before", "forall(lambda j: implies(0 <= j < %s, old(%s)[j][1] <= batch_offset"
              " and old(%s)[j][0] in self._aborted_producers))" % (N, A, A))
    c.ensures("only-consumed-producers-added", "forall(lambda p: implies(p in self._aborted_producers, p in old(self._aborted_producers)"
              " or exists(lambda j: 0 <= j < %s and old(%s)[j][0] == p)))" % (N, A))
    c.ensures("nothing-removed", "forall(lambda p: implies(p in old(self._aborted_producers), p in self._aborted_producers))")


@contract(MOD + ":PartitionRecords._contains_abort_marker", "C08")
def _(c):
    c.self_("PartitionRecords")
    c.param("next_batch", Ref("BatchObj"))
    c.returns(BOOL)
    c.trusted("reads the control batch's single record and compares ControlRecord.parse(key) with ABORT_MARKER "
              "(version 0, type 0); modelled by the batch's ghost flag g_abort")
    c.ensures("is-abort-marker", "result == next_batch.g_abort")


INDEX_CONSUMED = "forall(lambda j: implies(0 <= j < len(%s), %s[j][1] > next_batch.base_offset))" % (A, A)


@contract(MOD + ":PartitionRecords._unpack_records", ["C08", "C03", "C04"])
def _(c):
    c.self_("PartitionRecords")
    c.is_generator = True
    # between two yields the consumer runs: it never touches this object, the record set or its batches
    c.owns("self.*", "Records.*", "BatchObj.*")
    c.requires("self._records.g_pos == 0", "fresh-cursor")
    # valid_log: batches in offset order, records inside a batch strictly increasing and inside the batch's range
    c.requires("forall(lambda j, k: implies(0 <= j < k < len(self._records.g_batches),"
               " self._records.g_batches[j].next_offset <= self._records.g_batches[k].base_offset))", "batches-in-offset-order")
    c.requires("forall(lambda j: implies(0 <= j < len(self._records.g_batches),"
               " self._records.g_batches[j].base_offset < self._records.g_batches[j].next_offset))", "batches-non-empty-range")
    c.requires("forall(lambda b, j, k: implies(0 <= b < len(self._records.g_batches) and"
               " 0 <= j < k < len(self._records.g_batches[b].g_records),"
               " self._records.g_batches[b].g_records[j].offset < self._records.g_batches[b].g_records[k].offset))", "records-increasing")
    c.requires("forall(lambda b, j: implies(0 <= b < len(self._records.g_batches) and 0 <= j < len(self._records.g_batches[b].g_records),"
               " self._records.g_batches[b].g_records[j].offset < self._records.g_batches[b].next_offset))", "records-inside-batch")
    c.requires("implies(len(self._records.g_batches) > 0, self.next_fetch_offset < self._records.g_batches[0].next_offset)",
               "first-batch-ends-after-the-fetch-offset")
    c.modifies("self._aborted_transactions", "self._aborted_producers", "self.next_fetch_offset", "self._records.g_pos")
    c.raises("checksum-mismatch", "CorruptRecordException")
    c.call("records.has_next", returns="self_.g_pos < len(self_.g_batches)", note="MemoryRecords.has_next(): another complete batch follows")
    c.call("records.next_batch", returns="self_.g_batches[self_.g_pos]", modifies=["self_.g_pos"],
           post=["self_.g_pos == old(self_.g_pos) + 1"], pre=[("has-next", "self_.g_pos < len(self_.g_batches)")],
           note="MemoryRecords.next_batch(): hands out the batches in order")
    c.call("next_batch.validate_crc", returns=BOOL, note="checksum comparison (C09/C10)")
    c.call("self._consumer_record", returns=Ref("ConsumerRecordObj"), post=["fresh(result)", "result.g_offset == a1.offset"],
           note="wraps the record (deserialisers applied) without changing its offset")
    K = "self._records.g_pos"
    B = "self._records.g_batches"
    c.loop(0, header="while records.has_next()", invariants=[
        ("cursor-in-range", "0 <= %s <= len(%s) and records == self._records" % (K, B)),
        ("position-is-at-the-end-of-the-consumed-batches", "implies(%s > 0, self.next_fetch_offset == %s[%s - 1].next_offset)" % (K, B, K)),
        ("position-never-moves-back", "self.next_fetch_offset >= old(self.next_fetch_offset)"),
        ("position-before-the-next-batch-end", "implies(%s < len(%s), self.next_fetch_offset < %s[%s].next_offset)" % (K, B, B, K)),
        ("log-fixed", "%s == old(%s) and self._isolation_level == old(self._isolation_level)" % (B, B)),
        ("aborted-index-stays-sorted", CLASSES["PartitionRecords"].invariants[0][1]),
    ])
    c.loop(1, header="for record in next_batch", invariants=[
        ("position-past-the-delivered-records", "forall(lambda j: implies(0 <= j < $i, next_batch.g_records[j].offset < self.next_fetch_offset))"),
        ("position-inside-the-batch", "self.next_fetch_offset <= next_batch.next_offset"),
        ("position-never-moves-back", "self.next_fetch_offset >= old(self.next_fetch_offset)"),
    ])
    # ---- the isolation filter (Java Fetcher.CompletedFetch / KIP-98), as clauses at the decisive program points
    c.hook("before", "self._aborted_producers.discard", [
        ("assert", "aborted-index-consumed-before-the-abort-marker-ends-the-transaction", INDEX_CONSUMED),
        ("assert", "only-an-abort-marker-ends-the-aborted-range", "next_batch.is_control_batch and next_batch.g_abort"),
    ])
    c.hook("yield", "", [
        ("assert", "control-records-are-never-delivered", "not next_batch.is_control_batch"),
        ("assert", "aborted-transactions-are-never-delivered", "implies(self._isolation_level == READ_COMMITTED"
         " and next_batch.producer_id is not None and next_batch.is_transactional,"
         " next_batch.producer_id not in self._aborted_producers and " + INDEX_CONSUMED + ")"),
        ("assert", "position-is-one-past-the-delivered-record", "record.offset + 1 == self.next_fetch_offset"),
        ("assert", "the-record-of-this-batch", "$yield_value.g_offset == record.offset"),
    ])
    c.ensures("position-ends-at-the-end-of-the-log-slice", "implies(len(%s) > 0, self.next_fetch_offset == %s[len(%s) - 1].next_offset)" % (B, B, B))
    c.ensures("position-never-moves-back", "self.next_fetch_offset >= old(self.next_fetch_offset)")
    c.ensures("every-batch-consumed", "%s == len(%s)" % (K, B))


from pyvc.contract import REGISTRY as _R      # noqa: E402
_WITNESS = '''
import sys
sys.path.insert(0, "/verif")
from bounded import C08
cases, nontrivial, fails = C08.sweep(4, limit=1)
if not fails:
    cases2, fails = C08.sweep_holes(3, limit=1)           # the same logs after compaction removed one whole batch
    cases += cases2
VIOLATED = bool(fails)
DETAIL = ("real PartitionRecords against the Java filter and transaction ground truth on %d small logs: %r" % (cases, fails[:1])
          if fails else "agrees on %d small logs" % cases)
'''
_R[MOD + ":PartitionRecords._unpack_records"].replay_fn = lambda model, ob=None: {"script": _WITNESS}
