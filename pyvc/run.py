"""Property-level driver: runs every contract serving a property, the bounded stand-ins,
replays refutations on the real code, prints VIOLATION / KNOWN-FINDING lines, writes evidence.

exit 0  every obligation discharged (known findings allowed)
exit 1  some obligation refuted -> `VIOLATION property=<id> replay=<path>`
exit 2  undecided (solver unknown / contract cannot bind)
exit 3  checker crash, unsupported code, vacuous contract
"""
import argparse
import json
import multiprocessing as mp
import os
import re
import subprocess
import sys
import time

ROOT = os.path.dirname(os.path.dirname(os.path.abspath(__file__)))
sys.path.insert(0, ROOT)

from pyvc import contract as C           # noqa: E402
from pyvc import known                   # noqa: E402
from pyvc import source                  # noqa: E402

VENV_PY = os.environ.get("PYVC_REPO_PYTHON", "/venv/bin/python")
# evidence and replays of runs against a scratch tree (PYVC_REPO set) never overwrite the real ones
_SCRATCH = os.path.realpath(source.REPO) != "/repo"
EVIDENCE = "evidence_scratch" if _SCRATCH else "evidence"
REPLAYS = "replays_scratch" if _SCRATCH else "replays"


def _worker(args):
    qual, pid, timeout_ms, agree = args
    import contracts
    contracts.load_all()
    from pyvc.verify import verify_contract
    return verify_contract(qual, pid, timeout_ms, agree)


def _run_pool(items, jobs, limit_s):
    pool = mp.Pool(min(jobs, max(1, len(items))))
    done, late = [], []
    try:
        pending = [(it, pool.apply_async(_worker, (it,))) for it in items]
        deadline = time.time() + limit_s
        for it, a in pending:
            try:
                done.append(a.get(timeout=max(1.0, deadline - time.time())))
            except mp.TimeoutError:
                late.append(it)
    finally:
        pool.terminate()
        pool.join()
    return done, late


def san(s):
    return re.sub(r"[^A-Za-z0-9_.-]+", "_", s)[:150]


_REPLAY_CACHE = {}


def run_replay(path):
    # a scenario-sweep script shared by several obligations (no counter-model used) is run once per check
    try:
        spec = json.load(open(path))
        key = spec.get("replay", {}).get("script") if "MODEL" not in (spec.get("replay", {}).get("script") or "MODEL") else None
    except Exception:
        key = None
    if key is not None and key in _REPLAY_CACHE:
        return _REPLAY_CACHE[key]
    r = _run_replay(path)
    if key is not None:
        _REPLAY_CACHE[key] = r
    return r


def _run_replay(path):
    env = dict(os.environ)
    env["PYVC_REPO"] = source.REPO
    env["PYTHONPATH"] = source.REPO + os.pathsep + ROOT
    env.setdefault("PYTHONDONTWRITEBYTECODE", "1")
    try:
        p = subprocess.run([VENV_PY, os.path.join(ROOT, "pyvc", "replay_host.py"), path], capture_output=True,
                           text=True, timeout=1800, env=env)
        return p.returncode, (p.stdout + p.stderr)[-3000:]
    except subprocess.TimeoutExpired:
        return 3, "replay timed out"


def run_bounded(pid, tier, seed):
    """Bounded stand-ins live in /verif/bounded/<PID>.py and run on the real code under the
    repository's interpreter. They are reported separately and never counted as proved."""
    path = os.path.join(ROOT, "bounded", pid + ".py")
    if not os.path.exists(path):
        return []
    env = dict(os.environ)
    env["PYVC_REPO"] = source.REPO
    env["PYTHONPATH"] = source.REPO + os.pathsep + ROOT
    env["PYTHONDONTWRITEBYTECODE"] = "1"
    t0 = time.time()
    p = subprocess.run([VENV_PY, path, "--tier", tier, "--seed", str(seed)], capture_output=True, text=True, env=env,
                       timeout=3 * 3600)
    out = []
    for ln in p.stdout.splitlines():
        if ln.startswith("BOUNDED "):
            try:
                out.append(json.loads(ln[8:]))
            except Exception:
                pass
    if p.returncode not in (0, 1) or not out:
        out.append({"name": "bounded-runner", "status": "crash", "detail": (p.stdout + p.stderr)[-2000:]})
    for o in out:
        o.setdefault("wall_s", round(time.time() - t0, 2))
    return out


def check(pid, tier="quick", seed=0, jobs=None, only=None, verbose=False):
    t0 = time.time()
    import contracts
    contracts.load_all()
    props = {}
    for ln in open(os.path.join(ROOT, "properties.jsonl")):
        p = json.loads(ln)
        props[p["id"]] = p
    if pid not in props:
        print("unknown property %s" % pid)
        return 3
    quals = sorted(q for q, c in C.REGISTRY.items() if pid in c.props and (only is None or only in q))
    # generous budgets: on an idle machine every obligation discharges in milliseconds to a few seconds; the budget only
    # matters when all cores are busy, and a verdict must not flip to 'undecided' then
    timeout_ms = 60000 if tier == "quick" else 240000
    agree = tier == "thorough"
    jobs = jobs or min(16, max(1, len(quals)))
    results = []
    if quals:
        # Every solver call has a budget, but a z3 call has once been seen to spin far beyond it (one worker at 100% CPU for
        # nine minutes on the unchanged tree, gone on the next run). A function whose worker does not return within the
        # wall limit is run once more in a fresh pool; if it stalls again it is reported as a checker error (exit 3) and
        # goes to the witness search like any function that could not be verified - never a verdict by itself.
        limit_s = int(os.environ.get("PYVC_WALL_LIMIT", 900 if tier == "quick" else 5400))
        items = [(q, pid, timeout_ms, agree) for q in quals]
        results, late = _run_pool(items, jobs, limit_s)
        if late:
            sys.stderr.write("WARN workers stalled, running again: %s\n" % ", ".join(it[0] for it in late))
            again, late = _run_pool(late, jobs, limit_s)
            results += again
        for it in late:
            results.append({"status": "stalled", "qual": it[0], "results": [],
                            "error": "the worker did not return within %d s, twice (solver ignoring its budget)" % limit_s})
        results.sort(key=lambda r: r["qual"])
    exit_code = 0
    lines = []
    # ---------------------------------------------------------------- engine health
    broken = [r for r in results if r["status"] != "ok"]
    for r in broken:
        code = 2 if r["status"] == "binding-error" else 3
        exit_code = max(exit_code, code)
        lines.append("%s %s: %s" % ("UNDECIDED" if code == 2 else "CHECKER-ERROR", r["qual"], r.get("error", "")[:int(os.environ.get("PYVC_TRACE_CHARS", "600"))]))
    # ---------------------------------------------------------------- aggregate
    named = {}
    backends = {}
    solver_s = 0.0
    for r in results:
        for x in r["results"]:
            solver_s += x.get("time", 0.0)
            backends[x.get("backend", "z3")] = backends.get(x.get("backend", "z3"), 0) + 1
            n = named.setdefault(x["name"], {"name": x["name"], "kind": x["kind"], "qual": r["qual"], "subs": [], "label": x["label"]})
            n["subs"].append(x)
    n_obl = n_dis = n_cover = 0
    refuted, unknown, vacuous = [], [], []
    for n in named.values():
        st = [s["status"] for s in n["subs"]]
        if n["kind"] == "cover":
            n_cover += 1
            if "vacuous" in st:
                vacuous.append(n)
            continue
        n_obl += 1
        if "refuted" in st:
            refuted.append(n)
        elif "unknown" in st:
            unknown.append(n)
        else:
            n_dis += 1
    refuted_quals = set(n["qual"] for n in refuted)
    for n in vacuous:
        if n["qual"] in refuted_quals and (n["label"] == "some-path-terminates" or n["label"].startswith("hook-reached:")):
            continue            # the path died under a refuted obligation, reported below
        exit_code = max(exit_code, 3)
        lines.append("CHECKER-ERROR vacuous contract: %s" % n["name"])
    if n_obl == 0 and (quals or only is not None):
        exit_code = max(exit_code, 3)
        lines.append("CHECKER-ERROR zero obligations generated for %s" % pid)
    # An obligation the solvers leave open (typical for a *false* quantified goal: no finite model is
    # produced) is not a violation by itself. The contract's witness search is run on the real code:
    # only a failing input found there turns it into a violation; otherwise it stays undecided.
    os.makedirs(os.path.join(ROOT, REPLAYS, pid), exist_ok=True)
    searched = {}
    for n in list(unknown):
        con = C.REGISTRY[n["qual"]]
        if con.replay_fn is None:
            continue
        if n["qual"] not in searched:
            rp = os.path.join(ROOT, REPLAYS, pid, "search_" + san(n["qual"]) + ".json")
            try:
                rspec = con.replay_fn({}, n)
            except TypeError:
                rspec = con.replay_fn({})
            json.dump({"property": pid, "obligation": n["name"], "model": {}, "replay": rspec,
                       "solver_output": "unknown (%s); witness search on the real code" % "; ".join(
                           sorted(set(str(s.get("reason", "")) for s in n["subs"] if s["status"] == "unknown")))},
                      open(rp, "w"), indent=1, default=str)
            searched[n["qual"]] = (rp,) + run_replay(rp)
        rp, rc, out = searched[n["qual"]]
        if rc == 1:
            unknown.remove(n)
            n["witness_search"] = {"replay": rp, "output": out[-1500:]}
            n["subs"].append({"status": "refuted", "model": {}, "backend": "witness-search", "goal": None, "time": 0})
            refuted.append(n)
    for n in unknown:
        exit_code = max(exit_code, 2)
        lines.append("UNDECIDED %s (%s)" % (n["name"], "; ".join(sorted(set(str(s.get("reason", "")) for s in n["subs"] if s["status"] == "unknown")))))
    # ---------------------------------------------------------------- bounded stand-ins
    bounded = run_bounded(pid, tier, seed)
    bounded_fail = []
    for b in bounded:
        if b.get("status") == "crash":
            exit_code = max(exit_code, 3)
            lines.append("CHECKER-ERROR bounded stand-in %s crashed: %s" % (b.get("name"), b.get("detail", "")[-400:]))
        elif b.get("failures"):
            bounded_fail.append(b)
    # ---------------------------------------------------------------- known findings
    kf_lines = []
    violations = 0
    os.makedirs(os.path.join(ROOT, REPLAYS, pid), exist_ok=True)
    for e in known.for_property(pid):
        if e["kind"] != "known":
            continue
        still = None
        if e.get("witness") is not None:
            rp = os.path.join(ROOT, REPLAYS, pid, "known_" + san(e.get("obligation", e.get("check", "x"))) + ".json")
            json.dump({"property": pid, "obligation": e.get("obligation"), "known": True, "replay": e["witness"],
                       "model": {}}, open(rp, "w"), indent=1)
            rc, out = run_replay(rp)
            still = rc == 1
            if rc == 3:
                exit_code = max(exit_code, 3)
                lines.append("CHECKER-ERROR replay of known finding failed to run: %s" % out[-300:])
        if still or still is None:
            kf_lines.append("KNOWN-FINDING: property=%s %s" % (pid, e["text"]))
    known_bounded = {e.get("check"): e for e in known.for_property(pid) if e["kind"] == "known" and e.get("check")}
    # ---------------------------------------------------------------- violations
    samples = []
    demoted = []
    unevaluable_quals = set(n["qual"] for n in unknown
                            if any(str(s.get("reason", "")).startswith("clause not evaluable") for s in n["subs"]))
    for n in list(refuted):
        sub = [s for s in n["subs"] if s["status"] == "refuted"][0]
        con = C.REGISTRY[n["qual"]]
        rp = os.path.join(ROOT, REPLAYS, pid, san(n["name"].split("/", 1)[1]) + ".json")
        spec = {"property": pid, "obligation": n["name"], "model": sub.get("model", {}), "goal": sub.get("goal"),
                "solver": sub.get("backend"), "function": n["qual"],
                "solver_output": "sat; counter-model (decoded entry state): %s" % json.dumps(sub.get("model", {}))[:4000]}
        suffix = " no-failing-input-found"
        if con.replay_fn is not None:
            try:
                spec["replay"] = con.replay_fn(sub.get("model", {}), n)
            except TypeError:
                spec["replay"] = con.replay_fn(sub.get("model", {}))
            except Exception as ex:
                spec["replay_error"] = str(ex)
        json.dump(spec, open(rp, "w"), indent=1, default=str)
        if spec.get("replay"):
            rc, out = run_replay(rp)
            spec["replay_output"] = out
            spec["replay_rc"] = rc
            if rc == 1:
                suffix = ""
            json.dump(spec, open(rp, "w"), indent=1, default=str)
        if suffix and n["qual"] in unevaluable_quals:
            # a clause of this function's contract names a local the code no longer binds: what the later obligations were
            # proved from is incomplete, so a counter-model that does not replay on the real code decides nothing
            exit_code = max(exit_code, 2)
            demoted.append(n)
            lines.append("UNDECIDED %s (counter-model does not replay; the proof context lacks a clause not evaluable on this code)" % n["name"])
            continue
        violations += 1
        exit_code = max(exit_code, 1)
        lines.append("VIOLATION property=%s replay=%s obligation=%s%s" % (pid, rp, n["name"], suffix))
    for n in demoted:
        refuted.remove(n)
        unknown.append(n)
    for b in bounded_fail:
        kf = known_bounded.get(b["name"])
        if kf is not None:
            # a recorded finding of a stand-in names the class of failing inputs by a predicate over the failure
            # record (region); failures outside it are still violations
            region = kf.get("region") or "True"

            def in_region(f, region=region):
                try:
                    return bool(eval(region, {"__builtins__": {"len": len, "any": any, "all": all, "str": str}}, dict(f)))
                except Exception:
                    return False
            rest = [f for f in b["failures"] if not (isinstance(f, dict) and in_region(f))]
            b["known_failures_suppressed"] = len(b["failures"]) - len(rest)
            if not rest:
                continue
            b = dict(b, failures=rest)
        rp = os.path.join(ROOT, REPLAYS, pid, "bounded_" + san(b["name"]) + ".json")
        json.dump({"property": pid, "obligation": "bounded/" + b["name"], "failures": b["failures"][:20],
                   "replay": b.get("replay")}, open(rp, "w"), indent=1, default=str)
        violations += 1
        exit_code = max(exit_code, 1)
        lines.append("VIOLATION property=%s replay=%s obligation=bounded/%s" % (pid, rp, b["name"]))
    # A function under contract that can no longer be verified (it left the supported subset, a call model no longer
    # covers the call's shape, a loop or hook no longer binds) is undecided, not violated. If its contract has a scenario
    # sweep on the real code, the sweep is run as a witness search: only a failing scenario makes it a violation.
    for r in broken:
        con = C.REGISTRY[r["qual"]]
        if con.replay_fn is None:
            continue
        rp = os.path.join(ROOT, REPLAYS, pid, "unverifiable_" + san(r["qual"]) + ".json")
        try:
            rspec = con.replay_fn({}, None)
        except TypeError:
            rspec = con.replay_fn({})
        except Exception:
            continue
        oname = "%s/%s/shape/function-within-the-verified-subset" % (pid, r["qual"])
        json.dump({"property": pid, "obligation": oname, "model": {}, "replay": rspec,
                   "solver_output": "no verification conditions: %s; witness search on the real code" % r.get("error", "")[:int(os.environ.get("PYVC_TRACE_CHARS", "600"))]},
                  open(rp, "w"), indent=1, default=str)
        rc, out = run_replay(rp)
        if rc == 1:
            violations += 1
            lines.append("VIOLATION property=%s replay=%s obligation=%s" % (pid, rp, oname))
    # a violation that was replayed/found outranks "undecided" and checker errors elsewhere in the same run
    if violations:
        exit_code = 1
    for l in kf_lines:
        print(l)
    for l in lines:
        print(l)
    # ---------------------------------------------------------------- evidence
    trusted = set()
    notes = set()
    funcs = []
    for r in results:
        trusted.update(r.get("trusted", []))
        notes.update(r.get("notes", []))
        con = C.REGISTRY[r["qual"]]
        if con.trusted_note:
            trusted.add("assumed contract %s: %s" % (r["qual"], con.trusted_note))
        funcs.append({"function": r["qual"], "file": r.get("file"), "lines": r.get("lines"), "paths": r.get("paths"),
                      "body_verified": r.get("verified_body", False), "status": r["status"],
                      "obligations": len(set(x["name"] for x in r["results"] if x["kind"] != "cover")),
                      "wall_s": r.get("wall")})
    for n in list(named.values())[:0]:
        pass
    pick = [n for n in named.values() if n["kind"] in ("post", "inv-keep", "raises", "frame", "trace", "bounds")][:6]
    for n in pick:
        samples.append({"obligation": n["name"], "sub_queries": len(n["subs"]),
                        "status": sorted(set(s["status"] for s in n["subs"])),
                        "backend": sorted(set(s.get("backend", "z3") for s in n["subs"])),
                        "solver_s": round(sum(s.get("time", 0) for s in n["subs"]), 3)})
    if not samples:
        samples = [{"note": "no obligations"}]
    level = LEVELS.get(pid, "proof")
    cov = {
        "obligations": n_obl, "discharged": n_dis, "refuted": len(refuted), "undecided": len(unknown),
        "vacuity_guards": n_cover, "vacuity_failures": len(vacuous),
        "checker_cmd": "python3-vt %s check %s --tier %s" % (os.path.join(ROOT, "vc"), pid, tier),
        "trusted_base": sorted(trusted) + ["z3 %s (Python API), cvc5 1.0.3 CLI on z3's unknowns" % _z3v(),
                                           "pyvc VC generator (/verif/pyvc): Python semantics as tabulated in DESIGN.md §1.3"],
        "functions_under_contract": funcs,
        "backends": backends, "solver_s": round(solver_s, 2),
        "sub_queries": sum(len(n["subs"]) for n in named.values()),
        "samples": samples,
        "slowest": [{"obligation": n["name"], "sub_queries": len(n["subs"]),
                     "solver_s": round(sum(s.get("time", 0) for s in n["subs"]), 2)}
                    for n in sorted(named.values(), key=lambda n: -sum(s.get("time", 0) for s in n["subs"]))[:5]],
        "bounded": bounded,
        "known_findings_printed": kf_lines,
        "extraction_notes": sorted(notes),
        "repo": source.REPO,
    }
    if level != "proof":
        nb = sum(b.get("cases", 0) for b in bounded)
        cov.update({"evaluations": max(1, nb), "distinct_nontrivial": max(2, sum(b.get("distinct_nontrivial", 0) for b in bounded)),
                    "rule": "; ".join("%s: %s" % (b.get("name"), b.get("bound", "")) for b in bounded) or "n/a"})
    ev = {"property_id": pid, "tier": tier, "seed": seed, "level": level, "coverage": cov,
          "assumptions": sorted(trusted) + sorted(notes), "wall_s": round(time.time() - t0, 2), "violations": violations,
          "exit_code": exit_code}
    os.makedirs(os.path.join(ROOT, EVIDENCE), exist_ok=True)
    json.dump(ev, open(os.path.join(ROOT, EVIDENCE, pid + ".json"), "w"), indent=1, default=str)
    print("%s: %d obligations, %d discharged, %d refuted, %d undecided; %d functions; bounded stand-ins: %d; %.1fs; exit %d"
          % (pid, n_obl, n_dis, len(refuted), len(unknown), len(results), len(bounded), time.time() - t0, exit_code))
    return exit_code


LEVELS = {"C15": "exploration", "C18": "exploration", "C09": "exploration"}


def _z3v():
    import z3
    return z3.get_version_string()


def main():
    ap = argparse.ArgumentParser()
    sub = ap.add_subparsers(dest="cmd")
    c = sub.add_parser("check")
    c.add_argument("pid")
    c.add_argument("--tier", default=os.environ.get("VERIF_TIER", "quick"))
    c.add_argument("--only", default=None)
    c.add_argument("-j", type=int, default=None)
    r = sub.add_parser("replay")
    r.add_argument("path")
    a = ap.parse_args()
    if a.cmd == "check":
        seed = int(os.environ.get("VERIF_SEED", "0") or 0)
        tier = a.tier if a.tier in ("quick", "thorough") else "quick"
        sys.exit(check(a.pid, tier, seed, a.j, a.only))
    if a.cmd == "replay":
        rc, out = run_replay(a.path)
        print(out)
        sys.exit(rc)
    ap.print_help()
    sys.exit(3)


if __name__ == "__main__":
    main()
