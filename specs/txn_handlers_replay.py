"""Replay sweeps for the sender's AddOffsetsToTxn / TxnOffsetCommit response handlers (C07) on the real classes with a
real TransactionManager: every error code the handlers distinguish (and a few they do not), in every position of a
two-partition answer. Runs under /venv/bin/python.

offsets_sweep() / group_sweep() -> list of problem strings."""
import logging

logging.disable(logging.CRITICAL)

# NoError, CoordinatorLoadInProgress, CoordinatorNotAvailable, NotCoordinator, UnknownTopicOrPartition, RequestTimedOut,
# GroupAuthorizationFailed, InvalidProducerEpoch, TransactionalIdAuthorizationFailed, ConcurrentTransactions,
# InvalidTxnState, an error no handler names (CorruptMessage)
CODES = (0, 14, 15, 16, 3, 7, 30, 47, 53, 51, 48, 2)


class _Sender:
    def __init__(self, tm):
        self._txn_manager = tm
        self._retry_backoff = 0.1
        self.client = None
        self.dead = []

    def _coordinator_dead(self, kind):
        self.dead.append(kind)


def _manager():
    from aiokafka.producer.transaction_manager import TransactionManager
    tm = TransactionManager("tid", 1000)
    tm.set_pid_and_epoch(1, 0)
    tm.begin_transaction()
    return tm


def offsets_sweep():
    import asyncio
    from aiokafka.producer.sender import TxnOffsetCommitHandler
    from aiokafka.protocol.transaction import TxnOffsetCommitResponse_v0
    from aiokafka.structs import TopicPartition, OffsetAndMetadata
    from aiokafka import errors as Errors

    async def main():
        bad = []
        tps = [TopicPartition("t", 0), TopicPartition("t", 1)]
        for c0 in CODES:
            for c1 in CODES:
                tm = _manager()
                offsets = {tps[0]: OffsetAndMetadata(5, ""), tps[1]: OffsetAndMetadata(7, "")}
                fut = tm.add_offsets_to_txn(offsets, "g")
                tm.consumer_group_added("g")
                h = TxnOffsetCommitHandler(_Sender(tm), offsets, "g")
                resp = TxnOffsetCommitResponse_v0(0, [("t", [(0, c0), (1, c1)])])
                raised = None
                try:
                    r = h.handle_response(resp)
                except Exception as e:          # fenced / fatal / unexpected: the sender task dies with it
                    raised, r = e, "raised"
                pending = tm.offsets_to_commit()
                still = set(pending[0]) if pending else set()
                # an offset may leave the pending set only through the coordinator's NoError for that partition (the
                # handler stops at the first answer that is not an acknowledgement, so later ones stay pending too)
                from aiokafka.producer.transaction_manager import TransactionState
                if tm.state == TransactionState.IN_TRANSACTION:
                    for tp, code in zip(tps, (c0, c1)):
                        if code != 0 and tp not in still:
                            bad.append("TxnOffsetCommit answered %s with %s (%d) and the offset counts as committed in the transaction"
                                       % (tp, Errors.for_code(code).__name__, code))
                elif fut.done() and not fut.cancelled() and fut.exception() is None and (c0, c1) != (0, 0):
                    # the transaction failed (abortable / fatal error): the pending offsets are dropped with it, and the
                    # application's send_offsets_to_transaction() must not be told they were committed
                    bad.append("TxnOffsetCommit answered with codes %r: the transaction failed but send_offsets_to_transaction "
                               "succeeded" % ((c0, c1),))
                if r is None and (c0, c1) != (0, 0) and 30 not in (c0, c1):
                    bad.append("TxnOffsetCommit answered with codes %r: the handler reports the request as done although %r "
                               "is not committed and the transaction has not failed" % ((c0, c1), sorted(still)))
                from aiokafka.client import CoordinationType
                wrong = [k for k in h._sender.dead if k != CoordinationType.GROUP]
                if wrong:
                    bad.append("TxnOffsetCommit (answered by the GROUP coordinator) with codes %r: the handler declared the %s "
                               "coordinator dead; the stale group coordinator stays cached and the retry goes to it again"
                               % ((c0, c1), wrong[0].name))
                if r is None and (c0, c1) == (0, 0) and not fut.done():
                    bad.append("both offsets acknowledged but send_offsets_to_transaction's future is still pending")
                if fut.done() and not fut.cancelled():
                    fut.exception()
        return bad
    return asyncio.run(main())


def group_sweep():
    import asyncio
    from aiokafka.producer.sender import AddOffsetsToTxnHandler
    from aiokafka.protocol.transaction import AddOffsetsToTxnResponse_v0
    from aiokafka.structs import TopicPartition, OffsetAndMetadata
    from aiokafka import errors as Errors

    async def main():
        bad = []
        for code in CODES:
            tm = _manager()
            fut = tm.add_offsets_to_txn({TopicPartition("t", 0): OffsetAndMetadata(5, "")}, "g")
            h = AddOffsetsToTxnHandler(_Sender(tm), "g")
            try:
                r = h.handle_response(AddOffsetsToTxnResponse_v0(0, code))
            except Exception:
                r = "raised"
            added = set(tm._txn_consumer_groups)
            if code != 0 and added:
                bad.append("AddOffsetsToTxn answered with %s (%d) and the group counts as part of the transaction"
                           % (Errors.for_code(code).__name__, code))
            if code == 0 and (added != {"g"} or r is not None):
                bad.append("AddOffsetsToTxn acknowledged but group recorded as %r, handler result %r" % (added, r))
            if r is None and code not in (0, 30):
                bad.append("AddOffsetsToTxn answered with %s (%d): reported as done, never retried" % (Errors.for_code(code).__name__, code))
            from aiokafka.client import CoordinationType
            wrong = [k for k in h._sender.dead if k != CoordinationType.TRANSACTION]
            if wrong:
                bad.append("AddOffsetsToTxn (answered by the TRANSACTION coordinator) with code %d: the handler declared the %s "
                           "coordinator dead" % (code, wrong[0].name))
            if fut.done() and not fut.cancelled():
                fut.exception()
        return bad
    return asyncio.run(main())


if __name__ == "__main__":
    for b in offsets_sweep() + group_sweep():
        print(b)


def partitions_sweep():
    """AddPartitionsToTxnHandler.handle_response on the real classes: the handler is created over the manager's live
    pending set (as Sender._maybe_do_transactional_request does), the request goes out for what is pending then, further
    partitions join the pending set while it is in flight, and the coordinator answers for the requested ones with every
    pair of codes. A partition is 'added' afterwards exactly if the coordinator answered NoError for it."""
    import asyncio
    from aiokafka.producer.sender import AddPartitionsToTxnHandler
    from aiokafka.protocol.transaction import AddPartitionsToTxnResponse_v0
    from aiokafka.structs import TopicPartition

    async def main():
        bad = []
        t0, t1, late = TopicPartition("t", 0), TopicPartition("t", 1), TopicPartition("u", 0)
        for c0 in CODES + (29,):
            for c1 in CODES + (29,):
                for joins_in_flight in (False, True):
                    for answer in ([("t", [(0, c0), (1, c1)])], [("t", [(1, c1), (0, c0)])], [("t", [(0, c0)]), ("t", [(1, c1)])]):
                        tm = _manager()
                        tm.maybe_add_partition_to_txn(t0)
                        tm.maybe_add_partition_to_txn(t1)
                        snd = _Sender(tm)
                        h = AddPartitionsToTxnHandler(snd, tm.partitions_to_add())
                        h.create_request()
                        if joins_in_flight:
                            tm.maybe_add_partition_to_txn(late)
                        try:
                            h.handle_response(AddPartitionsToTxnResponse_v0(0, answer))
                        except Exception:
                            pass
                        acked = {tp for tp, code in ((t0, c0), (t1, c1)) if code == 0}
                        added = set(tm._txn_partitions)
                        if not added <= acked:
                            bad.append("codes (%d, %d)%s: %s became writable, the coordinator acknowledged %s"
                                       % (c0, c1, ", a partition joined while in flight" if joins_in_flight else "",
                                          sorted(added - acked), sorted(acked)))
        return bad
    return asyncio.run(main())
