"""Per-contract verification: entry state, body execution, postconditions, discharge."""
import ast
import os
import subprocess
import sys
import tempfile
import time
import traceback
import z3
from . import ty as T
from .ty import V, INT, BOOL, REAL, NONE, NONEV, BYTES, EXC, PYOBJ, STR, Opt, Ref, Tup, List, Set, Dict, Enum, Opaque
from .state import St, Obl, Out, Unsupported, BindingError
from . import contract as C
from . import source
from .exec_base import PyThing, Fut
from .exec_stmt import StmtMixin


class Exec(StmtMixin):
    def __init__(self, contract, pid):
        StmtMixin.__init__(self, contract, pid)
        self.module = source.module(contract.module)
        self.fnode = self.module.func(contract.fname)

    def add_axiom(self, t):
        """Instance of a spec-function definition (a valid fact). Attached to the path on
        which the spec expression is evaluated, not to every query."""
        if not self.unfold_on:
            return
        if self._ax_sink is not None:
            self._ax_sink.append(t)
        else:
            self.axioms.append(t)

    # ------------------------------------------------------------------ entry
    def entry_state(self):
        c = self.c
        st = St()
        st.nalloc = z3.Int("nalloc0")
        st.assume(st.nalloc > 1)
        f = self.fnode
        posargs = [a.arg for a in f.args.posonlyargs + f.args.args]
        kwonly = [a.arg for a in f.args.kwonlyargs]
        declared = dict(c.params)
        defaults = {}
        d = f.args.defaults
        for a, dn in zip(posargs[len(posargs) - len(d):], d):
            defaults[a] = dn
        for a, dn in zip(f.args.kwonlyargs, f.args.kw_defaults):
            if dn is not None:
                defaults[a.arg] = dn
        if f.args.vararg or f.args.kwarg:
            raise Unsupported("*args/**kwargs in %s" % c.qual)
        for i, a in enumerate(posargs + kwonly):
            if i == 0 and a in ("self", "cls") and "." in c.fname:
                if a == "self":
                    if c.self_cls is None:
                        raise BindingError("%s is a method; contract lacks self_()" % c.qual)
                    sv = V(Ref(c.self_cls), z3.Int("self"))
                    st.assume(z3.And(sv.t > 0, sv.t < st.nalloc))
                    st.env["self"] = sv
                else:
                    st.env["cls"] = V(PYOBJ, PyThing("selfcls", name=c.fname.split(".")[0]))
                continue
            if a in declared and isinstance(declared[a], C.Sink):
                sk = declared[a]
                st.env[a] = V(PYOBJ, PyThing("sink", ghost=sk.ghost))
                lty = List(sk.elem)
                st.ghost[sk.ghost] = self.empty_container(lty)
            elif a in declared:
                ty = declared[a]
                v = ty.named("p_" + a)
                self.assume_valid(st, v)
                st.env[a] = v
            elif a in defaults:
                # default-argument-as-local-cache idiom: resolved to its default
                dn = defaults[a]
                self.spec += 1
                try:
                    st.env[a] = self.ev1(dn, st)[1]
                except Unsupported:
                    st.env[a] = V(PYOBJ, PyThing("default", node=dn))
                finally:
                    self.spec -= 1
                self.note("parameter %s of %s resolved to its default %s" % (a, c.qual, ast.unparse(dn)))
            else:
                raise BindingError("parameter %s of %s is not declared in the contract" % (a, c.qual))
        for n in declared:
            if n not in posargs + kwonly:
                raise BindingError("contract of %s declares parameter %s the function does not have" % (c.qual, n))
        for g, (ty, init) in c.ghosts.items():
            st.ghost[g] = T.coerce(self.spec_eval(init, st, old=st), ty) if init is not None else self.fresh(ty, g)
        self.entry = st.copy()
        for lbl, e in self.class_inv(c.self_cls, assumed=True) if (c.self_cls and not c.no_class_inv) else []:
            st.assume(self.spec_assume(e, st, old=self.entry))
        for lbl, e in c.requires_:
            st.assume(self.spec_assume(e, st, old=self.entry))
        self.entry = st.copy()
        return st

    def class_inv(self, cls, assumed=False):
        cm = C.CLASSES.get(cls)
        if cm is None:
            return []
        out = [("inv:" + l, e) for l, e in cm.invariants]
        if assumed:
            for l, e in cm.assumed:
                out.append(("assumed:" + l, e))
                self.trusted_used.add("assumed invariant of %s (%s): %s" % (cls, l, e))
        return out

    # ------------------------------------------------------------------- run
    def run(self):
        c = self.c
        T.set_mode(c.mode)
        st = self.entry_state()
        self.cover(st.copy(), "precondition-satisfiable", self.fnode.lineno)
        if not c.verify_body:
            return
        if c.pure:
            # `pure` lets callers treat the result as a function of the arguments: check it syntactically
            for n in ast.walk(self.fnode):
                if isinstance(n, ast.Attribute) and not (isinstance(n.value, ast.Name) and n.value.id == "cls"):
                    raise Unsupported("%s is declared pure but reads an attribute (line %s)" % (c.qual, n.lineno))
                if isinstance(n, (ast.Call, ast.Await, ast.Yield, ast.Global, ast.Nonlocal)):
                    raise Unsupported("%s is declared pure but contains %s (line %s)" % (c.qual, type(n).__name__, n.lineno))
        # every hook must bind to at least one call (or yield) of the real function: a hook that matches nothing
        # would make its assertions vacuous
        import fnmatch
        calls = [n for n in ast.walk(self.fnode) if isinstance(n, ast.Call)]
        texts = set()
        for n in calls:
            t0 = ast.unparse(n.func)
            for t in self.call_texts(t0):          # (also under the attribute chain a local alias stands for)
                texts.update((t, "%s/%d" % (t, len(n.args))))
            texts.add("%s#%d" % (t0, self.call_occurrence(n, t0)))
        # a hook whose call has disappeared leaves the contract undecided (exit 2), but the rest of the contract is still
        # verified: an obligation refuted there is a violation whatever became of the vanished call
        self.unbound_hooks = []
        for h in c.hooks:
            if h[0] in ("before", "after", "after-await") and not any(fnmatch.fnmatchcase(t, h[1]) for t in texts):
                self.unbound_hooks.append("hook pattern %r of %s matches no call in the function" % (h[1], c.qual))
        # c.immutable("Class.field"): the field is assigned nowhere in the package except in the real class's __init__
        for loc in getattr(c, "immutable_", []):
            cls, _, fld = loc.partition(".")
            cm = C.CLASSES.get(cls)
            real = cm.real.split(":")[1] if cm is not None and cm.real else cls
            from . import source as _src
            bad = []
            for f, ln, kc, kf, recv, bases in _src.attribute_stores().get(fld, []):
                if recv == "self" and kc == real and kf == "__init__":
                    continue            # the constructor
                if recv == "self" and kc is not None and kc != real and real not in bases:
                    continue            # `self.<field>` of an unrelated class: another field of the same name
                bad.append((f, ln))
            if bad:
                raise BindingError("%s declares %s immutable but it is assigned at %s" % (
                    c.qual, loc, ", ".join("%s:%d" % b for b in bad[:5])))
            self.note("field %s: assigned only in %s.__init__ (syntactic scan of the package, setattr not seen)" % (loc, real))
        body = self.fnode.body
        frag = getattr(c, "fragment_", None)
        if frag is not None:
            # Fragment contract: one statement of the real function (found by its header text) is verified
            # against a declared entry state of the locals it uses; the surrounding code is NOT verified by
            # this contract and is named as such in the evidence.
            want = " ".join(frag.split())
            hits = [n for n in ast.walk(self.fnode) if isinstance(n, ast.stmt)
                    and " ".join(self.module.segment(n).split("\n")[0].strip().rstrip(":").split()) == want]
            if len(hits) != 1:
                raise BindingError("fragment %r of %s matches %d statements" % (frag, c.qual, len(hits)))
            body = [hits[0]]
            self.note("fragment contract: only the statement `%s` (line %d) of %s is verified; its context is not"
                      % (frag, hits[0].lineno, c.qual))
            for n, ty in getattr(c, "locals_", {}).items():
                v = ty.named("l_" + n)
                if isinstance(ty, (List, Set, Dict)):
                    v.lv = ("local", n)
                self.assume_valid(st, v)
                st.env[n] = v
            self.entry = st.copy()
            for lbl, e in getattr(c, "frag_requires_", []):
                st.assume(self.spec_assume(e, st, old=self.entry))
            self.entry = st.copy()
        self.raises_stack.append([])
        outs = self.exec_block(body, st)
        outs = outs + self.raises_stack.pop()
        n_normal = 0
        for o in outs:
            self.paths += 1
            if o.kind in ("fall", "return"):
                n_normal += 1
                self.check_normal(o)
            elif o.kind == "raise":
                self.check_raise(o)
            elif frag is not None and o.kind in ("continue", "break"):
                # a fragment inside a loop of the real function may leave through the loop's `continue` / `break`: an end
                # of the fragment like falling off it
                n_normal += 1
                self.check_normal(Out("fall", o.st))
            else:
                raise Unsupported("%s outside loop" % o.kind)
        # canary: some path must reach a normal or exceptional end (otherwise every post is vacuous)
        any_end = [o for o in outs]
        # (when an obligation on the only path is refuted, the path continues under the refuted
        # goal and dies; the cover is then vacuous and the driver attributes it to the refutation)
        pcs = [z3.And(o.st.pc) if o.st.pc else z3.BoolVal(True) for o in any_end] or [z3.BoolVal(False)]
        self.obls.append(Obl(self.oname("cover", "some-path-terminates", self.fnode.lineno), "cover", "some-path-terminates",
                             self.fnode.lineno, [z3.Or(pcs)], z3.BoolVal(True)))
        # every hook assertion must be reached by some feasible path (else it asserts nothing)
        for (label, line), hp in sorted(getattr(self, "hook_reach", {}).items()):
            self.obls.append(Obl(self.oname("cover", "hook-reached:" + label, line), "cover", "hook-reached:" + label, line,
                                 [z3.Or(hp)], z3.BoolVal(True)))
        for h in c.hooks:
            for act in h[2]:
                if act[0] == "assert" and not any(k[0] == act[1] for k in getattr(self, "hook_reach", {})):
                    # never reached by the symbolic execution at all: reported as a vacuous guard (the driver
                    # attributes it to a refuted obligation of the same function when there is one)
                    self.obls.append(Obl(self.oname("cover", "hook-reached:" + act[1], self.fnode.lineno), "cover",
                                         "hook-reached:" + act[1], self.fnode.lineno, [z3.BoolVal(False)], z3.BoolVal(True)))

    def check_normal(self, o):
        c = self.c
        st = o.st
        res = o.val if o.kind == "return" and o.val is not None else NONEV
        if res.ty == PYOBJ and res.t.kind == "awaited":
            res = res.t.value
        if c.ret is not None and res.ty == PYOBJ and res.t.kind in ("emptylist", "emptyset", "emptydict") \
                and isinstance(c.ret, (List, Set, Dict)):
            res = self.empty_container(c.ret)             # `return []` where the contract declares the container type
        if c.ret is not None and res.ty != PYOBJ:
            cv = self.coerce_to(st, res, c.ret, "result")
            if cv is None:
                raise Unsupported("%s returns %s where the contract says %s" % (c.qual, res.ty, c.ret))
            res = cv
        line = self.fnode.lineno
        # in a postcondition a parameter name denotes the value the caller passed (locals,
        # including re-assigned parameters, are not visible); heap and ghosts are the final ones
        extra = dict(self.entry.env) if getattr(c, "fragment_", None) is None else {}     # a fragment's post speaks of final locals
        extra["result"] = res
        for lbl, exc, when, ens, exact in c.raises_:
            if exact and when:
                g = z3.Not(self.spec_bool(when, self.entry, old=self.entry))
                self.oblige(st, "raises", "%s:must-raise" % lbl, g, line, assume=False)
        auto = self.class_inv(c.self_cls) if (c.self_cls and not c.no_class_inv) else []
        # (internal postconditions may speak of this activation's ghost state; callers never see them)
        for lbl, e in auto + list(c.ensures_) + list(getattr(c, "ensures_internal_", [])):
            g = self.spec_bool(e, st, extra=extra, old=self.entry)
            self.oblige(st, "post", lbl, g, line, assume=False)

    def check_raise(self, o):
        c = self.c
        st = o.st
        exc = o.val
        line = self.fnode.lineno
        if not c.raises_:
            self.oblige(st, "raises", "no-exception", z3.BoolVal(False), line, assume=False)
            return
        alts = []
        for lbl, en, when, ens, exact in c.raises_:
            m = self.exc_is(exc.t, en)
            if when:
                m = z3.And(m, self.spec_bool(when, self.entry, old=self.entry))
            alts.append(m)
        self.oblige(st, "raises", "only-declared", z3.Or(alts), line, assume=False)
        for name in getattr(c, "never_raises_", []):
            self.oblige(st, "raises", "never:" + name, z3.Not(self.exc_is(exc.t, name)), line, assume=False)
        for lbl, en, when, ens, exact in c.raises_:
            m = self.exc_is(exc.t, en)
            s2 = st.copy().assume(m)
            for elbl, e in ens:
                g = self.spec_bool(e, s2, extra=dict(self.entry.env), old=self.entry)
                self.oblige(s2, "raises", "%s:%s" % (lbl, elbl), g, line, assume=False)


# ----------------------------------------------------------------- discharge

def decode_value(model, ty, term, depth=0):
    try:
        if ty == INT:
            v = model.eval(term, model_completion=True)
            return v.as_signed_long() if z3.is_bv_value(v) else v.as_long()
        if ty == BOOL:
            return z3.is_true(model.eval(term, model_completion=True))
        if ty == REAL:
            v = model.eval(term, model_completion=True)
            return float(v.as_fraction()) if z3.is_rational_value(v) else str(v)
        if isinstance(ty, Enum):
            return str(model.eval(term, model_completion=True))
        if isinstance(ty, (Ref,)) or ty == EXC:
            return model.eval(term, model_completion=True).as_long()
        if isinstance(ty, Opt):
            v = V(ty, term)
            if z3.is_true(model.eval(T.opt_is_none(v), model_completion=True)):
                return None
            return decode_value(model, ty.inner, T.opt_val(v).t, depth + 1)
        if isinstance(ty, Tup):
            return tuple(decode_value(model, it, T.tup_get(V(ty, term), i).t, depth + 1) for i, it in enumerate(ty.items))
        if isinstance(ty, List) or ty == BYTES:
            v = V(ty, term)
            n = decode_value(model, INT, T.list_len(v))
            n = max(0, min(n, 64))
            items = []
            for i in range(n):
                el = z3.Select(T.list_arr(v), T.intval(i).t)
                if ty == BYTES:
                    items.append(model.eval(el, model_completion=True).as_long())
                else:
                    items.append(decode_value(model, ty.elem, el, depth + 1))
            return bytes(items) if ty == BYTES else items
        return str(model.eval(term, model_completion=True))[:200]
    except Exception as e:      # decoding is best effort
        return "<undecoded %s: %s>" % (ty, e)


def _json_safe(v):
    if isinstance(v, bytes):
        return {"bytes": v.hex()}
    if isinstance(v, tuple):
        return {"tuple": [_json_safe(x) for x in v]}
    if isinstance(v, list):
        return [_json_safe(x) for x in v]
    return v


def cvc5_check(smt2, timeout_ms):
    """Second back end. Returns 'unsat' | 'sat' | 'unknown'."""
    try:
        with tempfile.NamedTemporaryFile("w", suffix=".smt2", delete=False) as f:
            f.write("(set-logic ALL)\n" + smt2)
            path = f.name
        try:
            p = subprocess.run(["/usr/bin/cvc5", "--lang=smt2", "--tlimit=%d" % timeout_ms, path],
                               capture_output=True, text=True, timeout=timeout_ms / 1000 + 5)
            out = p.stdout.strip().splitlines()
            for ln in out:
                if ln.strip() in ("unsat", "sat", "unknown"):
                    return ln.strip()
            return "unknown"
        finally:
            os.unlink(path)
    except Exception:
        return "unknown"


def abstract_mul(terms):
    """Replace wide bit-vector multiplications by an uninterpreted function. This only
    *weakens* the hypotheses (every model of the original is a model of the abstraction),
    so `unsat` of the abstraction proves the original obligation. It stops the solver from
    having to prove two differently-sliced multiplier circuits equivalent."""
    memo = {}

    def go(t):
        k = t.get_id()
        hit = memo.get(k)
        if hit is not None and hit[0].eq(t):
            return hit[1]
        if not z3.is_app(t) or t.num_args() == 0:
            r = t
        elif z3.is_quantifier(t):
            r = t
        else:
            ch = [go(c) for c in t.children()]
            if t.decl().kind() == z3.Z3_OP_BMUL and t.size() >= 16 and \
                    not any(z3.is_bv_value(c) and c.as_long() < 65536 for c in ch):
                ch = sorted(ch, key=lambda c: (0 if z3.is_bv_value(c) else 1, str(c.sexpr()) if z3.is_bv_value(c) else ""))
                r = ch[0]
                for c in ch[1:]:
                    f = z3.Function("mulUF%d" % t.size(), r.sort(), c.sort(), t.sort())
                    r = f(r, c)
            else:
                try:
                    r = t.decl()(*ch)
                except Exception:
                    r = t
        memo[k] = (t, r)
        return r
    return [go(t) for t in terms]


def mk_solver():
    # preprocessing first (equation solving removes the ghost/havoc constants and makes most
    # obligations syntactically trivial), then the general SMT core
    return z3.Then("simplify", "propagate-values", "solve-eqs", "simplify", "smt").solver()


def discharge(ex, timeout_ms=20000, use_cvc5=True, cvc5_agree=False):
    """Two passes: every sub-query first gets a short z3-only budget; what is still open afterwards gets the full
    budget (and cvc5), unless another path has meanwhile refuted the same obligation with a model - then the verdict
    is settled and the remaining paths are not searched (on a false quantified goal each costs the whole budget)."""
    refuted = set()
    if timeout_ms <= 8000:
        return _discharge_list(ex, list(ex.obls), timeout_ms, use_cvc5, cvc5_agree, refuted)
    res = _discharge_list(ex, list(ex.obls), 5000, False, cvc5_agree, refuted)
    for i, ob in enumerate(ex.obls):
        if res[i].get("status") != "unknown" or ob.kind == "cover":
            continue
        spent = res[i].get("time", 0.0)
        res[i] = _discharge_list(ex, [ob], timeout_ms, use_cvc5, cvc5_agree, refuted)[0]
        res[i]["time"] = round(res[i].get("time", 0.0) + spent, 4)
    return res


def _discharge_list(ex, obls, timeout_ms, use_cvc5, cvc5_agree, refuted_names):
    results = []
    axioms = list(ex.axioms) + ex.str_distinct_axioms()
    for ob in obls:
        t0 = time.time()
        if ob.name in refuted_names and ob.kind != "cover":
            # another path already refuted this obligation with a model: the verdict is settled, the remaining paths
            # are not searched (on a false quantified goal each of them can cost the whole time budget)
            results.append({"name": ob.name, "kind": ob.kind, "label": ob.label, "line": ob.line, "backend": "z3",
                            "status": "skipped-after-refutation", "time": 0.0})
            continue
        s = mk_solver()
        s.set("timeout", timeout_ms)
        for a in axioms:
            s.add(a)
        for p in ob.pc:
            s.add(p)
        rec = {"name": ob.name, "kind": ob.kind, "label": ob.label, "line": ob.line, "backend": "z3"}
        if ob.info.get("undecidable"):
            rec["status"] = "unknown"
            rec["reason"] = "clause not evaluable on this code: %s" % ob.info["undecidable"]
            rec["time"] = 0.0
            results.append(rec)
            continue
        if ob.kind == "cover":
            # vacuity guard: only `unsat` (a contradictory precondition / dead function) is an error;
            # with quantified hypotheses `unknown` is the normal answer, so the budget is small
            s.set("timeout", min(timeout_ms, 3000))
            r = s.check()
            if r == z3.unknown:
                # retry on the quantifier-free part: sat there does not prove sat of the whole, but
                # unsat there would prove vacuity
                s3 = mk_solver()
                s3.set("timeout", 3000)
                for p in ob.pc:
                    if not ex.has_quant(p):
                        s3.add(p)
                if s3.check() == z3.unsat:
                    r = z3.unsat
            rec["status"] = "covered" if r == z3.sat else ("vacuous" if r == z3.unsat else "unknown")
        else:
            if z3.is_true(ob.goal) and not ob.pc:
                rec["status"] = "discharged"
                rec["trivial"] = True
                rec["time"] = 0.0
                results.append(rec)
                continue
            s.add(z3.Not(ob.goal))
            r = z3.unknown
            orig = axioms + list(ob.pc) + [z3.Not(ob.goal)]
            abstracted = abstract_mul(orig)
            if any(not a.eq(b) for a, b in zip(orig, abstracted)):
                # stage 1: wide multiplications abstracted to an uninterpreted function
                # (weaker hypotheses: only an `unsat` answer is used)
                s2 = mk_solver()
                s2.set("timeout", max(2000, timeout_ms // 4))
                for t in abstracted:
                    s2.add(t)
                if s2.check() == z3.unsat:
                    r = z3.unsat
                    rec["backend"] = "z3+mulUF"
            if r == z3.unknown:
                r = s.check()
            if r == z3.unsat:
                rec["status"] = "discharged"
                # vacuity guard per sub-query: an obligation proved on a contradictory path proves nothing.
                # Dead paths the pruner missed are legitimate, contradictory *assumptions* are not: both are
                # counted and reported so that neither hides.
                sv = z3.Solver()
                sv.set("timeout", 400)
                for t in list(ob.pc):
                    if not ex.has_quant(t):      # quantifier-free part only: cheap, and `unsat` is definite
                        sv.add(t)
                if sv.check() == z3.unsat:
                    rec["vacuous_path"] = True
                if cvc5_agree:
                    r2 = cvc5_check(s.to_smt2(), timeout_ms)
                    rec["cvc5"] = r2
                    if r2 == "sat":
                        rec["status"] = "unknown"
                        rec["reason"] = "z3 unsat but cvc5 sat"
            elif r == z3.sat:
                rec["status"] = "refuted"
                m = s.model()
                rec["model"] = {k: _json_safe(decode_value(m, ty, t)) for k, (ty, t) in (ob.decode or {}).items()}
                rec["goal"] = str(z3.simplify(ob.goal))[:400]
                if os.environ.get("PYVC_DEBUG_PC"):
                    sys.stderr.write("---- refuted %s\n" % getattr(ob, "name", "?"))
                    for t in ob.pc:
                        if not ex.has_quant(t):
                            sys.stderr.write("   pc: %s   [= %s]\n" % (str(z3.simplify(t))[:300], m.eval(t, model_completion=True)))
            else:
                rec["status"] = "unknown"
                rec["reason"] = s.reason_unknown()
                if use_cvc5:
                    r2 = cvc5_check(s.to_smt2(), timeout_ms)
                    rec["cvc5"] = r2
                    if r2 == "unsat":
                        rec["status"] = "discharged"
                        rec["backend"] = "cvc5"
                    elif r2 == "sat":
                        rec["status"] = "refuted"
                        rec["backend"] = "cvc5"
                        rec["model"] = {}
        rec["time"] = round(time.time() - t0, 4)
        if rec.get("status") == "refuted" and rec.get("backend", "z3") != "cvc5":
            refuted_names.add(ob.name)
        results.append(rec)
    return results


def verify_contract(qual, pid, timeout_ms=20000, cvc5_agree=False):
    """Runs in a worker process. Returns a plain dict."""
    t0 = time.time()
    c = C.REGISTRY[qual]
    out = {"qual": qual, "pid": pid, "status": "ok", "results": [], "notes": [], "trusted": [], "paths": 0}
    try:
        ex = Exec(c, pid)
        ex.run()
        out["results"] = discharge(ex, c.timeout_ms or timeout_ms, cvc5_agree=cvc5_agree)
        out["notes"] = ex.notes
        out["trusted"] = sorted(ex.trusted_used)
        out["paths"] = ex.paths
        out["known_used"] = sorted(ex.known_used)
        out["func_hash"] = ex.module.func_hash(ex.fnode)
        out["lines"] = [ex.fnode.lineno, ex.fnode.end_lineno]
        out["file"] = os.path.relpath(ex.module.path, source.REPO)
        out["verified_body"] = c.verify_body
        if getattr(ex, "unbound_hooks", None):
            out["status"] = "binding-error"
            out["error"] = "; ".join(ex.unbound_hooks)
    except BindingError as e:
        out["status"] = "binding-error"
        out["error"] = str(e)
    except (Unsupported, source.SourceError) as e:
        out["status"] = "unsupported"
        out["error"] = str(e)
        try:
            # what was obliged before the statement outside the subset was met still stands (each obligation carries its own
            # path condition): decided and reported next to the shape failure
            out["results"] = discharge(ex, c.timeout_ms or timeout_ms, cvc5_agree=cvc5_agree)
            out["notes"] = ex.notes
            out["partial"] = True
        except Exception:
            out["results"] = []
    except Exception as e:
        out["status"] = "crash"
        out["error"] = "%s: %s\n%s" % (type(e).__name__, e, traceback.format_exc()[-int(os.environ.get("PYVC_TRACE_CHARS", "1500")):])
    out["wall"] = round(time.time() - t0, 3)
    return out
