#!/usr/bin/env python3
"""Builds the Cython extensions of a repo tree into a cache directory under /verif/.cache and prints the directory to
put first on sys.path (`<dir>/aiokafka` is a copy of the tree's package with freshly compiled extensions).

The compiled modules in /repo itself are ignored build artefacts that may be stale with respect to the .pyx sources;
replays and bounded stand-ins of the compiled decoders therefore always run on a build made from the *current* sources
of the tree they are about. The cache key is a hash of everything that goes into the build.

usage: tools/cext.py [repo]            (stdlib only: runs under any python; the build itself uses /venv/bin/python)"""
import hashlib
import os
import shutil
import subprocess
import sys

ROOT = os.path.dirname(os.path.dirname(os.path.abspath(__file__)))
CACHE = os.path.join(ROOT, ".cache", "cext")
VENV_PY = os.environ.get("PYVC_REPO_PYTHON", "/venv/bin/python")


def tree_hash(repo):
    h = hashlib.sha256()
    d = os.path.join(repo, "aiokafka", "record", "_crecords")
    for f in sorted(os.listdir(d)):
        if f.endswith((".pyx", ".pxd", ".pxi", ".h")) or f == "crc32c.c":
            h.update(f.encode())
            h.update(open(os.path.join(d, f), "rb").read())
    h.update(open(os.path.join(repo, "setup.py"), "rb").read())
    return h.hexdigest()[:16]


def ensure(repo="/repo", quiet=True):
    key = tree_hash(repo)
    out = os.path.join(CACHE, key)
    marker = os.path.join(out, ".built")
    if os.path.exists(marker):
        return out
    if os.path.exists(out):
        shutil.rmtree(out)
    os.makedirs(out)
    shutil.copytree(os.path.join(repo, "aiokafka"), os.path.join(out, "aiokafka"),
                    ignore=shutil.ignore_patterns("*.so", "__pycache__", "*.c.bak"))
    # generated C files of an older build must not be reused
    cdir = os.path.join(out, "aiokafka", "record", "_crecords")
    for f in os.listdir(cdir):
        if f.endswith(".c") and f != "crc32c.c":
            os.remove(os.path.join(cdir, f))
    for f in ("setup.py", "pyproject.toml", "README.rst", "MANIFEST.in", "setup.cfg", "LICENSE", "CHANGES.rst"):
        p = os.path.join(repo, f)
        if os.path.exists(p):
            shutil.copy(p, out)
    env = dict(os.environ, CFLAGS=os.environ.get("PYVC_CFLAGS", "-O1 -g"))
    r = subprocess.run([VENV_PY, "setup.py", "build_ext", "--inplace", "-j", "4"], cwd=out, env=env,
                       stdout=subprocess.PIPE, stderr=subprocess.STDOUT, text=True)
    if r.returncode != 0:
        sys.stderr.write(r.stdout[-3000:])
        raise SystemExit("building the extensions of %s failed" % repo)
    open(marker, "w").write(repo + "\n")
    # keep the cache small: the three most recent builds
    builds = sorted((os.path.getmtime(os.path.join(CACHE, d)), d) for d in os.listdir(CACHE))
    for _, d in builds[:-3]:
        shutil.rmtree(os.path.join(CACHE, d), ignore_errors=True)
    return out


if __name__ == "__main__":
    print(ensure(sys.argv[1] if len(sys.argv) > 1 else os.environ.get("PYVC_REPO", "/repo")))
