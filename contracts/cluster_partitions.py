"""C17 / C14 / C01 — aiokafka/cluster.py: what the metadata table says about a topic's partitions
(ClusterMetadata.partitions_for_topic, available_partitions_for_topic, leader_for_partition).

C17 "independent of which partitions are currently available ... An unkeyed record goes to an available partition whenever
at least one is available": the producer hashes over partitions_for_topic() and offers available_partitions_for_topic() to
the partitioner. The first is every partition the last metadata reply listed for the topic, with or without a leader; the
second exactly those of them that have one (leader != -1). The assignors (C14) and the accumulator's drain (C01: a queue
whose partition has no known leader is not drained) read the same table."""
from pyvc.contract import contract, classmodel, CLASSES
from pyvc.ty import INT, STR, Opt, Tup, List, Set, Dict, Ref, Opaque
from .common import TP

MOD = "aiokafka.cluster"
PM = Tup(STR, INT, INT, Opaque("NodeList"), Opaque("NodeList"), INT, names=("topic", "partition", "leader", "replicas", "isr", "error"))
classmodel("TopicPartitionsTable", {"d": Dict(INT, PM)})
CLASSES["TopicPartitionsTable"].dict_field = "d"
classmodel("ClusterMetadata", {"_partitions": Dict(STR, Ref("TopicPartitionsTable"))}, real=MOD + ":ClusterMetadata")


@contract(MOD + ":ClusterMetadata.partitions_for_topic", ["C17", "C14"])
def _(c):
    c.self_("ClusterMetadata")
    c.param("topic", STR)
    c.returns(Opt(Set(INT)))
    c.none_raises = True
    c.ensures("unknown-topic-has-no-partitions", "(result is None) == (topic not in self._partitions)")
    c.ensures("every-listed-partition-with-or-without-a-leader",
              "implies(result is not None, forall(INT, lambda p: (p in result) == (p in self._partitions[topic].d)))")


@contract(MOD + ":ClusterMetadata.available_partitions_for_topic", ["C17"])
def _(c):
    c.self_("ClusterMetadata")
    c.param("topic", STR)
    c.returns(Opt(Set(INT)))
    c.none_raises = True
    c.ensures("unknown-topic-has-no-partitions", "(result is None) == (topic not in self._partitions)")
    c.ensures("exactly-the-listed-partitions-that-have-a-leader",
              "implies(result is not None, forall(INT, lambda p: (p in result) == "
              "(p in self._partitions[topic].d and self._partitions[topic].d[p].leader != -1)))")
    c.replay_fn = lambda model, ob=None: {"script": _AVAILABLE_SCRIPT}


@contract(MOD + ":ClusterMetadata.leader_for_partition", ["C17", "C01"])
def _(c):
    c.self_("ClusterMetadata")
    c.param("partition", TP)
    c.returns(Opt(INT))
    c.none_raises = True
    c.ensures("the-leader-the-metadata-lists-or-none-for-an-unknown-partition",
              "ite(partition.topic in self._partitions and partition.partition in self._partitions[partition.topic].d,"
              " result is not None and result == self._partitions[partition.topic].d[partition.partition].leader, result is None)")


_AVAILABLE_SCRIPT = '''
import itertools
from aiokafka.cluster import ClusterMetadata
from aiokafka.protocol.metadata import MetadataResponse_v1
bad = []
for n in (1, 2, 3):
    for leaders in itertools.product((-1, 0, 1), repeat=n):
        for errs in itertools.product((0, 5, 9), repeat=n):
            c = ClusterMetadata()
            c.update_metadata(MetadataResponse_v1([(0, "h", 1, None), (1, "g", 1, None)], 0,
                                                  [(0, "t", False, [(errs[p], p, leaders[p], [0], [0]) for p in range(n)])]))
            allp, av = c.partitions_for_topic("t"), c.available_partitions_for_topic("t")
            want = {p for p in range(n) if leaders[p] != -1}
            if allp != set(range(n)) or av != want:
                bad.append((leaders, errs, sorted(allp or ()), sorted(av or ())))
            if [c.leader_for_partition(__import__("aiokafka").structs.TopicPartition("t", p)) for p in range(n)] != list(leaders):
                bad.append((leaders, errs, "leader_for_partition"))
    if ClusterMetadata().partitions_for_topic("t") is not None or ClusterMetadata().available_partitions_for_topic("t") is not None:
        bad.append("unknown topic")
VIOLATED = bool(bad)
DETAIL = "partitions / available partitions differ from the metadata (leaders, partition errors, all, available): %r" % (bad[:3],) if bad else "ok"
'''


# ------------------------------------------------------------------ AIOKafkaProducer._partition
# C17 "a keyed record goes to the partition at index murmur2(key) ... bit for bit the value the Java client computes": the Java
# client hashes the key bytes that go on the wire. The partitioner (under contract, partitioner.py) hashes what it is handed;
# the producer has to hand it the serialized key, every partition of the topic and the available ones.
import z3                                              # noqa: E402
from pyvc.contract import specfn                       # noqa: E402
from pyvc.ty import V, BOOL, BYTES, PYOBJ              # noqa: E402
from . import producer_init                            # noqa: E402,F401
PMOD = "aiokafka.producer.producer"


@specfn("listing_of")
def listing_of(ex, st, x, s):
    """x is `list(s)` of exactly the set value s"""
    ok = x.ty == PYOBJ and getattr(x.t, "kind", None) == "setiter" and z3.eq(z3.simplify(x.t.set.t), z3.simplify(s.t))
    return V(BOOL, z3.BoolVal(bool(ok)))


@contract(PMOD + ":AIOKafkaProducer._partition", ["C17"])
def _(c):
    c.self_("Producer")
    c.no_class_inv = True
    c.param("topic", STR)
    c.param("partition", Opt(INT))
    c.param("key", Opt(Opaque("UserObject")))
    c.param("value", Opt(Opaque("UserObject")))
    c.param("serialized_key", Opt(BYTES))
    c.param("serialized_value", Opt(BYTES))
    c.returns(INT)
    c.ghost("$all", Set(INT), None)
    c.ghost("$available", Set(INT), None)
    # send() waits for the topic's metadata before it picks the partition (client._wait_on_metadata)
    c.call("self._metadata.partitions_for_topic", returns=Set(INT), ghost={"$all": "result"},
           note="ClusterMetadata.partitions_for_topic (under contract above) of a topic whose metadata is known: every listed partition")
    c.call("self._metadata.available_partitions_for_topic", returns=Set(INT), ghost={"$available": "result"},
           note="ClusterMetadata.available_partitions_for_topic (under contract above): those with a leader")
    c.call("self._partitioner", returns=INT, note="the configured partitioner (DefaultPartitioner.__call__ is under contract, partitioner.py)")
    c.raises("explicit-partition-unknown-or-negative", "AssertionError")
    c.hook("before", "self._partitioner", [
        ("assert", "the-key-bytes-that-go-on-the-wire-are-what-is-hashed", "a0 == serialized_key"),
        ("assert", "over-every-partition-of-the-topic-available-or-not", "listing_of(a1, $all)"),
        ("assert", "the-available-partitions-are-offered-for-unkeyed-records", "listing_of(a2, $available)"),
    ])
    c.ensures("an-explicit-partition-is-kept", "implies(partition is not None, result == partition)")
    c.replay_fn = lambda model, ob=None: {"script": _PARTITION_SCRIPT}


_PARTITION_SCRIPT = '''
import sys
sys.path.insert(0, "/verif")
from specs.murmur2_py import java_partition
from aiokafka.cluster import ClusterMetadata
from aiokafka.partitioner import DefaultPartitioner
from aiokafka.producer.producer import AIOKafkaProducer
from aiokafka.protocol.metadata import MetadataResponse_v1
bad = []
for n in (1, 3, 7, 100):
    cluster = ClusterMetadata()
    cluster.update_metadata(MetadataResponse_v1([(0, "h", 1, None)], 0, [(0, "t", False, [(0, p, 0 if p % 3 else -1, [0], [0]) for p in range(n)])]))
    class P: pass
    prod = P(); prod._metadata = cluster; prod._partitioner = DefaultPartitioner()
    # the application's key and the bytes its key_serializer made of it
    for key, wire in (("abc", b"abc"), (17, b"\\x00\\x00\\x00\\x11"), (b"raw", b"\\x00\\x00\\x00\\x01raw"), (b"same", b"same")):
        try:
            got = AIOKafkaProducer._partition(prod, "t", None, key, b"v", wire, b"v")
        except Exception as e:
            got = "raised %s" % type(e).__name__
        if got != java_partition(wire, n):
            bad.append((key, wire, n, got, java_partition(wire, n)))
    if AIOKafkaProducer._partition(prod, "t", n - 1, "k", b"v", b"k", b"v") != n - 1:
        bad.append(("explicit partition", n))
VIOLATED = bool(bad)
DETAIL = "records keyed (key, wire bytes, partitions, got, Java client): %r" % (bad[:3],) if bad else "ok"
'''
