"""C03 — aiokafka/consumer/fetcher.py: how long a buffered result keeps its broker from being fetched again
(FetchResult.__init__ / calculate_backoff, and the same pair of FetchError).

C03 "... and once faults cease delivery continues to the end of the log ... nothing is returned from a partition while it is
paused or filtered out by the partitions argument": while a result of partition A sits unconsumed in the buffer (the
application asks for partition B only), _get_actions_per_node (under contract) holds back every fetch to A's broker - for at
most `prefetch_backoff`, so that B, served by the same broker, goes on. The bound exists only if the age of the result is
measured on one clock: the creation stamp is a reading of the monotonic clock and the backoff still due never exceeds the
configured one."""
from pyvc.contract import contract, classmodel, specfn, SPEC_TYPES, CLASSES
from pyvc.ty import V, INT, BOOL, REAL, STR, NONE, EXC, BYTES, Opt, Tup, List, Set, Dict, Ref, Opaque
from pyvc.exec_base import Fut
from .common import TP
from . import fetch_result      # noqa: F401

MOD = fetch_result.MOD
classmodel("FetchErrorObj", {"_error": EXC, "_created": REAL, "_backoff": REAL}, real=MOD + ":FetchError")


def _init(c):
    c.no_class_inv = True
    c.ghost("$mono", REAL, "0.0")
    c.call("time.monotonic", returns=REAL, ghost={"$mono": "result"}, note="a reading of the monotonic clock")
    c.call("time.time", returns=REAL, note="a reading of the wall clock (unrelated to the monotonic one)")
    c.ensures("created-is-a-reading-of-the-monotonic-clock", "self._created == $mono")
    c.ensures("backoff-as-configured", "self._backoff == backoff")
    c.replay_fn = lambda model, ob=None: {"script": _CLOCK_SCRIPT}


def _backoff(c):
    c.returns(REAL)
    c.no_class_inv = True
    c.call("time.monotonic", returns=REAL, post=["result >= self._created"],
           note="a reading of the monotonic clock: never before an earlier reading, which self._created is (__init__ contract)")
    c.ensures("never-longer-than-the-configured-backoff", "result >= 0 and (result == 0 or result <= self._backoff)")
    c.ensures("reads-only", "unchanged(self)")
    c.replay_fn = lambda model, ob=None: {"script": _CLOCK_SCRIPT}


@contract(MOD + ":FetchResult.__init__", ["C03"])
def _(c):
    c.self_("FetchResult")
    c.param("tp", TP)
    c.param("assignment", Ref("Assignment"))
    c.param("partition_records", Opt(Ref("PartitionRecords")))
    c.param("backoff", REAL)
    c.modifies("self._topic_partition", "self._partition_records", "self._created", "self._backoff", "self._assignment")
    _init(c)
    c.ensures("stores-what-it-is-given",
              "self._topic_partition == tp and self._partition_records == partition_records and self._assignment == assignment")


@contract(MOD + ":FetchResult.calculate_backoff", ["C03"])
def _(c):
    c.self_("FetchResult")
    _backoff(c)


@contract(MOD + ":FetchError.__init__", ["C03"])
def _(c):
    c.self_("FetchErrorObj")
    c.param("error", EXC)
    c.param("backoff", REAL)
    c.modifies("self._error", "self._created", "self._backoff")
    _init(c)
    c.ensures("stores-what-it-is-given", "self._error == error")


@contract(MOD + ":FetchError.calculate_backoff", ["C03"])
def _(c):
    c.self_("FetchErrorObj")
    _backoff(c)


# replay: real objects with a backoff of 0.05 s
_CLOCK_SCRIPT = '''
import time, logging
logging.disable(logging.CRITICAL)
from aiokafka.consumer.fetcher import FetchResult, FetchError
from aiokafka.structs import TopicPartition
bad = []
for name, obj in (("FetchResult", FetchResult(TopicPartition("t", 0), assignment=None, partition_records=None, backoff=0.05)),
                  ("FetchError", FetchError(error=RuntimeError("x"), backoff=0.05))):
    first = obj.calculate_backoff()
    if not (0 <= first <= 0.05):
        bad.append("%s: backoff still due right after creation is %r s, configured 0.05 s" % (name, first))
    time.sleep(0.08)
    later = obj.calculate_backoff()
    if later != 0:
        bad.append("%s: 0.08 s after creation %r s of a 0.05 s backoff are still due: the broker stays blocked" % (name, later))
VIOLATED = bool(bad); DETAIL = "; ".join(bad)
'''
