"""C12 (and C19) — aiokafka/conn.py: request queue discipline of AIOKafkaConnection."""
import z3
from pyvc.contract import contract, classmodel, specfn, SPEC_TYPES
from pyvc.ty import V, INT, BOOL, REAL, STR, NONE, EXC, BYTES, Opt, Tup, List, Set, Dict, Ref, Opaque
from pyvc.exec_base import Fut
from pyvc import ty as T
from .common import enum_from_repo

MOD = "aiokafka.conn"
CR = enum_from_repo(MOD, "CloseReason")

classmodel("RespClass", {})                                     # a Response subclass object
classmodel("RequestObj", {"RESPONSE_TYPE": Ref("RespClass"), "FLEXIBLE_VERSION": BOOL})     # a request struct instance
classmodel("RespHeader", {"correlation_id": INT})
classmodel("BytesIOObj", {"g_bytes": BYTES})
classmodel("ResponseObj", {"g_type": Ref("RespClass"), "g_src": Ref("BytesIOObj")})         # ghost: how it was decoded
classmodel("Writer", {})
classmodel("Reader", {})
classmodel("Handle", {"cancelled": BOOL})

REQ = Tup(Opt(INT), Opt(Ref("RequestObj")), Fut(None))          # (correlation id | None for SASL, request struct, waiter)

classmodel("Conn", {
    "_host": STR, "_port": INT, "_client_id": STR,
    "_requests": List(REQ),
    "_reader": Opt(Ref("Reader")),
    "_writer": Opt(Ref("Writer")),
    "_read_task": Opt(Fut(NONE)),
    "_correlation_id": INT,
    "_closed_fut": Opt(Fut(NONE)),
    "_last_action": REAL,
    "_idle_handle": Opt(Ref("Handle")),
    "_on_close_cb": Opt(Opaque("Callback")),
    "_request_timeout": REAL,
    "_versions": Opaque("Versions"),
    "g_closes": INT,                    # ghost: number of times the close callback ran
    "_sasl_mechanism": STR, "_security_protocol": STR, "_sasl_plain_username": Opt(STR), "sasl_principal": Opt(STR),
}, real=MOD + ":AIOKafkaConnection")

Q = "self._requests"
# queue invariant: waiters pairwise distinct, allocated, distinct from the connection's own futures
INV_DISTINCT = "forall(lambda j, k: implies(0 <= j < k < len(%s), %s[j][2] != %s[k][2]))" % (Q, Q, Q)
INV_ALLOC = ("forall(lambda j: implies(0 <= j < len(%s), allocated(%s[j][2]) and %s[j][2] != self._read_task"
             " and %s[j][2] != self._closed_fut and iff(%s[j][0] is None, %s[j][1] is None)))" % (Q, Q, Q, Q, Q, Q))
from pyvc.contract import CLASSES
CLASSES["Conn"].invariants = [("waiters-distinct", INV_DISTINCT), ("waiters-allocated-and-separate", INV_ALLOC),
                              ("reader-and-writer-together", "(self._reader is None) == (self._writer is None)"),
                              ("open-connection-has-a-reader-task", "implies(self._reader is not None, self._read_task is not None)"),
                              ("closed-connection-has-no-waiters", "implies(self._reader is None, len(self._requests) == 0)")]

FC_V0 = V(Ref("RespClass"), z3.Int("FindCoordinatorResponse_v0_class"))


@specfn("frame_cid")
def frame_cid(ex, st, frame, flexible):
    """correlation id field of a response frame (header v0 / v1 by the request's flexibility)"""
    f = z3.Function("frame_cid", BYTES.sort(), z3.BoolSort(), INT.sort())
    return V(INT, f(frame.t, flexible.t))


@specfn("be32")
def be32(ex, st, n):
    f = z3.Function("be32", INT.sort(), BYTES.sort())
    r = V(BYTES, f(n.t))
    st.assume(T.list_len(r) == T.intval(4).t)
    return r


@contract(MOD + ":AIOKafkaConnection._next_correlation_id", "C12")
def _(c):
    c.self_("Conn")
    c.returns(INT)
    c.requires("0 <= self._correlation_id < 2**31", "in-range")
    c.modifies("self._correlation_id")
    c.ensures("successor-mod-2^31", "result == (old(self._correlation_id) + 1) % 2**31 and self._correlation_id == result")
    c.ensures("stays-in-int32", "0 <= result < 2**31")


def _close_effect(c):
    pass


@contract(MOD + ":AIOKafkaConnection.close", ["C12", "C19"])
def _(c):
    c.self_("Conn")
    c.param("reason", Opt(CR))
    c.param("exc", Opt(EXC))
    c.returns(Opt(Fut(NONE)))
    c.modifies("self._writer", "self._reader", "self._read_task", "self._requests", "self._on_close_cb", "self.g_closes",
               "Future.state", "Future.nres", "Future.exc", "Handle.cancelled")
    c.call("self._writer.close", note="StreamWriter.close(): closes the transport; touches nothing modelled")
    c.call("self._on_close_cb", modifies=["self.g_closes"], post=["self.g_closes == old(self.g_closes) + 1"],
           note="the client's on-close callback: synchronous, does not touch this connection's queue")
    c.call("self._idle_handle.cancel", modifies=["self._idle_handle.cancelled"], post=["self._idle_handle.cancelled"],
           note="TimerHandle.cancel()")
    c.loop(0, header="for _, _, fut in self._requests", invariants=[
        ("failed-prefix", "forall(lambda j: implies(0 <= j < $i, self._requests[j][2].done()"
         " and (old(self._requests[j][2].done()) or is_exc(self._requests[j][2].exception(), KafkaConnectionError))))"),
        ("untouched-suffix", "forall(lambda j: implies($i <= j < len(self._requests), fut_same(self._requests[j][2])))"),
        ("queue-fixed", "self._requests == old(self._requests) and self._closed_fut == old(self._closed_fut)"
         " and self._idle_handle == old(self._idle_handle) and self._on_close_cb == old(self._on_close_cb)"
         " and self.g_closes == old(self.g_closes)"),
        ("reader-cancelled", "self._reader is None and self._writer is None"
         " and implies(old(self._read_task) is not None, old(self._read_task).done())"),
    ])
    c.ensures("no-waiter-left-pending", "forall(lambda j: implies(0 <= j < len(old(self._requests)), old(self._requests)[j][2].done()))")
    c.ensures("pending-waiters-get-a-connection-error", "implies(old(self._reader) is not None, forall(lambda j: implies("
              "0 <= j < len(old(self._requests)) and not old(self._requests[j][2].done()),"
              " is_exc(old(self._requests)[j][2].exception(), KafkaConnectionError))))")
    c.ensures("queue-emptied", "implies(old(self._reader) is not None, len(self._requests) == 0)")
    c.ensures("stream-released", "self._reader is None and self._writer is None")
    c.ensures("reader-task-cancelled", "implies(old(self._reader) is not None and old(self._read_task) is not None, old(self._read_task).done())")
    c.ensures("close-callback-once", "self.g_closes == old(self.g_closes) + ite(old(self._reader) is not None and old(self._on_close_cb) is not None, 1, 0)"
              " and implies(old(self._reader) is not None, self._on_close_cb is None)")
    c.ensures("idle-timer-cancelled", "implies(self._idle_handle is not None, self._idle_handle.cancelled)")
    c.ensures("idempotent", "implies(old(self._reader) is None, self._requests == old(self._requests) and same_heap('Future'))")
    c.ensures("returns-closed-future", "result == self._closed_fut")

    @c.replay
    def replay(model, ob=None):
        return {"script": _CLOSE_SCRIPT}


# close() on a queue whose waiters are in every state a waiter can be in (pending, cancelled by a timeout, already failed by
# the mismatch path of _handle_frame, already answered): it must not raise and must leave no waiter pending
_CLOSE_SCRIPT = '''
import asyncio, itertools
from aiokafka.conn import AIOKafkaConnection
from aiokafka.protocol.metadata import MetadataRequest_v0
from aiokafka import errors as E
class W:
    def close(self): pass
async def main():
    problems = []
    for states in itertools.product(("pending", "cancelled", "failed", "answered"), repeat=3):
        loop = asyncio.get_running_loop()
        closed = []
        conn = AIOKafkaConnection("h", 1, on_close=lambda c, r: closed.append(r))
        conn._reader = object(); conn._writer = W()
        conn._read_task = loop.create_future()
        futs = []
        for i, s in enumerate(states):
            f = loop.create_future()
            if s == "cancelled": f.cancel()
            elif s == "failed": f.set_exception(E.CorrelationIdError("x"))
            elif s == "answered": f.set_result(None)
            conn._requests.append((i, MetadataRequest_v0([]), f)); futs.append(f)
        try:
            conn.close()
        except BaseException as e:
            problems.append("queue %r: close() raised %s" % (states, type(e).__name__))
        left = [s for s, f in zip(states, futs) if not f.done()]
        if left:
            problems.append("queue %r: %d waiter(s) still pending after close()" % (states, len(left)))
        for f in futs:
            if f.done() and not f.cancelled():
                f.exception()
    return problems
bad = asyncio.run(main())
VIOLATED = bool(bad); DETAIL = "%d problem(s); first: %r" % (len(bad), bad[:2])
'''


@contract(MOD + ":AIOKafkaConnection._handle_frame", "C12")
def _(c):
    c.self_("Conn")
    c.param("resp", BYTES)
    c.index_raises = True
    c.bind("FindCoordinatorResponse_v0", FC_V0)
    c.requires("self._reader is not None", "connection-open")
    c.modifies("self._writer", "self._reader", "self._read_task", "self._requests", "self._on_close_cb", "self.g_closes",
               "self._last_action", "Future.state", "Future.nres", "Future.exc", "Future.res", "Handle.cancelled")
    c.call("io.BytesIO", returns=Ref("BytesIOObj"), post=["fresh(result)", "result.g_bytes == a0"], note="io.BytesIO(b) wraps b")
    c.call("request.parse_response_header", returns=Ref("RespHeader"),
           post=["result.correlation_id == frame_cid(a0.g_bytes, self_.FLEXIBLE_VERSION)"],
           note="decodes the response header (v0, or v1 with tagged fields for flexible requests) from the frame")
    c.call("resp_type.decode", returns=Ref("ResponseObj"), post=["fresh(result)", "result.g_type == self_", "result.g_src == a0"],
           raises=["ValueError"], note="Response.decode(frame): the frame body parsed with that response class; ValueError on a malformed body")
    c.call("time.monotonic", returns=REAL, note="clock")
    HEAD = "old(self._requests)[0]"
    MISMATCH = ("{h}[0] is not None and frame_cid(resp, {h}[1].FLEXIBLE_VERSION) != {h}[0]").format(h=HEAD)
    c.raises("unsolicited-frame", "IndexError", when="len(self._requests) == 0",
             ensures=[("no-effect", "unchanged(self) and same_heap('Future')")], exact=True)
    c.raises("malformed-body", "ValueError", ensures=[("queue-kept-for-close", "self._requests == old(self._requests)")])
    # ---- what may complete a waiter, and with what
    c.hook("before", "fut.set_result", [
        ("assert", "only-the-head-waiter", "fut == old(self._requests)[0][2] and not fut.done()"),
    ])
    c.hook("before", "fut.set_result/1", [
        ("assert", "sasl-passes-the-frame-through-or-decoded-with-the-requests-own-response-type",
         "implies(correlation_id is not None, request == old(self._requests)[0][1])"),
    ])
    c.hook("after", "resp_type.decode", [
        ("assert", "reply-decoded-with-the-heads-response-type-from-this-frame",
         "resp_type == old(self._requests)[0][1].RESPONSE_TYPE and resp.g_bytes == old(resp)"),
        ("assert", "correlation-id-matches", "response_header.correlation_id == correlation_id"),
    ])
    c.hook("before", "fut.set_exception", [
        ("assert", "only-the-head-waiter", "fut == old(self._requests)[0][2]"),
    ])
    # ---- queue discipline
    c.ensures("mismatch-closes-the-connection", "implies(" + MISMATCH + " and not fc_quirk(self, resp),"
              " self._reader is None and len(self._requests) == 0"
              " and forall(lambda j: implies(0 <= j < len(old(self._requests)), old(self._requests)[j][2].done())))")
    c.ensures("match-pops-exactly-the-head", "implies(not (" + MISMATCH + "), self._requests == tail(old(self._requests)))")
    c.ensures("head-waiter-resolved", HEAD + "[2].done()")
    c.ensures("other-waiters-untouched-on-match", "implies(not (" + MISMATCH + "), forall(lambda j: implies("
              "1 <= j < len(old(self._requests)), fut_same(old(self._requests)[j][2]))))")

    @c.replay
    def replay(model, ob=None):
        return {"script": _FRAME_SCRIPT}


@specfn("fc_quirk")
def fc_quirk(ex, st, conn, frame):
    """the Kafka 0.8.2 FindCoordinator-v0 case: reply correlation id 0 for a request id != 0"""
    base = ex.spec_old if ex.spec_old is not None else ex.entry
    q = V(List(REQ), z3.Select(ex.hmap(base, "Conn", "_requests"), conn.t))
    head = V(REQ, z3.Select(T.list_arr(q), T.intval(0).t))
    cid, req = T.tup_get(head, 0), T.tup_get(head, 1)
    rt = z3.Select(ex.hmap(base, "RequestObj", "RESPONSE_TYPE"), req.t)
    flex = z3.Select(ex.hmap(base, "RequestObj", "FLEXIBLE_VERSION"), req.t)
    f = z3.Function("frame_cid", BYTES.sort(), z3.BoolSort(), INT.sort())
    return V(BOOL, z3.And(rt == FC_V0.t, z3.Not(T.opt_is_none(cid)), T.opt_val(cid).t != 0, f(frame.t, flex) == 0))


_FRAME_SCRIPT = '''
import asyncio, io, struct
from aiokafka.conn import AIOKafkaConnection
from aiokafka.protocol.metadata import MetadataRequest_v0
from aiokafka import errors as E
class W:
    def close(self): pass
async def main():
    problems = []
    # the head request's correlation id: an ordinary one, the last before the counter wraps, and 0 (the first after it)
    for head_cid in (2 ** 31 - 1, 0):
        for wrong in (7, None):
            conn = AIOKafkaConnection("h", 1)
            conn._reader = object(); conn._writer = W()
            conn._read_task = asyncio.get_running_loop().create_future()
            loop = asyncio.get_running_loop()
            f1, f2 = loop.create_future(), loop.create_future()
            req = MetadataRequest_v0([])
            conn._requests.append((head_cid, req, f1)); conn._requests.append((1, req, f2))
            body = bytes(8)
            frame = struct.pack(">i", head_cid if wrong is None else wrong) + body
            try:
                conn._handle_frame(frame)
            except Exception as e:
                problems.append(("head id %d" % head_cid, "raised %r" % e)); continue
            if wrong is None:
                if not f1.done() or f1.exception() is not None or isinstance(f1.result(), (bytes, bytearray)) or f2.done():
                    problems.append(("head id %d" % head_cid, "its own reply was not decoded and handed to it: %r" % (f1,)))
            elif conn._reader is not None or not f2.done() or (f1.done() and f1.exception() is None):
                problems.append(("head id %d" % head_cid, "a frame with correlation id %d did not close the connection" % wrong))
            if f1.done() and not f1.cancelled(): f1.exception()
            if f2.done() and not f2.cancelled(): f2.exception()
    for head_state in ("pending", "cancelled"):
        closed = []
        conn = AIOKafkaConnection("h", 1, on_close=lambda c, r: closed.append(r))
        conn._reader = object(); conn._writer = W()
        conn._read_task = asyncio.get_running_loop().create_future()
        loop = asyncio.get_running_loop()
        f1, f2 = loop.create_future(), loop.create_future()
        req = MetadataRequest_v0([])
        conn._requests.append((1, req, f1)); conn._requests.append((2, req, f2))
        if head_state == "cancelled": f1.cancel()
        frame = struct.pack(">i", 7) + b"\\x00\\x00\\x00\\x00\\x00\\x00\\x00\\x00"      # correlation id 7: belongs to nobody
        try:
            conn._handle_frame(frame)
        except Exception as e:
            problems.append((head_state, "raised %r" % e)); continue
        if conn._reader is not None or not f2.done():
            problems.append((head_state, "mismatch did not close the connection: reader=%r second waiter done=%r closed=%r"
                             % (conn._reader, f2.done(), closed)))
    return problems
bad = asyncio.run(main())
VIOLATED = bool(bad); DETAIL = repr(bad)
'''
