"""C03 / C04 / C05 — aiokafka/consumer/fetcher.py: FetchResult (hand-out of buffered records)."""
from pyvc.contract import contract, classmodel, specfn, SPEC_TYPES, CLASSES
from pyvc.ty import V, INT, BOOL, REAL, STR, NONE, EXC, BYTES, Opt, Tup, List, Set, Dict, Ref, Opaque
from pyvc.exec_base import Fut, PyThing
from .common import TP
from . import fetcher, subscription_state   # noqa: F401  (class models)

MOD = "aiokafka.consumer.fetcher"

classmodel("FetchResult", {
    "_topic_partition": TP,
    "_partition_records": Opt(Ref("PartitionRecords")),
    "_assignment": Ref("Assignment"),
    "_created": REAL, "_backoff": REAL,
}, real=MOD + ":FetchResult")
# the result was built for a partition of the assignment it was fetched under (established by _proc_fetch_request)
CLASSES["FetchResult"].invariants = [
    ("partition-has-state", "self._topic_partition in self._assignment._tp_state"),
]

STATE = "self._assignment._tp_state[self._topic_partition]"
GATE = ("not self._assignment.unassign_future.done() and not %s._paused and %s._position is not None"
        " and self._partition_records is not None and %s._position == self._partition_records.next_fetch_offset" % (STATE, STATE, STATE))


@contract(MOD + ":FetchResult.has_more", ["C03"])
def _(c):
    c.self_("FetchResult")
    c.returns(BOOL)
    c.ensures("def", "result == (self._partition_records is not None)")


@contract(MOD + ":FetchResult.check_assignment", ["C03", "C05"])
def _(c):
    c.self_("FetchResult")
    c.param("tp", TP)
    c.returns(BOOL)
    c.requires("self._partition_records is not None", "buffer-present")
    c.modifies("self._partition_records")
    # a seek_to_beginning/seek_to_end in flight leaves the partition without a position: the property read asserts
    c.raises("position-being-reset", "AssertionError",
             when="not self._assignment.unassign_future.done() and not %s._paused and %s._position is None" % (STATE, STATE),
             ensures=[("no-effect", "unchanged(self)")], exact=True)
    c.ensures("hand-out-only-through-the-gate", "result == (" + GATE.replace("self._partition_records is not None and ", "old(self._partition_records) is not None and ")
              .replace("self._partition_records.next_fetch_offset", "old(self._partition_records).next_fetch_offset") + ")")
    c.ensures("stale-buffer-dropped", "implies(not result, self._partition_records is None)")
    c.ensures("valid-buffer-kept", "implies(result, self._partition_records == old(self._partition_records))")
    c.ensures("nothing-else-touched", "same_heap('TPState') and same_heap('PartitionRecords') and same_heap('Assignment')")
    c.replay_fn = lambda model, ob=None: {"script": _CHECK_ASSIGNMENT_SCRIPT}


# replay: the real check_assignment / getone / getall over a real assignment in every state the gate distinguishes
_CHECK_ASSIGNMENT_SCRIPT = '''
import asyncio, logging
logging.disable(logging.CRITICAL)
from aiokafka.consumer.fetcher import FetchResult, PartitionRecords
from aiokafka.consumer.subscription_state import SubscriptionState
from aiokafka.record.memory_records import MemoryRecords
from aiokafka.record.default_records import _DefaultRecordBatchBuilderPy
from aiokafka.structs import TopicPartition
def batch(base, n):
    b = _DefaultRecordBatchBuilderPy(magic=2, compression_type=0, is_transactional=0, producer_id=-1, producer_epoch=-1,
                                     base_sequence=-1, batch_size=1 << 16)
    for i in range(n): b.append(i, 1000 + i, None, b"v%d" % i, [])
    raw = bytearray(b.build()); raw[0:8] = (base).to_bytes(8, "big"); return bytes(raw)
async def main():
    bad = []
    tp = TopicPartition("t", 0)
    for what in ("live", "paused", "sought-elsewhere", "assignment-replaced", "unsubscribed"):
        for how in ("getone", "getall"):
            subs = SubscriptionState()
            subs.assign_from_user({tp})
            assignment = subs.subscription.assignment
            st = assignment.state_value(tp)
            st.reset_to(10)
            pr = PartitionRecords(tp, MemoryRecords(batch(10, 3)), [], 10, None, None, True, 0)
            res = FetchResult(tp, assignment=assignment, partition_records=pr, backoff=0)
            before = st.position
            if what == "paused": st.pause()
            elif what == "sought-elsewhere": st.seek(11)
            elif what == "assignment-replaced": subs.unsubscribe(); subs.assign_from_user({tp}); subs.subscription.assignment.state_value(tp).reset_to(10)
            elif what == "unsubscribed": subs.unsubscribe()
            got = res.getone() if how == "getone" else res.getall()
            got = [] if got is None else (got if isinstance(got, list) else [got])
            if what == "live":
                if [r.offset for r in got] != ([10] if how == "getone" else [10, 11, 12]):
                    bad.append("%s, %s: handed out %r" % (what, how, [r.offset for r in got]))
            else:
                if got:
                    bad.append("%s, %s: records %r of the stale buffer were handed out" % (what, how, [r.offset for r in got]))
                cur = subs.subscription.assignment.state_value(tp) if subs.subscription is not None and what == "assignment-replaced" else st
                want = {"paused": 10, "sought-elsewhere": 11, "assignment-replaced": 10, "unsubscribed": before}[what]
                if what != "unsubscribed" and cur.position != want:
                    bad.append("%s, %s: the position moved to %r" % (what, how, cur.position))
    return bad
bad = asyncio.run(main())
VIOLATED = bool(bad)
DETAIL = "hand-out gate of a fetched buffer: %r" % (bad[:3],) if bad else "ok"
'''


@contract(MOD + ":FetchResult._update_position", ["C03", "C04"])
def _(c):
    c.self_("FetchResult")
    c.requires("self._partition_records is not None", "buffer-present")
    c.modifies(STATE + "._position")
    c.raises("not-consuming", "AssertionError", when=STATE + "._status != PartitionStatus.CONSUMING",
             ensures=[("no-effect", "same_heap('TPState')")], exact=True)
    c.ensures("position-is-the-buffers-next-offset", STATE + "._position == self._partition_records.next_fetch_offset")
    c.bind("PartitionStatus", PyThing("enumcls", name="PartitionStatus", ty=subscription_state.PS))


NEXT_MODEL = dict(
    returns=Opt(Ref("ConsumerRecordObj")),
    modifies=["a0.next_fetch_offset", "a0._aborted_transactions", "a0._aborted_producers"],
    post=["implies(result is not None, result.g_offset >= old(a0.next_fetch_offset) and a0.next_fetch_offset == result.g_offset + 1)",
          "a0.next_fetch_offset >= old(a0.next_fetch_offset)"],
    raises=["CorruptRecordException"],
    note="next(partition_records, None) resumes PartitionRecords._unpack_records up to its next yield: by that generator's "
         "contract the record lies at or after the position, the position becomes one past it, and never moves back")


@contract(MOD + ":FetchResult.getone", ["C03", "C04", "C05", "C08"])
def _(c):
    c.self_("FetchResult")
    c.returns(Opt(Ref("ConsumerRecordObj")))
    # the fetcher discards a result as soon as it is exhausted (next_record / fetched_records delete it)
    c.requires("self._partition_records is not None", "result-not-exhausted")
    c.modifies("self._partition_records", "TPState._position", "PartitionRecords.next_fetch_offset",
               "PartitionRecords._aborted_transactions", "PartitionRecords._aborted_producers")
    c.call("next", **NEXT_MODEL)
    c.raises("position-being-reset", "AssertionError")
    c.raises("corrupt-batch", "CorruptRecordException")
    c.ensures("returned-only-through-the-gate", "implies(result is not None, old(" + GATE + "))")
    c.ensures("record-at-or-after-the-position", "implies(result is not None, result.g_offset >= old(%s._position))" % STATE)
    c.ensures("position-one-past-the-returned-record", "implies(result is not None, %s._position == result.g_offset + 1)" % STATE)
    # C03 "once faults cease delivery continues to the end of the log" / C08 "the consumer's position still advances past
    # everything it filtered so that it never stalls or re-fetches the same batch forever": whatever the iterator skipped
    # (control batches, aborted batches, a compacted tail) is behind the position afterwards - also when the buffer turns
    # out to be exhausted and nothing is returned
    c.ensures("position-follows-the-buffers-cursor-past-everything-it-skipped",
              "implies(old(" + GATE + "), %s._position == old(self._partition_records).next_fetch_offset)" % STATE)
    c.ensures("position-never-moves-back", "implies(old(%s._position) is not None and %s._position is not None,"
              " %s._position >= old(%s._position))" % (STATE, STATE, STATE, STATE))
    c.ensures("gate-closed-nothing-happens", "implies(not old(" + GATE + "), result is None and same_heap('TPState'))")
    c.ensures("other-partitions-untouched", "forall(TPSTATE, lambda s: implies(s != %s, unchanged(s)))" % STATE)


@contract(MOD + ":FetchResult.getall", ["C03", "C04", "C05", "C08"])
def _(c):
    """getmany(): everything the buffer holds (or max_records of it) in one go"""
    c.self_("FetchResult")
    c.param("max_records", Opt(INT), default="None")
    c.returns(List(Ref("ConsumerRecordObj")))
    c.local("ret_list", List(Ref("ConsumerRecordObj")))
    c.requires("self._partition_records is not None", "result-not-exhausted")
    c.requires("max_records is None or max_records >= 1", "max-records-positive")
    c.modifies("self._partition_records", "TPState._position", "PartitionRecords.next_fetch_offset",
               "PartitionRecords._aborted_transactions", "PartitionRecords._aborted_producers")
    step = dict(NEXT_MODEL)
    step["raises"] = ["Exception"]          # a corrupt batch, or whatever a user deserializer raises
    step["note"] = "one step of iterating PartitionRecords (its generator _unpack_records, under contract): " + NEXT_MODEL["note"]
    c.call("iter:self._partition_records", **step)
    # C04: when iteration fails, the records unpacked so far are lost with the exception - so no position may have moved
    c.raises("hand-out-failed", "Exception",
             ensures=[("no-position-moves-for-records-that-were-not-handed-out", "same_heap('TPState')")])
    POS0 = "old(%s._position)" % STATE
    c.loop(0, header="for msg in self._partition_records", invariants=[
        ("gate-was-open", "old(" + GATE + ")"),
        ("buffer-kept-positions-untouched", "self._partition_records == old(self._partition_records) and same_heap('TPState')"
         " and same_heap('Assignment') and self._assignment == old(self._assignment) and self._topic_partition == old(self._topic_partition)"),
        ("collected-records-in-order-from-the-position",
         "forall(lambda k: implies(0 <= k < len(ret_list), ret_list[k].g_offset >= %s"
         " and ret_list[k].g_offset < self._partition_records.next_fetch_offset))"
         " and forall(lambda j, k: implies(0 <= j < k < len(ret_list), ret_list[j].g_offset < ret_list[k].g_offset))" % POS0),
        ("cursor-never-behind-the-position", "self._partition_records.next_fetch_offset >= " + POS0),
        ("below-max-records", "max_records is None or len(ret_list) < max_records"),
    ])
    c.ensures("at-most-max-records", "max_records is None or len(result) <= max_records")
    c.ensures("position-follows-the-buffers-cursor-past-everything-it-skipped",
              "implies(old(" + GATE + "), %s._position == old(self._partition_records).next_fetch_offset)" % STATE)
    c.ensures("returned-only-through-the-gate", "implies(len(result) > 0, old(" + GATE + "))")
    c.ensures("gate-closed-nothing-happens", "implies(not old(" + GATE + "), len(result) == 0 and same_heap('TPState'))")
    c.ensures("records-in-offset-order-from-the-position",
              "forall(lambda k: implies(0 <= k < len(result), result[k].g_offset >= %s))"
              " and forall(lambda j, k: implies(0 <= j < k < len(result), result[j].g_offset < result[k].g_offset))" % POS0)
    c.ensures("position-past-every-returned-record-and-never-back",
              "implies(old(" + GATE + "), %s._position is not None and %s._position >= %s"
              " and forall(lambda k: implies(0 <= k < len(result), result[k].g_offset < %s._position)))" % (STATE, STATE, POS0, STATE))
    c.ensures("other-partitions-untouched", "forall(TPSTATE, lambda s: implies(s != %s, unchanged(s)))" % STATE)
