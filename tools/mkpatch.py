#!/usr/bin/env python3
"""usage: tools/mkpatch.py <out.diff> <repo-relative file> <<< 'OLD\n=====\nNEW'
Builds a patch against /repo HEAD in a scratch worktree (never in /repo) by replacing the unique occurrence of OLD
with NEW in the file; used to write hand-made property-breaking changes for self-tests of the checks."""
import os
import subprocess
import sys
import tempfile

out, rel = sys.argv[1], sys.argv[2]
old, new = sys.stdin.read().split("\n=====\n")
new = new.rstrip("\n") + "\n" if old.endswith("\n") else new.rstrip("\n")
w = tempfile.mkdtemp(prefix="pyvc-mk.", dir="/tmp")
subprocess.check_call(["git", "-C", "/repo", "worktree", "add", "--detach", "-f", w, "HEAD"], stdout=subprocess.DEVNULL, stderr=subprocess.DEVNULL)
try:
    p = os.path.join(w, rel)
    s = open(p).read()
    if s.count(old) != 1:
        sys.exit("OLD occurs %d times in %s" % (s.count(old), rel))
    open(p, "w").write(s.replace(old, new))
    d = subprocess.run(["git", "-C", w, "diff"], capture_output=True, text=True).stdout
    open(out, "w").write(d)
    print("wrote", out, len(d.splitlines()), "lines")
finally:
    subprocess.call(["git", "-C", "/repo", "worktree", "remove", "--force", w], stdout=subprocess.DEVNULL, stderr=subprocess.DEVNULL)
