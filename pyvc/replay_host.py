"""Runs under /venv/bin/python (the interpreter the repository's tests use).
Replays a counter-model against the *real* code in $PYVC_REPO.

usage: replay_host.py <replay.json>
exit 1 + 'REPRODUCED' : the real code violates the clause on this input
exit 0 + 'NOT-REPRODUCED' : it does not (model was an artefact of an abstraction)
exit 3 : the replay itself could not run
"""
import importlib
import json
import os
import sys
import traceback


def dec(v):
    if isinstance(v, dict) and "bytes" in v:
        return bytes.fromhex(v["bytes"])
    if isinstance(v, dict) and "tuple" in v:
        return tuple(dec(x) for x in v["tuple"])
    if isinstance(v, list):
        return [dec(x) for x in v]
    return v


def resolve(path):
    mod, _, attr = path.partition(":")
    o = importlib.import_module(mod)
    for p in attr.split("."):
        o = getattr(o, p)
    return o


def main():
    spec = json.load(open(sys.argv[1]))
    repo = os.environ.get("PYVC_REPO", "/repo")
    sys.path.insert(0, repo)
    sys.path.insert(0, os.path.dirname(os.path.dirname(os.path.abspath(__file__))))
    rp = spec.get("replay") or {}
    try:
        if "script" in rp:
            g = {"__name__": "__replay__", "MODEL": dec(spec.get("model", {}))}
            exec(compile(rp["script"], "<replay>", "exec"), g)
            violated = bool(g.get("VIOLATED"))
            detail = g.get("DETAIL", "")
        else:
            fn = resolve(rp["call"])
            oracle = resolve(rp["expect"])
            cands = [rp.get("args", [])] + list(rp.get("search", []))
            violated, detail = False, ""
            for i, cand in enumerate(cands):
                args = [dec(a) for a in cand]
                try:
                    got = fn(*args)
                except Exception as e:       # an exception where the oracle has a value is a mismatch
                    got = "raised %s" % type(e).__name__
                exp = oracle(*args)
                if got != exp:
                    violated = True
                    detail = "%s real=%r expected=%r args=%r" % (
                        "counter-model" if i == 0 else "witness-search[%d]" % i, got, exp, args)
                    break
                detail = "real == expected on the counter-model and %d searched inputs" % (len(cands) - 1)
    except SystemExit:
        raise
    except BaseException as e:
        if rp.get("exception_is_violation"):
            print("REPRODUCED exception %s: %s" % (type(e).__name__, e))
            sys.exit(1)
        print("REPLAY-ERROR %s: %s" % (type(e).__name__, e))
        traceback.print_exc()
        sys.exit(3)
    if violated:
        print("REPRODUCED " + str(detail)[:2000])
        sys.exit(1)
    print("NOT-REPRODUCED " + str(detail)[:2000])
    sys.exit(0)


if __name__ == "__main__":
    main()
