"""C05 / C06 — aiokafka/consumer/group_coordinator.py: GroupCoordinator.ensure_active_group, one rejoin attempt of the
coordination task.

C05: "Every member taking part in a rebalance finishes its on_partitions_revoked callback before any member's
on_partitions_assigned callback for the resulting generation starts." Per member that is: the prepare step
(_on_join_prepare: gate closed, final commit, on_partitions_revoked awaited - under contract in
coordinator_commit_path.py) has completed before this member's JoinGroup leaves; the coordinator completes the join -
and with it anybody's assignment for the new generation - only after every member has sent it.
C06: "keeps heartbeating": the heartbeat task of the old generation is stopped before the rejoin and a new one is
started after every successful rejoin."""
from pyvc.contract import contract, classmodel, specfn, SPEC_TYPES, CLASSES
from pyvc.ty import V, INT, BOOL, REAL, STR, NONE, EXC, BYTES, Opt, Tup, List, Set, Dict, Ref, Opaque
from pyvc.exec_base import Fut
from . import coordinator_commit_path, coordinator_rebalance, close_paths      # noqa: F401

MOD = "aiokafka.consumer.group_coordinator"
G = CLASSES["GroupCoordinator"].fields
G.update({"_performed_join_prepare": BOOL, "_max_poll_interval": REAL, "_retry_backoff_ms": INT,
          "_subscription": Ref("SubscriptionState")})
S = CLASSES["SubscriptionState"]
S.fields.update({"_subscribed_pattern": Opt(Opaque("Pattern")), "g_idle_time": REAL})
S.props.update({"subscribed_pattern": "self._subscribed_pattern", "fetcher_idle_time": "self.g_idle_time"})


@contract(MOD + ":GroupCoordinator.ensure_active_group", ["C05", "C06"])
def _(c):
    c.self_("GroupCoordinator")
    c.param("subscription", Ref("Subscription"))
    c.param("prev_assignment", Opt(Ref("Assignment")))
    c.returns(Opt(Ref("Assignment")))
    # only the coordination task, which runs this function, touches the flag and (re)starts the heartbeat task
    c.owns("self._client", "self._subscription", "self._performed_join_prepare", "self._max_poll_interval", "self._retry_backoff_ms")
    c.ghost("$rejoined", BOOL, "False")
    c.ghost("$heartbeat_stopped", BOOL, "False")
    c.ghost("$heartbeat_started", BOOL, "False")
    c.call("self._client.force_metadata_update", havoc_all=True, raises=["KafkaError", "CancelledError"],
           note="suspends until the next metadata refresh")
    c.call("self._on_join_prepare", havoc_all=True, raises=["CancelledError"],
           note="_on_join_prepare (under contract, coordinator_commit_path.py): closes the hand-out gate, does the final "
                "commit and awaits on_partitions_revoked; here only the fact that it has returned is used")
    c.call("self._stop_heartbeat_task", havoc_all=True, raises=["BaseException"], ghost={"$heartbeat_stopped": "True"},
           note="_stop_heartbeat_task (under contract for the close() call site, close_paths.py): cancels and awaits the "
                "heartbeat task and drops its reference")
    c.call("asyncio.sleep", havoc_all=True, raises=["CancelledError"], note="suspends")
    c.call("self._do_rejoin_group", returns=BOOL, havoc_all=True, raises=["KafkaError", "CancelledError"],
           ghost={"$rejoined": "result"},
           note="_do_rejoin_group: one JoinGroup/SyncGroup round (perform_group_join under contract, C06); True when "
                "the member is part of the new generation and its assignment is in place")
    c.call("self._start_heartbeat_task", ghost={"$heartbeat_started": "True"},
           note="_start_heartbeat_task: creates the heartbeat task if there is none")
    c.modifies("self._performed_join_prepare")
    c.raises("lookup-failed-or-cancelled", "BaseException")
    c.hook("before", "self._do_rejoin_group", [
        ("assert", "revocation-finished-before-this-member-joins-the-next-generation", "self._performed_join_prepare"),
        ("assert", "old-generations-heartbeat-stopped-before-the-rejoin", "$heartbeat_stopped"),
        ("assert", "joins-for-the-subscription-it-prepared-for", "a0 == subscription"),
    ])
    c.ensures_internal("an-assignment-is-returned-only-after-a-successful-rejoin-with-heartbeats-restarted",
                       "implies(result is not None, $rejoined and $heartbeat_started)")
    c.ensures_internal("a-successful-rejoin-restarts-the-heartbeat-and-re-arms-the-prepare-step",
                       "implies($rejoined, $heartbeat_started and not self._performed_join_prepare)")
