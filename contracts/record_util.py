"""C09/C10 — aiokafka/record/util.py: zig-zag base-128 varints against the protobuf/Kafka
definition (DESIGN.md Appendix C.2). The same spec functions are used for the Cython
implementation (contracts/cutil.py), which is what makes the two codecs agree."""
import z3
from pyvc.contract import contract, specfn, Sink
from pyvc import ty as T
from pyvc.ty import V, INT, BOOL, BYTES, Tup, List

W = 80
MODE = "bv%d" % W


def bv(n):
    return z3.BitVecVal(n, W)


def zz_term(v):
    """zig-zag of an int64, as a non-negative integer < 2^64."""
    return (v << bv(1)) ^ (v >> bv(63))


def size_term(u):
    """number of base-128 groups of u >= 0 (at least one)."""
    s = bv(1)
    for j in range(1, 10):
        s = s + z3.If(u >= bv(1 << (7 * j)), bv(1), bv(0))
    return s


def byte_term(u, j):
    """j-th byte of the encoding: 7 payload bits, continuation bit iff more groups follow."""
    grp = (u >> bv(7 * j)) & bv(0x7F)
    more = (u >> bv(7 * (j + 1))) != bv(0)
    return grp | z3.If(more, bv(0x80), bv(0))


@specfn("zz")
def zz(ex, st, v):
    return V(INT, zz_term(v.t))


@specfn("unzz")
def unzz(ex, st, u):
    return V(INT, (u.t >> bv(1)) ^ -(u.t & bv(1)))


@specfn("varint_size")
def varint_size(ex, st, u):
    return V(INT, size_term(u.t))


@specfn("venc_eq")
def venc_eq(ex, st, out, u):
    """out (list of ints) is exactly the base-128 encoding of u."""
    arr, ln = T.list_arr(out), T.list_len(out)
    cs = [ln == size_term(u.t)]
    for j in range(10):
        cs.append(z3.Implies(bv(j) < size_term(u.t), z3.Select(arr, bv(j)) == byte_term(u.t, j)))
    return V(BOOL, z3.And(cs))


@specfn("venc_at")
def venc_at(ex, st, buf, pos, u):
    """buf[pos:] starts with the base-128 encoding of u."""
    arr, ln = T.list_arr(buf), T.list_len(buf)
    sz = size_term(u.t)
    cs = [pos.t + sz <= ln]
    for j in range(10):
        cs.append(z3.Implies(bv(j) < sz, z3.ZeroExt(W - 8, z3.Select(arr, pos.t + bv(j))) == byte_term(u.t, j)))
    return V(BOOL, z3.And(cs))


INT64 = "-2**63 <= {0} < 2**63"


@contract("aiokafka.record.util:encode_varint_py", "C09", mode=MODE)
def _(c):
    c.param("value", INT)
    c.param("write", Sink(INT, "out"))
    c.returns(INT)
    c.requires(INT64.format("value"), "int64")
    c.loop(0, header="while value", unroll=10)
    c.ensures("bytes-written", "venc_eq($out, zz(old(value)))")
    c.ensures("every-byte-in-range", "forall(lambda j: implies(0 <= j < len($out), 0 <= $out[j] <= 255))")

    @c.replay
    def replay(model, ob=None):
        return {"script": _ENC_SCRIPT.replace('getattr(U, "%s")', 'getattr(U, "encode_varint_py")')}


@contract("aiokafka.record.util:size_of_varint_py", "C09", mode=MODE)
def _(c):
    c.param("value", INT)
    c.returns(INT)
    c.requires(INT64.format("value"), "int64")
    c.ensures("size", "result == varint_size(zz(value))")

    @c.replay
    def replay(model, ob=None):
        return {"script": _SIZE_SCRIPT.replace('getattr(U, "%s")', 'getattr(U, "size_of_varint_py")')}


@contract("aiokafka.record.util:decode_varint_py", "C09", mode=MODE)
def _(c):
    c.param("buffer", BYTES)
    c.param("pos", INT)
    c.returns(Tup(INT, INT))
    c.ghost("$v", INT, None)
    c.requires(INT64.format("$v"), "int64")
    c.requires("0 <= pos < 2**62", "position-is-a-Py_ssize_t")
    c.requires("venc_at(buffer, pos, zz($v))", "well-formed-varint")
    c.loop(0, header="while True", unroll=10)
    c.ensures("inverse-of-encode", "result[0] == $v")
    c.ensures("next-position", "result[1] == pos + varint_size(zz($v))")

    @c.replay
    def replay(model, ob=None):
        return {"script": _DEC_SCRIPT.replace('getattr(U, "%s")', 'getattr(U, "decode_varint_py")')}


@contract("aiokafka.record.util:decode_varint_py", "C10", mode=MODE, variant="untrusted")
def _(c):
    """Arbitrary bytes: terminates within 10 groups, fails only with IndexError/ValueError."""
    c.param("buffer", BYTES)
    c.param("pos", INT)
    c.returns(Tup(INT, INT))
    c.requires("0 <= pos < 2**62", "position-is-a-Py_ssize_t")
    c.index_raises = True
    c.loop(0, header="while True", unroll=10)
    c.raises("clean-failure", "IndexError")
    c.raises("clean-failure-range", "ValueError")
    c.ensures("consumed-inside-buffer", "pos < result[1] <= len(buffer) and result[1] <= pos + 10")


# ---- replay scripts (run on the real code under the repository's interpreter) -------------
_COMMON = '''
import random, os
from aiokafka.record import util as U
def zz(v): return ((v << 1) ^ (v >> 63)) & ((1 << 64) - 1)
def venc(u):
    out = []
    while True:
        b = u & 0x7f; u >>= 7
        if u: out.append(b | 0x80)
        else:
            out.append(b); return out
def cands():
    m = MODEL.get("value", MODEL.get("G_v"))
    if isinstance(m, int): yield m
    for k in range(0, 64, 7):
        for d in (-1, 0, 1):
            for s in (1, -1):
                v = s * ((1 << k) + d)
                if -2**63 <= v < 2**63: yield v
    yield from (-2**63, 2**63 - 1, 0, -1, 1)
    r = random.Random(int(os.environ.get("VERIF_SEED", "0") or 0))
    for _ in range(2000):
        yield r.randrange(-2**63, 2**63)
VIOLATED = False; DETAIL = "no failing input among counter-model and search"
fn = getattr(U, "%s")
'''
_ENC_SCRIPT = _COMMON + '''
for v in cands():
    out = []
    fn(v, out.append)
    if out != venc(zz(v)):
        VIOLATED = True; DETAIL = "encode(%d) wrote %r, definition gives %r" % (v, out, venc(zz(v))); break
'''
_SIZE_SCRIPT = _COMMON + '''
for v in cands():
    if fn(v) != len(venc(zz(v))):
        VIOLATED = True; DETAIL = "size_of(%d) = %r, definition gives %r" % (v, fn(v), len(venc(zz(v)))); break
'''
_DEC_SCRIPT = _COMMON + '''
for v in cands():
    enc = venc(zz(v))
    for pre in (0, 3):
        buf = bytearray(b"\\xff" * pre + bytes(enc) + b"\\x00\\x80")
        try:
            got = fn(buf, pre)
        except Exception as e:
            got = "raised %s" % type(e).__name__
        if got != (v, pre + len(enc)):
            VIOLATED = True; DETAIL = "decode(venc(zz(%d))) at pos %d = %r, expected %r" % (v, pre, got, (v, pre + len(enc))); break
    if VIOLATED: break
'''
