#!/usr/bin/env python3
"""usage: tools/import_seeded.py <scratch dir> <PID> <suffix> "<what it needs to manifest>" [extra check pids...]
Copies a sub-agent's patch.diff and demo_<PID>.py from its scratch worktree into /verif/seeded/<PID>-<suffix>/ and
writes meta.json; the scratch worktree can be removed afterwards."""
import json
import os
import shutil
import sys

ROOT = os.path.dirname(os.path.dirname(os.path.abspath(__file__)))
src, pid, suf, needs = sys.argv[1:5]
extra = sys.argv[5:]
sid = "%s-%s" % (pid, suf)
d = os.path.join(ROOT, "seeded", sid)
os.makedirs(d, exist_ok=True)
shutil.copy(os.path.join(src, "patch.diff"), os.path.join(d, "patch.diff"))
shutil.copy(os.path.join(src, "demo_%s.py" % pid), os.path.join(d, "demo.py"))
json.dump({"id": sid, "property": pid, "checks": [pid] + extra, "needs_to_manifest": needs,
           "origin": "independent sub-agent given only the property text and a scratch worktree (round 3)",
           "ran": "tools/confirm_seeded.py %s" % sid}, open(os.path.join(d, "meta.json"), "w"), indent=1)
print("imported", sid, os.listdir(d))
