"""C06 — aiokafka/consumer/group_coordinator.py: declaring the coordinator dead (GroupCoordinator.coordinator_dead) and
finding the next one (ensure_coordinator_known).

C06 "After any finite sequence of ... coordinator failovers and coordinator error replies, once the environment is quiet
every live member reaches the group's latest generation and keeps heartbeating": a dead coordinator is reported from
several places that run concurrently - the heartbeat task, a commit, the rebalance, the coordination routine - so the same
coordinator is regularly reported twice before the next one is found. The report must be idempotent: it wakes the
coordination routine once (the pending _coordinator_dead_fut of the *known* coordinator) and is a no-op, never an
exception, while no coordinator is known. The object invariant that makes this work - a known coordinator always comes
with a pending dead-future - is established by ensure_coordinator_known, the only place that sets coordinator_id."""
from pyvc.contract import contract, classmodel, specfn, SPEC_TYPES, CLASSES
from pyvc.ty import V, INT, BOOL, REAL, STR, NONE, EXC, BYTES, Opt, Tup, List, Set, Dict, Ref, Opaque
from pyvc.exec_base import Fut
from . import coordinator_commits as CC, coordinator_rebalance, close_paths      # noqa: F401

MOD = CC.MOD
INV = "implies(self.coordinator_id is not None, not self._coordinator_dead_fut.done())"


@contract(MOD + ":GroupCoordinator.coordinator_dead", ["C06"])
def _(c):
    c.self_("GroupCoordinator")
    c.no_class_inv = True
    c.requires(INV, "a-known-coordinator-has-a-pending-dead-future")
    c.modifies("self.coordinator_id", "Future.state", "Future.nres")
    # no c.raises: the report never raises (InvalidStateError from a second set_result would kill the heartbeat task)
    c.ensures("coordinator-unknown-afterwards", "self.coordinator_id is None")
    c.ensures("the-coordination-routine-is-woken-for-a-coordinator-that-was-known",
              "implies(old(self.coordinator_id) is not None, self._coordinator_dead_fut.done())")
    c.ensures("reporting-it-again-changes-nothing",
              "implies(old(self.coordinator_id) is None, self._coordinator_dead_fut.done() == old(self._coordinator_dead_fut.done()))")
    c.ensures("the-future-object-is-kept", "self._coordinator_dead_fut == old(self._coordinator_dead_fut)")
    c.replay_fn = lambda model, ob=None: {"script": _DEAD_SCRIPT}


# replay: a real GroupCoordinator object (no tasks started): coordinator known -> dead -> dead again
_DEAD_SCRIPT = '''
import asyncio, logging
logging.disable(logging.CRITICAL)
from unittest import mock
from aiokafka.consumer.group_coordinator import GroupCoordinator
from aiokafka.util import create_future

async def main():
    bad = []
    coord = GroupCoordinator.__new__(GroupCoordinator)
    coord.group_id = "g"
    coord.coordinator_id = 3
    coord._coordinator_dead_fut = create_future()
    try:
        coord.coordinator_dead()
        if coord.coordinator_id is not None or not coord._coordinator_dead_fut.done():
            bad.append("first report: coordinator_id %r, routine woken %s" % (coord.coordinator_id, coord._coordinator_dead_fut.done()))
        coord.coordinator_dead()          # the heartbeat task and a commit report the same failure
        coord.coordinator_dead()
    except Exception as e:
        bad.append("a repeated report raised %r" % (e,))
    coord2 = GroupCoordinator.__new__(GroupCoordinator)
    coord2.group_id = "g"
    coord2.coordinator_id = None
    coord2._coordinator_dead_fut = create_future()
    try:
        coord2.coordinator_dead()
        if coord2._coordinator_dead_fut.done():
            bad.append("a report while no coordinator is known resolved the dead-future of the coordinator still to be found")
    except Exception as e:
        bad.append("report without a known coordinator raised %r" % (e,))
    return bad
bad = asyncio.run(main())
VIOLATED = bool(bad); DETAIL = "; ".join(bad)
'''


classmodel("LockObj", {})
CLASSES["GroupCoordinator"].fields.update({"_coordinator_lookup_lock": Ref("LockObj")})


@contract(MOD + ":GroupCoordinator.ensure_coordinator_known", ["C06"])
def _(c):
    c.self_("GroupCoordinator")
    c.no_class_inv = True
    c.none_raises = True
    c.requires(INV, "a-known-coordinator-has-a-pending-dead-future")
    # every function that writes coordinator_id or replaces the dead-future does both without suspending (this one and
    # coordinator_dead, above): the invariant holds whenever this task resumes
    c.rely(INV, "a-known-coordinator-has-a-pending-dead-future")
    c.owns("self._client", "self.group_id", "self._retry_backoff_ms", "self._coordinator_lookup_lock")
    c.lock("self._coordinator_lookup_lock")
    c.ghost("$asked_for_group", BOOL, "True")
    c.call("self._client.coordinator_lookup", returns=INT, havoc_all=True, raises=["KafkaError", "CancelledError"],
           ghost={"$asked_for_group": "$asked_for_group and a0 == CoordinationType.GROUP and a1 == self.group_id"},
           note="AIOKafkaClient.coordinator_lookup: FindCoordinator round trip")
    c.call("self._client.ready", returns=BOOL, havoc_all=True, raises=["CancelledError"], note="suspends; whether a connection could be made")
    c.call("self._client.force_metadata_update", havoc_all=True, raises=["CancelledError"], note="suspends")
    c.call("asyncio.sleep", havoc_all=True, raises=["CancelledError"], note="suspends")
    c.call("create_future", returns=Fut(NONE), post=["fresh(result)", "not result.done()"], note="a new pending future")
    c.modifies("self.coordinator_id", "self._coordinator_dead_fut")
    c.raises("authorization-unexpected-error-or-cancelled", "BaseException")
    c.loop(0, header="while self.coordinator_id is None and not self._closing.done()", invariants=[
        ("a-known-coordinator-has-a-pending-dead-future", INV),
        ("asked-for-this-group", "$asked_for_group")])
    c.ensures("a-known-coordinator-has-a-pending-dead-future", INV)
    c.ensures("returns-with-a-coordinator-unless-closing", "self.coordinator_id is not None or self._closing.done()")
    c.ensures_internal("only-this-groups-coordinator-is-asked-for", "$asked_for_group")
    from .sender_coordinators import CT_BIND
    c.bind("CoordinationType", CT_BIND)
