"""C01 — bounded stand-in beside the proofs (never counted as proved). The proofs say what the producer does with an error
*class*: an idempotent producer retries every error whose class is flagged retriable (SendProduceReqHandler._can_retry,
handle_response, under contract). Which classes carry the flag is a table in aiokafka/errors.py that is read from the source
on every run - but the statement "with idempotence enabled ... retriable faults alone never fail an accepted record" is
about Kafka's error codes. This exhaustive check pins the classification of the codes a Produce response can carry to the
Java client's (org.apache.kafka.common.protocol.Errors: RetriableException or not)."""
import argparse
import json

# codes a partition of a ProduceResponse can carry (Kafka protocol), and whether the Java client retries them
RETRIABLE = {3: "UNKNOWN_TOPIC_OR_PARTITION", 5: "LEADER_NOT_AVAILABLE", 6: "NOT_LEADER_OR_FOLLOWER", 7: "REQUEST_TIMED_OUT",
             19: "NOT_ENOUGH_REPLICAS", 20: "NOT_ENOUGH_REPLICAS_AFTER_APPEND", 56: "KAFKA_STORAGE_ERROR"}
FINAL = {1: "OFFSET_OUT_OF_RANGE", 10: "MESSAGE_TOO_LARGE", 17: "INVALID_TOPIC_EXCEPTION", 18: "RECORD_LIST_TOO_LARGE",
         21: "INVALID_REQUIRED_ACKS", 29: "TOPIC_AUTHORIZATION_FAILED", 31: "CLUSTER_AUTHORIZATION_FAILED",
         45: "OUT_OF_ORDER_SEQUENCE_NUMBER", 46: "DUPLICATE_SEQUENCE_NUMBER", 47: "INVALID_PRODUCER_EPOCH", 48: "INVALID_TXN_STATE",
         53: "TRANSACTIONAL_ID_AUTHORIZATION_FAILED"}


def emit(d):
    print("BOUNDED " + json.dumps(d, default=str))


def classification():
    from aiokafka import errors as E
    fails, n = [], 0
    for table, want in ((RETRIABLE, True), (FINAL, False)):
        for code, name in sorted(table.items()):
            n += 1
            cls = E.for_code(code)
            if bool(cls.retriable) != want:
                fails.append({"code": code, "kafka": name, "class": cls.__name__, "retriable_here": bool(cls.retriable),
                              "java_client": want})
    return n, fails


def main():
    ap = argparse.ArgumentParser()
    ap.add_argument("--tier", default="quick")
    ap.add_argument("--seed", type=int, default=0)
    ap.parse_args()
    n, fails = classification()
    emit({"name": "produce-error-classification", "exhaustive": True, "cases": n, "distinct_nontrivial": n,
          "bound": "the %d error codes a Produce response can carry that the Java client classifies unambiguously (7 retriable, "
                   "12 final): the class errors.for_code() maps each to carries the same retriable flag" % n,
          "failures": fails, "replay": {"script": REPLAY}})


REPLAY = '''
import sys
sys.path.insert(0, "/verif")
from bounded import C01
n, fails = C01.classification()
VIOLATED = bool(fails); DETAIL = "%d of %d produce error codes are classified differently from the Java client: %r" % (len(fails), n, fails[:3])
'''

if __name__ == "__main__":
    main()
