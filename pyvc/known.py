"""known_findings.txt: genuine defects recorded rather than repaired (DESIGN.md §1.9).

  known: property=C01 obligation=<module:qual>/<kind>/<label> region="<spec expr over entry state>" witness=<json> # what fails
  fixed: property=C02 <commit> <what failed>

A `known:` entry weakens exactly one named obligation to "holds outside the region"; the
check still proves that, so any *different* violation of the clause is reported. The
witness is replayed on every run; KNOWN-FINDING is printed only while it still fails.
`fixed:` entries suppress nothing. The file is never written at run time.
"""
import json
import os
import re
import shlex

PATH = os.path.join(os.path.dirname(os.path.dirname(os.path.abspath(__file__))), "known_findings.txt")
_ENTRIES = None


def entries():
    global _ENTRIES
    if _ENTRIES is None:
        _ENTRIES = []
        if os.path.exists(PATH):
            for ln in open(PATH, encoding="utf-8"):
                ln = ln.rstrip("\n")
                if not ln.strip() or ln.lstrip().startswith("#"):
                    continue
                body, _, text = ln.partition(" # ")
                kind, _, rest = body.partition(":")
                kind = kind.strip()
                if kind == "known":
                    d = {"kind": "known", "text": text.strip(), "raw": ln}
                    for tok in shlex.split(rest):
                        k, _, v = tok.partition("=")
                        d[k] = v
                    if "witness" in d:
                        try:
                            if d["witness"].startswith("@"):
                                d["witness"] = json.load(open(os.path.join(os.path.dirname(PATH), d["witness"][1:])))
                            else:
                                d["witness"] = json.loads(d["witness"])
                        except Exception as e:
                            d["witness_error"] = str(e)
                            d["witness"] = None
                    _ENTRIES.append(d)
                elif kind == "fixed":
                    m = re.search(r"property=(\S+)", rest)
                    _ENTRIES.append({"kind": "fixed", "property": m.group(1) if m else "?", "text": rest.strip(), "raw": ln})
    return _ENTRIES


def match(pid, qual, kind, label):
    prefix = "%s/%s/" % (qual, kind)
    for e in entries():
        ob = e.get("obligation") or ""
        if e["kind"] == "known" and e.get("property") == pid and ob.startswith(prefix) \
                and label in ob[len(prefix):].split("+"):       # one defect may fail several clauses: a+b
            return e
    return None


def for_property(pid):
    return [e for e in entries() if e.get("property") == pid]
