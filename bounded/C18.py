"""C18 — bounded stand-in only (string processing and the generator-driven exchange of ScramAuthenticator are
outside the verifier's reach; see DESIGN.md). The real ScramAuthenticator talks to an independent RFC 5802
server (specs/scram_rfc5802.py): honest (the server must accept and the client must complete) and with every
single-field tampering of the two server messages (the client must abort)."""
import argparse
import itertools
import json
import logging
import random

logging.disable(logging.CRITICAL)

from specs.scram_rfc5802 import Server, ProtocolError      # noqa: E402


def emit(d):
    print("BOUNDED " + json.dumps(d, default=str))


def exchange(mech, user, password, server):
    """-> ('completed' | 'client-aborted:<exc>' | 'server-rejected:<msg>')"""
    from aiokafka.conn import ScramAuthenticator
    a = ScramAuthenticator(loop=None, sasl_plain_password=password, sasl_plain_username=user, sasl_mechanism=mech)
    try:
        payload = None
        for step in range(3):
            r = a._step(payload)
            if r is None:
                return "completed"
            msg, _expects = r
            try:
                payload = server.first(msg) if step == 0 else server.final(msg)
            except ProtocolError as e:
                return "server-rejected:%s" % e
        return "no-termination"
    except ValueError as e:
        return "client-aborted:%s" % e
    except KeyError as e:
        return "client-aborted:KeyError %s" % e
    except Exception as e:
        return "client-crashed:%s: %s" % (type(e).__name__, e)


def cases(tier, seed):
    alphabet = ["a", ",", "=", "é"]
    maxlen = 3 if tier == "quick" else 4
    users = ["".join(p) for n in range(1, maxlen + 1) for p in itertools.product(alphabet, repeat=n)]
    rnd = random.Random(seed)
    extra = ["user", "=2C", "=3D=2C", "a=3Db", "naïve,user=1"]
    for u in users + extra:
        for mech in ("SCRAM-SHA-256", "SCRAM-SHA-512"):
            salt = bytes(rnd.randrange(256) for _ in range(rnd.choice([1, 16, 64])))
            it = rnd.choice([1, 2, 4096]) if tier == "quick" else rnd.choice([1, 4096, 20000])
            pw = rnd.choice(["pw", "päss,w=rd", "x" * 40])
            yield mech, u, pw, salt, it


def main():
    ap = argparse.ArgumentParser()
    ap.add_argument("--tier", default="quick")
    ap.add_argument("--seed", type=int, default=0)
    a = ap.parse_args()
    fails, n, nontrivial = [], 0, 0
    for mech, u, pw, salt, it in cases(a.tier, a.seed):
        for tamper in (None, "nonce-prefix", "nonce-prepended", "nonce-old-prepended", "nonce-only-suffix", "salt", "iterations", "signature", "signature-last-bit", "signature-truncated",
                       "signature-one-byte", "signature-empty", "signature-extended", "no-signature", "empty-final-message",
                       "wrong-password"):
            n += 1
            srv_pw = pw + "!" if tamper == "wrong-password" else pw
            srv = Server(mech, {u: srv_pw}, salt, it, tamper=None if tamper == "wrong-password" else tamper)
            out = exchange(mech, u, pw, srv)
            if "," in u or "=" in u:
                nontrivial += 1
            if tamper is None:
                ok = out == "completed" and srv.accepted
            elif tamper == "wrong-password":
                ok = out.startswith("server-rejected") and not srv.accepted
            else:
                # the server does not (provably) know the password the client used / is not the server the client
                # started with: the client must abort, never complete
                ok = out.startswith("client-aborted") or out.startswith("server-rejected")
            if not ok:
                fails.append({"mechanism": mech, "user": u, "password": pw, "salt": salt.hex(), "iterations": it,
                              "tamper": tamper, "outcome": out, "server_accepted": srv.accepted})
                if len(fails) >= 10:
                    break
        if len(fails) >= 10:
            break
    emit({"name": "scram-exchange-vs-rfc5802-server", "exhaustive": False, "cases": n, "distinct_nontrivial": nontrivial,
          "bound": "usernames: every string of length <= %d over {a , = e-acute} plus escapes; both mechanisms; salts of 1/16/64 "
                   "bytes; iteration counts incl. 1 and %d; honest server, 14 single-field tamperings (incl. a nonce that contains the client's without extending it) (incl. truncated / empty / extended signature), wrong password; seed %d"
                   % (3 if a.tier == "quick" else 4, 4096 if a.tier == "quick" else 20000, a.seed),
          "failures": fails, "replay": {"script": REPLAY}})
    n, fails = login_sequences(a.tier, a.seed)
    emit({"name": "scram-login-sequences", "exhaustive": False, "cases": n, "distinct_nontrivial": n,
          "bound": "sequences of five logins of one user in one process with changing client passwords (old, new, a typo), same "
                   "salt and iteration count, each against a server that knows the old or the new password; both mechanisms, "
                   "usernames with and without escapes; seed %d" % a.seed,
          "failures": fails, "replay": {"script": REPLAY_SEQ % a.seed}})
    n, fails = replayed_logins(a.tier)
    emit({"name": "scram-replayed-server-messages", "exhaustive": False, "cases": n, "distinct_nontrivial": n,
          "bound": "both mechanisms x 2 users x iteration counts 1/4096 x 3 consecutive logins in one process: the server messages "
                   "recorded from a login, replayed by a peer without the password to the next login, must make the client abort",
          "failures": fails, "replay": {"script": REPLAY_REPLAYED}})
    n, fails = honest_logins(a.tier)
    emit({"name": "scram-many-honest-logins", "exhaustive": False, "cases": n, "distinct_nontrivial": n,
          "bound": "%d honest logins per mechanism with enumerated salts, 7 passwords, iteration counts 1..3: each must complete and "
                   "be accepted (digest-value dependent faults, e.g. a leading zero byte, show about once in 256 logins)" % (n // 2),
          "failures": fails, "replay": {"script": REPLAY_MANY}})
    n, fails = handshakes(a.tier, a.seed)
    emit({"name": "sasl-handshake-vs-rfc5802-server", "exhaustive": False, "cases": n, "distinct_nontrivial": n,
          "bound": "the real AIOKafkaConnection._do_sasl_handshake (send / _send_sasl_token answered by the RFC 5802 server): both "
                   "SCRAM mechanisms, both framings (SaslAuthenticate v1 handshake / bare tokens), usernames with and without "
                   "escapes, honest server and 10 ways of not knowing the password (incl. an empty final message); seed %d" % a.seed,
          "failures": fails, "replay": {"script": REPLAY_HS % a.seed}})


def login_sequences(tier, seed):
    """Several logins in one process (reconnects, a corrected or rotated password): every login must prove *its own*
    password and authenticate only a server that knows *that* password - whatever earlier logins of the same user,
    with the same salt and iteration count, have left behind."""
    rnd = random.Random(seed)
    fails, n = [], 0
    for mech in ("SCRAM-SHA-256", "SCRAM-SHA-512"):
        for user in ("user", "a,b", "x=y"):
            for trial in range(3 if tier == "quick" else 20):
                salt = bytes(rnd.randrange(256) for _ in range(16))
                it = rnd.choice([1, 2, 4096])
                pws = ["old-secret", "new-secret", "old-secret", "typo", "new-secret"]
                rnd.shuffle(pws)
                for step, client_pw in enumerate(pws):
                    for server_pw in ("old-secret", "new-secret"):
                        n += 1
                        srv = Server(mech, {user: server_pw}, salt, it)
                        out = exchange(mech, user, client_pw, srv)
                        if client_pw == server_pw:
                            ok = out == "completed" and srv.accepted
                        else:
                            ok = out != "completed" and not srv.accepted
                        if not ok:
                            fails.append({"mechanism": mech, "user": user, "logins_so_far": pws[:step + 1], "client_password": client_pw,
                                          "server_knows": server_pw, "outcome": out, "server_accepted": srv.accepted})
                            if len(fails) >= 10:
                                return n, fails
    return n, fails


class Replayer:
    """a peer that does not know the password and answers with the two server messages it recorded from an earlier login of
    the same user (SCRAM's protection against it is the fresh client nonce in every login)"""
    accepted = False

    def __init__(self, first, final):
        self._first, self._final = first, final

    def first(self, msg):
        return self._first

    def final(self, msg):
        return self._final


def replayed_logins(tier):
    """'never completes authentication with a server that does not know the password', across logins: the server messages
    of login k, replayed to login k+1 of the same user, must make the client abort"""
    fails, n = [], 0
    for mech in ("SCRAM-SHA-256", "SCRAM-SHA-512"):
        for user, pw in (("user", "pw"), ("a,b=c", "päss")):
            for it in (1, 4096):
                recorded = []

                class Recorder(Server):
                    def first(self, msg):
                        r = Server.first(self, msg); recorded.append(r); return r

                    def final(self, msg):
                        r = Server.final(self, msg); recorded.append(r); return r
                for k in range(3):
                    del recorded[:]
                    out = exchange(mech, user, pw, Recorder(mech, {user: pw}, b"salt-%d" % k, it))
                    if out != "completed" or len(recorded) != 2:
                        fails.append({"mechanism": mech, "user": user, "login": k, "outcome": out, "note": "honest login failed"})
                        continue
                    n += 1
                    out2 = exchange(mech, user, pw, Replayer(recorded[0], recorded[1]))
                    if out2 == "completed":
                        fails.append({"mechanism": mech, "user": user, "iterations": it, "login": k + 1,
                                      "outcome": "completed against a peer replaying the server messages of login %d" % k})
    return n, fails


def honest_logins(tier):
    """'a server knowing the password accepts' for MANY different proofs: a fault that depends on the value of a digest (a
    leading zero byte of ClientProof or of a signature, 1 login in 256) needs thousands of logins to show; salts and
    passwords are enumerated, iteration count 1..3 (cheap), both mechanisms"""
    fails, n = [], 0
    count = 1500 if tier == "quick" else 20000
    for mech in ("SCRAM-SHA-256", "SCRAM-SHA-512"):
        for i in range(count):
            salt = i.to_bytes(4, "big") + b"s"
            pw = "pw%d" % (i % 7)
            srv = Server(mech, {"user": pw}, salt, 1 + i % 3)
            out = exchange(mech, "user", pw, srv)
            n += 1
            if out != "completed" or not srv.accepted:
                fails.append({"mechanism": mech, "salt": salt.hex(), "password": pw, "iterations": 1 + i % 3, "outcome": out,
                              "server_accepted": srv.accepted})
                if len(fails) >= 10:
                    return n, fails
    return n, fails


def handshake(mech, user, password, server, api_version):
    """The real AIOKafkaConnection._do_sasl_handshake; its send / _send_sasl_token are answered by `server`.
    -> 'completed' | 'aborted:<exc>'"""
    import asyncio
    from types import SimpleNamespace
    from aiokafka.conn import AIOKafkaConnection
    from aiokafka.protocol.admin import SaslHandShakeRequest, SaslAuthenticateRequest

    async def run():
        conn = AIOKafkaConnection("h", 9092, security_protocol="SASL_PLAINTEXT", sasl_mechanism=mech,
                                  sasl_plain_username=user, sasl_plain_password=password)
        rounds = [0]

        def answer(msg):
            rounds[0] += 1
            return server.first(msg) if rounds[0] == 1 else server.final(msg)

        async def send(request):
            if isinstance(request, SaslHandShakeRequest):
                return SimpleNamespace(API_VERSION=api_version, error_code=0, enabled_mechanisms=[mech])
            assert isinstance(request, SaslAuthenticateRequest)
            return SimpleNamespace(API_VERSION=0, error_code=0, error_message=None, sasl_auth_bytes=answer(request._payload))

        async def token(payload, expect_response=True):
            return answer(payload)

        conn.send = send
        conn._send_sasl_token = token
        conn.close = lambda *a, **k: None
        await conn._do_sasl_handshake()

    try:
        asyncio.run(run())
        return "completed"
    except ProtocolError as e:
        return "aborted:server-rejected:%s" % e
    except Exception as e:
        return "aborted:%s: %s" % (type(e).__name__, e)


def handshakes(tier, seed):
    """'never completes authentication with a server that does not know the password', one level up: the whole SASL
    exchange as the connection drives it, over both framings (SaslAuthenticate requests / bare tokens of pre-1.0 brokers)."""
    rnd = random.Random(seed)
    fails, n = [], 0
    for mech in ("SCRAM-SHA-256", "SCRAM-SHA-512"):
        for user in ("user", "a,b=c"):
            for api_version in (0, 1):
                for tamper in (None, "nonce-prefix", "nonce-prepended", "nonce-only-suffix", "salt", "signature", "signature-truncated", "signature-empty", "no-signature",
                               "empty-final-message", "wrong-password"):
                    n += 1
                    salt = bytes(rnd.randrange(256) for _ in range(16))
                    pw = "secret"
                    srv = Server(mech, {user: pw + "!" if tamper == "wrong-password" else pw}, salt, rnd.choice([1, 4096]),
                                 tamper=None if tamper == "wrong-password" else tamper)
                    out = handshake(mech, user, pw, srv, api_version)
                    ok = (out == "completed" and srv.accepted) if tamper is None else out.startswith("aborted")
                    if not ok:
                        fails.append({"mechanism": mech, "user": user, "handshake_api_version": api_version, "tamper": tamper,
                                      "outcome": out, "server_accepted": srv.accepted})
    return n, fails


REPLAY_REPLAYED = '''
import sys, logging
logging.disable(logging.CRITICAL)
sys.path.insert(0, "/verif")
from bounded import C18
n, fails = C18.replayed_logins("quick")
VIOLATED = bool(fails); DETAIL = "%d of %d logins completed against replayed server messages; first: %r" % (len(fails), n, fails[:1])
'''

REPLAY_MANY = '''
import sys, logging
logging.disable(logging.CRITICAL)
sys.path.insert(0, "/verif")
from bounded import C18
n, fails = C18.honest_logins("quick")
VIOLATED = bool(fails); DETAIL = "%d of %d honest logins were not completed / accepted; first: %r" % (len(fails), n, fails[:1])
'''

REPLAY_HS = '''
import sys, logging
logging.disable(logging.CRITICAL)
sys.path.insert(0, "/verif")
from bounded import C18
n, fails = C18.handshakes("quick", %d)
VIOLATED = bool(fails); DETAIL = "%%d of %%d SASL handshakes ended wrongly; first: %%r" %% (len(fails), n, fails[:1])
'''

REPLAY_SEQ = '''
import sys, logging
logging.disable(logging.CRITICAL)
sys.path.insert(0, "/verif")
from bounded import C18
n, fails = C18.login_sequences("quick", %d)
VIOLATED = bool(fails); DETAIL = "%%d of %%d logins of a sequence went wrong; first: %%r" %% (len(fails), n, fails[:1])
'''


REPLAY = '''
import sys, logging
logging.disable(logging.CRITICAL)
sys.path.insert(0, "/verif")
from bounded import C18
from specs.scram_rfc5802 import Server
bad = []
for mech, u, pw, salt, it in C18.cases("quick", 0):
    for tamper in (None, "nonce-prefix", "signature", "signature-truncated", "signature-empty", "signature-extended"):
        srv = Server(mech, {u: pw}, salt, it, tamper=tamper)
        out = C18.exchange(mech, u, pw, srv)
        ok = (out == "completed" and srv.accepted) if tamper is None else not out == "completed"
        if not ok:
            bad.append((mech, u, tamper, out)); break
    if bad: break
VIOLATED = bool(bad); DETAIL = repr(bad[:1])
'''

if __name__ == "__main__":
    main()
