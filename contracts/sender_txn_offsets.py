"""C07 — aiokafka/producer/sender.py: the handlers that record the coordinator's answers to AddOffsetsToTxn and
TxnOffsetCommit (send_offsets_to_transaction).

"A read-committed reader sees ... all offset commits of a transaction whose commit_transaction() returned successfully":
the transaction manager may believe the consumer group is part of the transaction, or an offset is committed in it,
only on the coordinator's NoError for exactly that group / that partition and offset; every other answer is retried,
turned into an abortable or fatal error, or raised - never silently counted as done."""
from pyvc.contract import contract, classmodel, specfn, SPEC_TYPES, CLASSES
from pyvc.ty import V, INT, BOOL, REAL, STR, NONE, EXC, BYTES, Opt, Tup, List, Set, Dict, Ref, Opaque
from pyvc.exec_base import Fut
from .common import TP, tp_ctor
from .subscription_state import OAM
from .sender_txn import tm_invariant, MOD
from . import sender_txn      # noqa: F401

TM_MODS = ["TransactionManager.state", "TransactionManager._txn_partitions", "TransactionManager._pending_txn_partitions",
           "TransactionManager._txn_consumer_groups", "TransactionManager._pending_txn_offsets", "TransactionManager._transaction_waiter",
           "OffsetsDict.d", "Future.state", "Future.nres", "Future.exc"]

classmodel("AddOffsetsHandler", {"_sender": Ref("Sender"), "_default_backoff": REAL, "_group_id": STR},
           real=MOD + ":AddOffsetsToTxnHandler")
classmodel("AddOffsetsResponse", {"error_code": INT})


@contract(MOD + ":AddOffsetsToTxnHandler.handle_response", ["C07"])
def _(c):
    c.self_("AddOffsetsHandler")
    c.param("resp", Ref("AddOffsetsResponse"))
    c.returns(Opt(REAL))
    c.requires("self._sender._txn_manager is not None", "transactional-sender")
    tm_invariant(c, "self._sender._txn_manager")
    c.none_raises = True
    c.call("self._sender._coordinator_dead", note="forgets the cached coordinator of that kind")
    c.call("txn_manager.error_transaction", modifies=TM_MODS, raises=["AssertionError"],
           note="TransactionManager.error_transaction (under contract, C16): abstracted here because its preconditions "
                "(a transaction is open) are facts about the caller's history")
    c.modifies(*TM_MODS)
    c.raises("fenced-fatal-or-unexpected", "Exception")
    CODE = "Errors.for_code(resp.error_code)"
    c.hook("before", "txn_manager.consumer_group_added", [
        ("assert", "group-counts-as-added-only-on-the-coordinators-no-error-for-it",
         CODE + " == Errors.NoError and a0 == self._group_id"),
    ])
    c.ensures("done-only-when-added-or-failed-for-good",
              "implies(result is None, " + CODE + " == Errors.NoError or " + CODE + " == Errors.GroupAuthorizationFailedError)")
    c.ensures("added-exactly-on-no-error",
              "implies(" + CODE + " == Errors.NoError, result is None and self._sender._txn_manager._txn_consumer_groups == set_with(old(self._sender._txn_manager._txn_consumer_groups), self._group_id))")
    c.replay_fn = lambda model, ob=None: {"script": _SCRIPT % "group_sweep"}
    c.ensures("untouched-when-to-be-retried",
              "implies(result is not None, self._sender._txn_manager._txn_consumer_groups == old(self._sender._txn_manager._txn_consumer_groups))")


classmodel("TxnOffsetCommitHandlerObj", {"_sender": Ref("Sender"), "_default_backoff": REAL, "_group_id": STR,
                                         "_offsets": Dict(TP, OAM)}, real=MOD + ":TxnOffsetCommitHandler")
classmodel("TxnOffsetCommitResponse", {"errors": List(Tup(STR, List(Tup(INT, INT))))})


@contract(MOD + ":TxnOffsetCommitHandler.handle_response", ["C07"])
def _(c):
    c.self_("TxnOffsetCommitHandlerObj")
    c.param("resp", Ref("TxnOffsetCommitResponse"))
    c.returns(Opt(REAL))
    c.bind("TopicPartition", tp_ctor)
    c.requires("self._sender._txn_manager is not None", "transactional-sender")
    tm_invariant(c, "self._sender._txn_manager")
    c.none_raises = True
    c.index_raises = True
    c.call("self._sender._coordinator_dead", note="forgets the cached coordinator of that kind")
    c.call("txn_manager.error_transaction", modifies=TM_MODS, raises=["AssertionError"],
           note="TransactionManager.error_transaction (under contract, C16)")
    c.call("txn_manager.offset_committed", modifies=TM_MODS, raises=["AssertionError"],
           note="TransactionManager.offset_committed(tp, offset, group): asserts that this offset of this group is the one "
                "pending, removes it and resolves the send_offsets_to_transaction future when none is left")
    c.modifies(*TM_MODS)
    c.raises("fenced-fatal-unexpected-or-answer-for-an-unrequested-partition", "Exception")
    ACK = "Errors.for_code(%s) == Errors.NoError"
    VISITED = ("forall(lambda i, j: implies(0 <= i < %s and 0 <= j < len(resp.errors[i][1]), " + ACK % "resp.errors[i][1][j][1]" + "))")
    c.loop(0, header="for topic, partitions in resp.errors", invariants=[("visited-topics-acknowledged", VISITED % "$i")])
    c.loop(1, header="for partition, error_code in partitions", invariants=[
        ("visited-topics-acknowledged", VISITED % "$i_0"),
        ("visited-partitions-of-this-topic-acknowledged", "forall(lambda j: implies(0 <= j < $i, " + ACK % "partitions[j][1]" + "))"),
        ("this-topics-entry", "0 <= $i_0 < len(resp.errors) and partitions == resp.errors[$i_0][1]"),
    ])
    c.ensures("done-only-when-every-answer-was-an-acknowledgement-or-the-transaction-failed",
              "implies(result is None, " + VISITED % "len(resp.errors)" + " or exists(lambda i, j: 0 <= i < len(resp.errors)"
              " and 0 <= j < len(resp.errors[i][1]) and Errors.for_code(resp.errors[i][1][j][1]) == Errors.GroupAuthorizationFailedError))")
    c.replay_fn = lambda model, ob=None: {"script": _SCRIPT % "offsets_sweep"}
    c.hook("before", "txn_manager.offset_committed", [
        ("assert", "an-offset-counts-as-committed-only-on-the-coordinators-no-error-for-that-partition",
         "Errors.for_code(error_code) == Errors.NoError and a0 == TopicPartition(topic, partition)"
         " and a0 in self._offsets and a1 == self._offsets[a0].offset and a2 == self._group_id"),
    ])


_SCRIPT = '''
import sys
sys.path.insert(0, "/verif")
from specs import txn_handlers_replay
bad = txn_handlers_replay.%s()
VIOLATED = bool(bad); DETAIL = repr(bad[:6])
'''
