"""Oracle for C17: org.apache.kafka.common.utils.Utils.murmur2(byte[]) transcribed in 32-bit
two's-complement arithmetic (DESIGN.md Appendix C.1). Two forms: an executable Python twin
(used by replays and self-checks) and z3 terms (used in contracts)."""
import z3

SEED = 0x9747B28C
M = 0x5BD1E995
R = 24
MASK = 0xFFFFFFFF


def jm2_py(data: bytes) -> int:
    """Returns the Java int result as an unsigned 32-bit number."""
    length = len(data)
    h = (SEED ^ length) & MASK
    for i in range(length // 4):
        k = (data[4 * i] & 0xFF) + ((data[4 * i + 1] & 0xFF) << 8) + ((data[4 * i + 2] & 0xFF) << 16) + ((data[4 * i + 3] & 0xFF) << 24)
        k &= MASK
        k = (k * M) & MASK
        k ^= k >> R
        k = (k * M) & MASK
        h = (h * M) & MASK
        h ^= k
    rem = length % 4
    base = length & ~3
    if rem == 3:
        h ^= (data[base + 2] & 0xFF) << 16
    if rem >= 2:
        h ^= (data[base + 1] & 0xFF) << 8
    if rem >= 1:
        h ^= data[base] & 0xFF
        h = (h * M) & MASK
    h ^= h >> 13
    h = (h * M) & MASK
    h ^= h >> 15
    return h


def java_partition(key: bytes, n: int) -> int:
    return (jm2_py(key) & 0x7FFFFFFF) % n


# literals computed by the Java client (also in tests/test_partitioner.py)
_LITERALS = {b"": 681, b"a": 524, b"ab": 434, b"abc": 107, b"123456789": 566, b"\x00 ": 742}
for _k, _v in _LITERALS.items():
    assert java_partition(_k, 1000) == _v, (_k, java_partition(_k, 1000), _v)


# ---- z3 form -----------------------------------------------------------------

def bv32(x):
    return z3.BitVecVal(x & MASK, 32)


def step(h, b0, b1, b2, b3):
    """One 4-byte chunk. h: BV32, b*: BV8."""
    k = z3.Concat(b3, b2, b1, b0)        # little-endian assembly; + and | coincide on disjoint bytes
    k = k * bv32(M)
    k = k ^ z3.LShR(k, R)
    k = k * bv32(M)
    h = h * bv32(M)
    return h ^ k


def tail(h, rem, t0, t1, t2):
    """rem: BV32 in 0..3; t0..t2: BV8 at base, base+1, base+2."""
    z = lambda b: z3.ZeroExt(24, b)
    h3 = z3.If(rem == 3, h ^ (z(t2) << 16), h)
    h2 = z3.If(z3.UGE(rem, 2), h3 ^ (z(t1) << 8), h3)
    h1 = z3.If(z3.UGE(rem, 1), (h2 ^ z(t0)) * bv32(M), h2)
    return h1


def fin(h):
    h = h ^ z3.LShR(h, 13)
    h = h * bv32(M)
    return h ^ z3.LShR(h, 15)
