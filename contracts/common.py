"""Shared types for the sidecar contracts."""
from pyvc import source
from pyvc.ty import INT, BOOL, STR, Opaque, Enum, Tup
from pyvc.exec_expr import OPAQUE_ATTRS
from pyvc.exec_base import Fut, PyThing

# aiokafka.structs.TopicPartition: an immutable (topic, partition) value, compared by equality
TP = Opaque("TP")
OPAQUE_ATTRS[("TP", "topic")] = STR
OPAQUE_ATTRS[("TP", "partition")] = INT


def enum_from_repo(module, name):
    """Enum type whose members are read from the class body in /repo on every run."""
    mem = source.module(module).enums.get(name)
    if mem is None:
        raise source.SourceError("enum %s not found in %s" % (name, module))
    e = Enum(name, [m for m, _ in mem])
    e.values = dict(mem)
    return e


def tupctor(ty):
    """Binding for a namedtuple class: calling it builds a value of the tuple type."""
    return PyThing("tupctor", ty=ty)


from pyvc.contract import SPEC_TYPES
SPEC_TYPES.update({"TP": TP, "INT": INT, "STR": STR})

# TopicPartition(topic, partition): injective constructor with the two projections
tp_ctor = PyThing("opaquector", ty=TP, fields=[("topic", STR), ("partition", INT)])
