"""C10 — aiokafka/record/legacy_records.py: the pure-Python walk over a (decompressed) legacy message set
(_LegacyRecordBatchPy._read_all_headers).

C10 "For every byte string handed to the record decoders - ... with hostile length fields ... nested compressed payloads with
inconsistent inner lengths - decoding terminates ... never ... MemoryError": the walk follows the Length field of each inner
message; it terminates only if every step moves forward (the compiled twin, _read_last_offset, is under the same contract in
crecords_legacy.py; its fix is 2ba6934)."""
from pyvc.contract import contract, classmodel, specfn, SPEC_TYPES, CLASSES
from pyvc.ty import V, INT, BOOL, REAL, STR, NONE, EXC, BYTES, Opt, Tup, List, Set, Dict, Ref, Opaque

MOD = "aiokafka.record.legacy_records"
HEADER = Tup(INT, INT, INT, INT, INT, Opt(INT))


def _log_overhead():
    """LOG_OVERHEAD = CRC_OFFSET = struct.calcsize(<format literal>): evaluated from the class body in /repo on every run"""
    import ast, struct
    from pyvc import source
    tree = source.module(MOD).tree
    for cls in [n for n in tree.body if isinstance(n, ast.ClassDef) and n.name == "LegacyRecordBase"]:
        for st in cls.body:
            if isinstance(st, ast.Assign) and any(isinstance(t, ast.Name) and t.id == "LOG_OVERHEAD" for t in st.targets):
                v = st.value
                if isinstance(v, ast.Call) and ast.unparse(v.func) == "struct.calcsize" and isinstance(v.args[0], ast.Constant):
                    return struct.calcsize(v.args[0].value)
    raise source.SourceError("LegacyRecordBase.LOG_OVERHEAD is no longer struct.calcsize(<literal>)")


classmodel("LegacyBatchPy", {"_buffer": BYTES, "_magic": INT}, real=MOD + ":_LegacyRecordBatchPy",
           props={"LOG_OVERHEAD": str(_log_overhead())})


@contract(MOD + ":_LegacyRecordBatchPy._read_all_headers", ["C10"])
def _(c):
    c.self_("LegacyBatchPy")
    c.returns(List(Tup(HEADER, INT)))
    c.no_class_inv = True
    c.local("msgs", List(Tup(HEADER, INT)))
    c.call("self._read_header", returns=HEADER, raises=["Exception"], post=["-2**31 <= result[1] and result[1] < 2**31"],
           note="struct.unpack_from of the 14/22-byte message header at the position: (offset, length, crc, magic, attrs, "
                "timestamp), length a signed 32-bit field; struct.error when the header is not inside the buffer")
    c.raises("header-outside-the-buffer-or-corrupt-length", "Exception")
    # termination, and no unbounded growth of the header list: every step moves forward
    c.loop(0, header="while pos < buffer_len", invariants=[
        ("position-never-negative", "0 <= pos and buffer_len == len(self._buffer)"),
        ("one-header-per-step-forward", "12 * len(msgs) <= pos and (len(msgs) == 0 or 12 * (len(msgs) - 1) < buffer_len)"),
    ], decreases="buffer_len - pos")
    c.ensures("no-more-headers-than-the-buffer-has-room-for", "len(result) == 0 or 12 * (len(result) - 1) < len(self._buffer)")
    c.replay_fn = lambda model, ob=None: {"script": _WALK_SCRIPT}


# replay: compressed v0/v1 wrappers whose inner message set carries hostile Length fields, decoded by the pure-Python class
# in a child process with a 10 s alarm and a 2 GiB address-space limit: no termination / MemoryError is the violation
_WALK_SCRIPT = '''
import subprocess, sys, os
CHILD = r"""
import struct, gzip, signal, sys, zlib, resource
sys.path.insert(0, os.environ.get("PYVC_REPO", "/repo")) if False else None
from aiokafka.record.legacy_records import _LegacyRecordBatchPy
def msg(magic, attrs, key, value, ts=0, length=None, offset=0):
    body = struct.pack(">bb", magic, attrs) + (struct.pack(">q", ts) if magic else b"")
    body += struct.pack(">i", -1 if key is None else len(key)) + (key or b"")
    body += struct.pack(">i", -1 if value is None else len(value)) + (value or b"")
    m = struct.pack(">I", zlib.crc32(body) & 0xffffffff) + body
    return struct.pack(">qi", offset, len(m) if length is None else length) + m
magic, length, second = int(sys.argv[1]), int(sys.argv[2]), int(sys.argv[3])
inner = msg(magic, 0, b"k", b"v", length=length)
if second:
    inner = msg(magic, 0, b"k", b"v") + inner        # a good message first, then one pointing backwards / nowhere
wrapper = msg(magic, 1, None, gzip.compress(inner), offset=5)
resource.setrlimit(resource.RLIMIT_AS, (2 << 30, 2 << 30))
signal.alarm(10)
try:
    n = len(list(_LegacyRecordBatchPy(wrapper, magic)))
    print("records", n)
except MemoryError:
    print("MemoryError"); sys.exit(7)
except Exception as e:
    print("raised", type(e).__name__)
"""
bad = []
for magic in (0, 1):
    for length in (-12, -13, -2**31, -1, 0, -40, -48, -76):
        for second in (0, 1):
            r = subprocess.run([sys.executable, "-c", "import os\\n" + CHILD, str(magic), str(length), str(second)],
                               capture_output=True, text=True, env=dict(os.environ))
            if r.returncode == -14:
                bad.append("v%d inner length %d%s: the pure-Python decoder does not terminate (10 s)" % (magic, length, " after a good message" if second else ""))
            elif r.returncode == 7:
                bad.append("v%d inner length %d%s: MemoryError" % (magic, length, " after a good message" if second else ""))
            elif r.returncode != 0:
                bad.append("v%d inner length %d: decoder process died (%d) %s" % (magic, length, r.returncode, r.stderr[-200:]))
VIOLATED = bool(bad); DETAIL = "%d hostile inner lengths: %s" % (len(bad), bad[:4])
'''
