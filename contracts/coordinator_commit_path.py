"""C04 / C05 — aiokafka/consumer/group_coordinator.py: what is committed, and when (auto-commit, final commit before a
rebalance, commit retry loop) and the request a commit puts on the wire."""
import z3
from pyvc import ty as T
from pyvc.contract import contract, classmodel, specfn, SPEC_TYPES, CLASSES
from pyvc.ty import V, INT, BOOL, REAL, STR, NONE, EXC, BYTES, Opt, Tup, List, Set, Dict, Ref, Opaque
from pyvc.exec_base import Fut, PyThing
from .common import TP, tp_ctor, tupctor
from .subscription_state import OAM
from . import subscription_state, fetcher_handout, coordinator_commits     # noqa: F401

MOD = "aiokafka.consumer.group_coordinator"
OFFSETS = Dict(TP, OAM)

G = CLASSES["GroupCoordinator"].fields
G.update({"_subscription": Ref("SubscriptionState"), "_group_subscription": Opt(Ref("GroupSubscription"))})
classmodel("GroupSubscription", {})
classmodel("Listener", {})
CLASSES["SubscriptionState"].fields["_listener"] = Opt(Ref("Listener"))
CLASSES["SubscriptionState"].props["listener"] = "self._listener"

# the offsets handed to a commit are the positions of the assignment *now*: one past the last record handed out
# (FetchResult.getone/getall are the only hand-out-side writers of a position: C03 contracts)
CURRENT_POSITIONS = ("forall(TP, lambda q: (q in %(o)s) == (q in %(a)s._topic_partitions and %(a)s._tp_state[q]._position is not None))"
                     " and forall(TP, lambda q: implies(q in %(o)s, %(o)s[q].offset == %(a)s._tp_state[q]._position))")


def _commit_models(c):
    c.self_("GroupCoordinator")
    c.owns("self._client", "self._commit_lock", "self._enable_auto_commit", "self._subscription")
    c.lock("self._commit_lock")
    c.call("time.monotonic", returns=REAL, note="clock")
    c.call("asyncio.sleep", havoc_all=True, raises=["CancelledError"], note="suspends")


@contract(MOD + ":GroupCoordinator._maybe_do_autocommit", ["C04"])
def _(c):
    _commit_models(c)
    c.param("assignment", Ref("Assignment"))
    c.returns(Opt(REAL))
    c.call("self._do_commit_offsets", havoc_all=True, raises=["KafkaError", "CancelledError"],
           note="_do_commit_offsets (request construction under contract): sends OffsetCommit and raises unless every partition succeeded")
    c.call("self._is_commit_retriable", returns=BOOL, note="classification of a commit error")
    c.modifies("self._next_autocommit_deadline")
    c.raises("non-retriable-commit-error-or-cancelled", "BaseException")
    c.hook("before", "self._do_commit_offsets", [
        ("assert", "auto-commit-commits-the-positions-of-this-moment", "a0 == assignment and "
         + CURRENT_POSITIONS % {"o": "a1", "a": "assignment"}),
    ])
    c.ensures("disabled-auto-commit-commits-nothing", "implies(not old(self._enable_auto_commit), result is None)")


@contract(MOD + ":GroupCoordinator._maybe_do_last_autocommit", ["C04"])
def _(c):
    _commit_models(c)
    c.param("assignment", Ref("Assignment"))
    c.call("self.commit_offsets", havoc_all=True, raises=["KafkaError", "CancelledError"],
           note="commit_offsets (under contract): retries until the offsets given are committed or a non-retriable error")
    c.raises("commit-failed-or-cancelled", "BaseException")
    c.hook("before", "self.commit_offsets", [
        ("assert", "final-commit-commits-the-positions-of-this-moment", "a0 == assignment and "
         + CURRENT_POSITIONS % {"o": "a1", "a": "assignment"}),
    ])


@contract(MOD + ":GroupCoordinator.commit_offsets", ["C04"])
def _(c):
    _commit_models(c)
    c.param("assignment", Ref("Assignment"))
    c.param("offsets", OFFSETS)
    c.call("self.ensure_coordinator_known", havoc_all=True, raises=["KafkaError", "CancelledError"], note="suspends until a coordinator is known")
    c.call("self._do_commit_offsets", returns=Ref("Coroutine"), post=["fresh(result)"], note="creates the coroutine; it runs under asyncio.shield below")
    c.call("asyncio.shield", havoc_all=True, raises=["KafkaError", "CancelledError"],
           note="runs _do_commit_offsets(assignment, offsets) to completion (raises what it raises; cancellation of the caller does not cancel it)")
    c.raises("commit-failed-or-cancelled", "BaseException")
    c.loop(0, header="while True", invariants=[("commits-what-it-was-given", "True")])
    # every attempt, first or retried, carries exactly the offsets the caller computed: a retry never commits anything newer
    c.hook("before", "self._do_commit_offsets", [
        ("assert", "every-attempt-commits-exactly-the-offsets-given", "a0 == assignment and a1 == offsets"),
    ])


classmodel("Coroutine", {})


# ---- the request an OffsetCommit puts on the wire: fragment contracts on _do_commit_offsets (the response handling
#      below them - an OrderedDict of errors unpacked with a star target - is outside the supported subset)
@contract(MOD + ":GroupCoordinator._do_commit_offsets", ["C04"], variant="request-entries")
def _(c):
    c.self_("GroupCoordinator")
    c.param("assignment", Ref("Assignment"))
    c.param("offsets", OFFSETS)
    c.fragment("for tp, offset in offsets.items()", requires=[])
    c.local("offset_data", Dict(STR, List(Tup(INT, INT, STR)), default="list"))
    c.loop(0, header="for tp, offset in offsets.items()", invariants=[])
    c.hook("before", "offset_data*.append", [
        ("assert", "each-entry-is-the-offset-given-for-that-partition",
         "tp in offsets and a0[0] == tp.partition and a0[1] == offsets[tp].offset and a0[2] == offsets[tp].metadata"),
    ])


@contract(MOD + ":GroupCoordinator._do_commit_offsets", ["C04"], variant="request-fencing")
def _(c):
    c.self_("GroupCoordinator")
    c.param("assignment", Ref("Assignment"))
    c.param("offsets", OFFSETS)
    c.fragment("request = OffsetCommitRequest(", requires=[])
    c.local("offset_data", Dict(STR, List(Tup(INT, INT, STR)), default="list"))
    c.call("OffsetCommitRequest", returns=Ref("OffsetCommitRequestObj"), post=["fresh(result)"],
           note="OffsetCommitRequest builder object (wire form: bounded C11)")
    c.call("list", returns=List(Tup(STR, List(Tup(INT, INT, STR)))), note="list(dict.items()): the entries collected above")
    # the commit is fenced by the generation and member id the coordinator holds when the request is built: a member
    # that was rebalanced out cannot overwrite the new owner's commits (the broker rejects the stale generation)
    c.hook("before", "OffsetCommitRequest", [
        ("assert", "commit-is-fenced-by-group-generation-and-member", "a0 == self.group_id and a1 == self.generation and a2 == self.member_id"),
    ])


classmodel("OffsetCommitRequestObj", {})

# ------------------------------------------------------------------ AIOKafkaConsumer.commit()
CLASSES["SubscriptionState"].props["subscription"] = "self._subscription"
classmodel("Consumer", {"_group_id": Opt(STR), "_subscription": Ref("SubscriptionState"), "_coordinator": Ref("GroupCoordinator")},
           real="aiokafka.consumer.consumer:AIOKafkaConsumer")


@contract("aiokafka.consumer.consumer:AIOKafkaConsumer.commit", ["C04"])
def _(c):
    c.self_("Consumer")
    c.param("offsets", Opt(OFFSETS), default="None")
    c.local("offsets", OFFSETS)
    c.owns("self._coordinator", "self._subscription", "self._group_id")
    c.call("commit_structure_validate", returns=OFFSETS, raises=["ValueError", "TypeError"], note="normalises a user-given {tp: offset} mapping")
    c.call("self._coordinator.commit_offsets", havoc_all=True, raises=["KafkaError", "CancelledError"], note="commit_offsets (under contract)")
    c.raises("not-usable-or-commit-failed", "BaseException")
    c.loop(0, header="for tp in offsets", invariants=[])
    c.hook("before", "self._coordinator.commit_offsets", [
        ("assert", "commit-without-arguments-commits-the-positions-of-this-moment",
         "implies(old(offsets) is None, a0 == self._subscription._subscription.assignment and "
         + CURRENT_POSITIONS % {"o": "a1", "a": "a0"} + ")"),
    ])


# ------------------------------------------------------------------ commit before revoke (C04, C05)
@contract(MOD + ":GroupCoordinator._on_join_prepare", ["C04", "C05"])
def _(c):
    _commit_models(c)
    c.param("previous_assignment", Opt(Ref("Assignment")))
    c.local("revoked", Set(TP))
    c.ghost("$gate_closed", BOOL, "False")
    c.call("self._subscription.begin_reassignment", modifies=["Subscription._reassignment_in_progress"],
           post=["implies(self._subscription._subscription is not None, self._subscription._subscription._reassignment_in_progress)"],
           note="SubscriptionState.begin_reassignment: marks the current subscription as reassigning (Subscription._begin_reassignment)")
    c.call("self._maybe_do_last_autocommit", havoc_all=True, raises=["KafkaError", "CancelledError"],
           note="_maybe_do_last_autocommit (under contract)")
    c.call("self._subscription.listener.on_partitions_revoked", havoc_all=True, raises=["Exception", "CancelledError"],
           returns=Opt(Ref("Coroutine")), note="user callback")
    c.call("asyncio.iscoroutine", returns=BOOL, note="type test")
    c.modifies("self._group_subscription", "Subscription._reassignment_in_progress")
    c.raises("cancelled", "BaseException")
    c.hook("after", "self._subscription.begin_reassignment", [("set", "$gate_closed", "True")])
    # the hand-out gate (C05) is closed before the final commit is computed, so nothing is delivered after the positions
    # were read for it; and the final commit is attempted before the partitions are reported revoked
    c.hook("before", "self._maybe_do_last_autocommit", [
        ("assert", "hand-out-gate-closed-before-the-final-commit", "$gate_closed"),
        ("assert", "final-commit-is-for-the-assignment-being-revoked", "a0 == previous_assignment"),
    ])
    c.hook("before", "self._subscription.listener.on_partitions_revoked", [
        ("assert", "revocation-reported-after-gate-and-commit", "$gate_closed"),
    ])
    c.replay_fn = lambda model, ob=None: {"script": _PREPARE_SCRIPT}


# replay: the real _on_join_prepare on a real SubscriptionState with an async rebalance listener; at the moment the
# final commit starts and at the moment on_partitions_revoked begins the hand-out gate must already be closed
_PREPARE_SCRIPT = '''
import asyncio, logging
logging.disable(logging.CRITICAL)
from aiokafka.consumer.group_coordinator import GroupCoordinator
from aiokafka.consumer.subscription_state import SubscriptionState
from aiokafka.abc import ConsumerRebalanceListener
from aiokafka.structs import TopicPartition

async def main():
    bad = []
    for auto_commit in (True, False):
        subs = SubscriptionState()
        seen = {}
        class L(ConsumerRebalanceListener):
            async def on_partitions_revoked(self, revoked):
                seen["revoked"] = subs.reassignment_in_progress
                await asyncio.sleep(0)
                seen["revoked_after_yield"] = subs.reassignment_in_progress
            def on_partitions_assigned(self, assigned):
                pass
        subs.subscribe({"t"}, listener=L())
        subs.assign_from_subscribed([TopicPartition("t", 0)])
        assignment = subs.subscription.assignment
        class C: pass
        coord = C()
        coord._subscription = subs
        coord._group_subscription = object()
        coord.group_id = "g"
        async def last(assignment):
            seen["commit"] = subs.reassignment_in_progress
        coord._maybe_do_last_autocommit = last
        await GroupCoordinator._on_join_prepare(coord, assignment if auto_commit else None)
        if auto_commit and not seen.get("commit"):
            bad.append("the final commit before the rebalance was computed while the hand-out gate was still open")
        if not seen.get("revoked") or not seen.get("revoked_after_yield"):
            bad.append("on_partitions_revoked began while the hand-out gate (reassignment_in_progress) was still open: "
                       "a concurrent getmany()/getone() can still return records of the partitions being revoked")
    return bad
bad = asyncio.run(main())
VIOLATED = bool(bad); DETAIL = repr(bad)
'''


classmodel("OffsetCommitResponse", {"topics": List(Tup(STR, List(Tup(INT, INT))))})


@contract(MOD + ":GroupCoordinator._do_commit_offsets", ["C06", "C19", "C04"], variant="what-a-commit-error-does-to-the-membership")
def _(c):
    """C06 "the member does not disturb its own membership": as for heartbeats (_do_heartbeat), each change of the member's
    group state needs the error code that calls for it. REBALANCE_IN_PROGRESS asks for a rejoin and leaves the member's
    generation and id alone - it is still a member, and a stop() whose final commit meets a rebalance still has to say
    LeaveGroup (C19 "a consumer that could reach its coordinator has left the group": _maybe_leave_group needs the
    generation); only UNKNOWN_MEMBER_ID / ILLEGAL_GENERATION drop the identity"""
    from .common import tp_ctor
    c.self_("GroupCoordinator")
    c.param("assignment", Ref("Assignment"))
    c.param("offsets", OFFSETS)
    c.no_class_inv = True
    c.none_raises = True
    c.bind("TopicPartition", tp_ctor)
    c.local("response", Ref("OffsetCommitResponse"))
    c.local("errored", Dict(TP, EXC))
    c.local("unauthorized_topics", Set(STR))
    c.fragment("for topic, partitions in response.topics", requires=[])
    c.call("self.coordinator_dead", modifies=["self_.coordinator_id", "Future.state", "Future.nres"], note="marks the coordinator unknown")
    c.call("self.request_rejoin", modifies=["Future.state", "Future.nres"], note="GroupCoordinator.request_rejoin (under contract)")
    c.call("self.reset_generation", modifies=["self_.generation", "self_.member_id", "Future.state", "Future.nres"],
           note="GroupCoordinator.reset_generation (under contract): forgets generation and member id, requests a rejoin")
    c.modifies("self.coordinator_id", "self.generation", "self.member_id", "Future.state", "Future.nres")
    c.raises("answer-for-a-partition-that-was-not-committed", "KeyError")
    c.loop(0, header="for topic, partitions in response.topics", invariants=[])
    c.loop(1, header="for partition, error_code in partitions", invariants=[])
    c.hook("before", "self.coordinator_dead", [
        ("assert", "coordinator-dropped-only-when-the-broker-says-so",
         "error_type == Errors.GroupCoordinatorNotAvailableError or error_type == Errors.NotCoordinatorForGroupError"
         " or error_type == Errors.RequestTimedOutError"),
    ])
    c.hook("before", "self.request_rejoin", [
        ("assert", "rejoin-requested-only-when-the-group-is-rebalancing", "error_type == Errors.RebalanceInProgressError"),
    ])
    c.hook("before", "self.reset_generation", [
        ("assert", "identity-dropped-only-when-the-broker-rejects-it",
         "error_type == Errors.IllegalGenerationError or error_type == Errors.UnknownMemberIdError"),
    ])


# replay: the real _do_commit_offsets of a real GroupCoordinator object with a stubbed _send_req answering each error code
_COMMIT_ERR_SCRIPT = '''
import asyncio, logging, types
logging.disable(logging.CRITICAL)
from aiokafka.consumer.group_coordinator import GroupCoordinator
from aiokafka.consumer.subscription_state import SubscriptionState
from aiokafka.structs import TopicPartition, OffsetAndMetadata
from aiokafka.util import create_future
from aiokafka import errors as E

async def one(code):
    coord = GroupCoordinator.__new__(GroupCoordinator)
    subs = SubscriptionState()
    tp = TopicPartition("t", 0)
    subs.assign_from_user({tp})
    coord._subscription = subs
    coord.group_id, coord.generation, coord.member_id, coord.coordinator_id = "g", 5, "member-1", 1
    coord._coordinator_dead_fut = create_future()
    coord._rejoin_needed_fut = create_future()
    async def send_req(request):
        return types.SimpleNamespace(topics=[("t", [(0, code)])])
    coord._send_req = send_req
    try:
        await coord._do_commit_offsets(subs.subscription.assignment, {tp: OffsetAndMetadata(3, "")})
    except Exception:
        pass
    return coord.generation, coord.member_id, coord.coordinator_id, coord._rejoin_needed_fut.done()

async def main():
    bad = []
    for code, name in ((27, "REBALANCE_IN_PROGRESS"), (25, "UNKNOWN_MEMBER_ID"), (22, "ILLEGAL_GENERATION"), (16, "NOT_COORDINATOR"),
                       (14, "COORDINATOR_LOAD_IN_PROGRESS"), (0, "NONE"), (12, "OFFSET_METADATA_TOO_LARGE")):
        gen, mid, cid, rejoin = await one(code)
        identity_kept = (gen, mid) == (5, "member-1")
        if code in (25, 22):
            if identity_kept or not rejoin:
                bad.append("%s: the member keeps an identity the broker rejected (generation %r, member %r, rejoin %s)" % (name, gen, mid, rejoin))
        else:
            if not identity_kept:
                bad.append("%s on OffsetCommit wiped the member's generation/id (%r, %r): it is still a member; close() would skip LeaveGroup" % (name, gen, mid))
            if code == 27 and not rejoin:
                bad.append("%s: no rejoin requested" % name)
            if code != 27 and rejoin:
                bad.append("%s: a rejoin was requested" % name)
        if (cid is None) != (code == 16):
            bad.append("%s: coordinator_id afterwards %r" % (name, cid))
    return bad
bad = asyncio.run(main())
VIOLATED = bool(bad); DETAIL = "; ".join(bad[:3])
'''
from pyvc.contract import REGISTRY as _R2
_R2[MOD + ":GroupCoordinator._do_commit_offsets#what-a-commit-error-does-to-the-membership"].replay_fn = \
    lambda model, ob=None: {"script": _COMMIT_ERR_SCRIPT}
