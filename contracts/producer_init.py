"""C19 — aiokafka/producer/producer.py: how the producer's parts get their time limits (AIOKafkaProducer.__init__).

C19 "Whenever stop() is called on a producer ... while brokers are unreachable - it returns within a bound determined by
the configured request ... timeouts": stop() waits for the accumulator to drain; a batch whose leader is unreachable leaves
the accumulator when it expires (MessageBatch.expired / drain_by_nodes, under contract, compare a monotonic clock in
*seconds* with the batch ttl), and a request in flight ends at the sender's request timeout (*milliseconds*). The bound is
the configured request_timeout_ms only if __init__ hands that value to both parts in the unit each of them counts in.

Fragment contracts: of the constructor (argument validation, client construction: outside the verified subset) the two
statements that build the accumulator and the sender are verified, for every configuration value."""
from pyvc.contract import contract, classmodel, specfn, SPEC_TYPES, CLASSES
from pyvc.ty import V, INT, BOOL, REAL, STR, NONE, EXC, BYTES, Opt, Tup, List, Set, Dict, Ref, Opaque
from pyvc.exec_base import Fut
from . import sender as S, message_accumulator as MA      # noqa: F401

MOD = "aiokafka.producer.producer"
classmodel("ClusterObj", {})
classmodel("LoopObj2", {})
classmodel("Producer", {"_request_timeout_ms": INT, "_metadata": Ref("ClusterObj"), "_txn_manager": Opt(Ref("TransactionManager")),
                        "client": Ref("Client"), "_message_accumulator": Ref("MessageAccumulator"), "_sender": Ref("Sender")},
           real=MOD + ":AIOKafkaProducer")


def _locals(c):
    c.self_("Producer")
    c.no_class_inv = True
    for n, t in (("max_batch_size", INT), ("compression_attrs", INT), ("linger_ms", INT), ("loop", Ref("LoopObj2")),
                 ("acks", INT), ("retry_backoff_ms", INT), ("request_timeout_ms", INT)):
        c.local(n, t)


@contract(MOD + ":AIOKafkaProducer.__init__", ["C19"], variant="accumulator-time-limit")
def _(c):
    _locals(c)
    c.fragment("self._message_accumulator = MessageAccumulator(", requires=["self._request_timeout_ms == request_timeout_ms"])
    c.call("MessageAccumulator", returns=Ref("MessageAccumulator"), post=["fresh(result)"],
           note="MessageAccumulator.__init__(cluster, batch_size, compression_type, batch_ttl, ...): stores batch_ttl, in seconds")
    c.modifies("self._message_accumulator")
    c.hook("before", "MessageAccumulator", [
        ("assert", "a-batch-lives-for-the-configured-request-timeout-counted-in-seconds", "a3 * 1000 == self._request_timeout_ms"),
        ("assert", "the-accumulator-shares-the-producers-transaction-manager", "kw_txn_manager == self._txn_manager"),
    ])
    c.replay_fn = lambda model, ob=None: {"script": _INIT_SCRIPT}


@contract(MOD + ":AIOKafkaProducer.__init__", ["C19"], variant="sender-time-limit")
def _(c):
    _locals(c)
    c.fragment("self._sender = Sender(", requires=["self._request_timeout_ms == request_timeout_ms"])
    c.call("Sender", returns=Ref("Sender"), post=["fresh(result)"],
           note="Sender.__init__(client, *, acks, txn_manager, message_accumulator, retry_backoff_ms, request_timeout_ms): stores them")
    c.modifies("self._sender")
    c.hook("before", "Sender", [
        ("assert", "a-produce-request-waits-for-the-configured-request-timeout-in-milliseconds",
         "kw_request_timeout_ms == self._request_timeout_ms"),
        ("assert", "the-sender-drains-the-producers-accumulator",
         "kw_message_accumulator == self._message_accumulator and kw_txn_manager == self._txn_manager and kw_acks == acks"),
    ])
    c.replay_fn = lambda model, ob=None: {"script": _INIT_SCRIPT}


# replay: real producers (never started) for several configurations
_INIT_SCRIPT = '''
import asyncio, logging, warnings
logging.disable(logging.CRITICAL)
warnings.simplefilter("ignore")
from aiokafka import AIOKafkaProducer

async def main():
    bad = []
    for ms in (1, 1000, 40000, 305000):
        for kw in ({}, {"enable_idempotence": True}, {"transactional_id": "t"}):
            p = AIOKafkaProducer(bootstrap_servers="h:9092", request_timeout_ms=ms, **kw)
            p._closed = True
            ttl = p._message_accumulator._batch_ttl
            if abs(ttl * 1000 - ms) > 1e-6:
                bad.append("request_timeout_ms=%d %r: a batch to an unreachable leader expires after %r s" % (ms, kw, ttl))
            if p._sender._request_timeout_ms != ms:
                bad.append("request_timeout_ms=%d %r: the sender waits %r ms for a produce response" % (ms, kw, p._sender._request_timeout_ms))
    return bad
bad = asyncio.run(main())
VIOLATED = bool(bad); DETAIL = "; ".join(bad[:3])
'''
