"""C12 — bounded stand-in beside the proofs (never counted as proved). The proof of _handle_frame takes the response
decoder as a call that either returns a response or raises (then the connection is closed and every waiter failed). That a
frame which ends early makes the decoder raise is the codec's business (aiokafka/protocol/types.py, not under contract:
struct-based one-liners). Here real connections over a real asyncio.StreamReader receive, as the first of three pipelined
replies, every proper prefix of a well-formed reply frame - cut inside the correlation id, at and inside every field - in
several fragmentations of the byte stream: "a malformed frame ... closes the connection and fails every outstanding waiter
with a connection error: none is left pending and none receives another request's reply"."""
import argparse
import asyncio
import json
import logging
import struct

logging.disable(logging.CRITICAL)
INT32 = struct.Struct(">i")


def emit(d):
    print("BOUNDED " + json.dumps(d, default=str))


def frame(payload):
    return INT32.pack(len(payload)) + payload


def body():
    from aiokafka.protocol.metadata import MetadataResponse_v0
    return MetadataResponse_v0(brokers=[(1, "broker-1", 9092), (2, "b2", 9093)],
                               topics=[(0, "topic-a", [(0, 0, 1, [1, 2], [1])]), (3, "t", [])]).encode()


def flexible_body():
    """a flexible reply (response header v1): tagged fields in the header, in a nested entry and at the very end of the body"""
    from aiokafka.protocol.admin import ListPartitionReassignmentsResponse_v0
    from aiokafka.protocol.types import TaggedFields
    body = ListPartitionReassignmentsResponse_v0(0, 0, None, [("t", [(0, [1, 2], [3], [], {1: b"in"})], {})], {0: b"body-tag", 9: b"xyz"}).encode()
    return TaggedFields.encode({2: b"header-tag"}) + body


def flexible_request():
    from aiokafka.protocol.admin import ListPartitionReassignmentsRequest
    return ListPartitionReassignmentsRequest(1000, [], {})


async def one(payload, chunk, flexible=False):
    from unittest import mock
    from aiokafka.conn import AIOKafkaConnection
    from aiokafka.errors import KafkaConnectionError
    from aiokafka.protocol.metadata import MetadataRequest
    conn = AIOKafkaConnection(host="localhost", port=9092, request_timeout_ms=5000)
    conn._versions = {MetadataRequest.API_KEY: (0, 0), 46: (0, 0)}
    reader = asyncio.StreamReader()
    conn._reader = reader
    conn._writer = mock.MagicMock()
    conn._read_task = conn._create_reader_task()
    first = flexible_request() if flexible else MetadataRequest([])
    waiters = [asyncio.ensure_future(conn.send(r)) for r in (first, MetadataRequest([]), MetadataRequest([]))]
    await asyncio.sleep(0)
    stream = frame(payload) + frame(INT32.pack(2) + body()) + frame(INT32.pack(3) + body())
    for i in range(0, len(stream), chunk):
        if conn._reader is None:
            break
        reader.feed_data(stream[i:i + chunk])
        await asyncio.sleep(0)
    try:
        # a waiter still pending after this is the violation "left pending"; the harness itself cannot hang here
        done, pending = await asyncio.wait(waiters, timeout=2.0)
        if pending:
            for w in pending:
                w.cancel()
            await asyncio.gather(*pending, return_exceptions=True)
            return "%d waiters left pending" % len(pending)
        for i, w in enumerate(waiters, 1):
            exc = w.exception()
            if exc is None:
                return "waiter %d was handed a reply decoded from the short frame or from a later one" % i
            if not isinstance(exc, KafkaConnectionError):
                return "waiter %d failed with %s, not a connection error" % (i, type(exc).__name__)
        if conn._writer is not None or conn._reader is not None or conn._requests:
            return "the connection stayed open"
        return None
    finally:
        conn.close()


def sweep(chunks=(1, 3, 7, 1 << 16)):
    fails, n = [], 0

    async def main():
        nonlocal n
        for flexible, full in ((False, INT32.pack(1) + body()), (True, INT32.pack(1) + flexible_body())):
            for k in range(len(full)):
                for chunk in (chunks if not flexible else (1, 1 << 16)):
                    if len(fails) >= 10:
                        return          # ten failing inputs are reported; each pending waiter costs the 2 s wait
                    n += 1
                    r = await one(full[:k], chunk, flexible)
                    if r:
                        fails.append("%s reply frame cut to %d of %d bytes, stream fed in pieces of %d: %s"
                                     % ("flexible (tagged fields)" if flexible else "plain", k, len(full), chunk, r))
    asyncio.run(main())
    return n, fails


def main():
    ap = argparse.ArgumentParser()
    ap.add_argument("--tier", default="quick")
    ap.add_argument("--seed", type=int, default=0)
    ap.parse_args()
    n, fails = sweep()
    emit({"name": "truncated-reply-frames", "exhaustive": len(fails) < 10, "cases": n, "distinct_nontrivial": n,
          "bound": "every proper prefix of one MetadataResponse_v0 reply frame (two brokers, two topics) and of one flexible "
                   "ListPartitionReassignmentsResponse_v0 frame with tagged fields in header, entry and body end, as the first of three "
                   "pipelined replies on a real AIOKafkaConnection over a real StreamReader, fed in pieces of 1, 3, 7 bytes and at once",
          "failures": fails[:10], "replay": {"script": REPLAY}})


REPLAY = '''
import sys
sys.path.insert(0, "/verif")
from bounded import C12
n, fails = C12.sweep()
VIOLATED = bool(fails); DETAIL = "%d of %d truncated reply frames were not answered by closing the connection; first: %r" % (len(fails), n, fails[:2])
'''

if __name__ == "__main__":
    main()
