"""C02 / C01 / C07 — aiokafka/producer/message_accumulator.py."""
from pyvc.contract import contract, classmodel, specfn, SPEC_TYPES
from pyvc.ty import V, INT, BOOL, REAL, STR, NONE, EXC, BYTES, Opt, Tup, List, Set, Dict, Ref
from pyvc.exec_base import Fut
from .common import TP, tupctor

MOD = "aiokafka.producer.message_accumulator"

# aiokafka.structs.RecordMetadata(topic, partition, topic_partition, offset, timestamp, timestamp_type, log_start_offset)
RM = Tup(STR, INT, TP, INT, Opt(INT), INT, Opt(INT),
         names=["topic", "partition", "topic_partition", "offset", "timestamp", "timestamp_type", "log_start_offset"])
# what the record builder returns per appended record (only the fields the accumulator reads)
META = Tup(INT, INT, names=["offset", "timestamp"])
MSGFUT = Fut(Opt(RM))
PAIR = Tup(MSGFUT, META)
SPEC_TYPES["RM"] = RM

classmodel("BatchBuilder", {
    "_relative_offset": INT,
    "_closed": BOOL,
    # ghost: the producer state stamped into the batch header (pid, epoch, base sequence) and how often
    "g_pid": INT, "g_epoch": INT, "g_seq": INT, "g_stamps": INT,
}, real=MOD + ":BatchBuilder")

classmodel("MessageBatch", {
    "_builder": Ref("BatchBuilder"),
    "_tp": TP,
    "_ttl": REAL,
    "_linger_time": REAL,
    "_ctime": REAL,
    "future": MSGFUT,
    "_msg_futures": List(PAIR),
    "_drain_waiter": Fut(NONE),
    "_retry_count": INT,
}, real=MOD + ":MessageBatch", props={"tp": "self._tp", "retry_count": "self._retry_count",
                                      "record_count": "self._builder._relative_offset"})

# ---- object invariant of MessageBatch -------------------------------------------------------
F = "self._msg_futures"
INV_DISTINCT = "forall(lambda j, k: implies(0 <= j < k < len(%s), %s[j][0] != %s[k][0]))" % (F, F, F)
INV_SEPARATE = ("forall(lambda j: implies(0 <= j < len(%s), %s[j][0] != self.future and %s[j][0] != self._drain_waiter"
                " and allocated(%s[j][0])))" % (F, F, F, F))
INV_MAIN = "self.future != self._drain_waiter and not self.future.cancelled()"
BATCH_INV = [("record-futures-distinct", INV_DISTINCT), ("record-futures-separate", INV_SEPARATE),
             ("batch-futures-distinct", INV_MAIN)]


def batch_inv(c, ensure=True):
    for lbl, e in BATCH_INV:
        c.requires(e, "inv:" + lbl)
        if ensure:
            c.ensures("inv:" + lbl, e)


# ---- BatchBuilder: the record codec behind it is under contract in C09; here only its bookkeeping
@contract(MOD + ":BatchBuilder.append", ["C02", "C01"])
def _(c):
    c.self_("BatchBuilder")
    c.param("timestamp", Opt(INT))
    c.param("key", Opt(BYTES))
    c.param("value", Opt(BYTES))
    c.param("headers", List(Tup(STR, Opt(BYTES))))
    c.returns(Opt(META))
    c.modifies("self._relative_offset", "self._closed")
    c.trusted("delegates to DefaultRecordBatchBuilder.append (C09); assumed: a successful append returns metadata "
              "carrying the relative offset it was given and the record's timestamp, and counts the record")
    c.ensures("offset-is-relative-position", "implies(result is not None, result.offset == old(self._relative_offset)"
              " and self._relative_offset == old(self._relative_offset) + 1)")
    c.ensures("refusal-counts-nothing", "implies(result is None, self._relative_offset == old(self._relative_offset))")
    c.ensures("user-timestamp-kept", "implies(result is not None and timestamp is not None, result.timestamp == timestamp)")
    c.ensures("closed-refuses", "implies(old(self._closed), result is None)")


@contract(MOD + ":BatchBuilder.record_count", ["C02", "C01"])
def _(c):
    c.self_("BatchBuilder")
    c.returns(INT)
    c.ensures("def", "result == self._relative_offset")


@contract(MOD + ":BatchBuilder.close", ["C02", "C07"])
def _(c):
    c.self_("BatchBuilder")
    c.modifies("self._closed")
    c.ensures("closed", "self._closed")
    c.ensures("frame", "self._relative_offset == old(self._relative_offset)")


@contract(MOD + ":BatchBuilder._set_producer_state", "C01")
def _(c):
    c.self_("BatchBuilder")
    c.param("producer_id", INT)
    c.param("producer_epoch", INT)
    c.param("base_sequence", INT)
    c.modifies("self.g_pid", "self.g_epoch", "self.g_seq", "self.g_stamps")
    c.trusted("forwards to DefaultRecordBatchBuilder.set_producer_state, which stores the three header fields (C09)")
    c.ensures("stamped", "self.g_pid == producer_id and self.g_epoch == producer_epoch and self.g_seq == base_sequence"
              " and self.g_stamps == old(self.g_stamps) + 1")


# ---- MessageBatch ---------------------------------------------------------------------------
@contract(MOD + ":MessageBatch.append", "C02")
def _(c):
    c.self_("MessageBatch")
    c.param("key", Opt(BYTES))
    c.param("value", Opt(BYTES))
    c.param("timestamp_ms", Opt(INT))
    c.param("headers", List(Tup(STR, Opt(BYTES))))
    c.returns(Opt(MSGFUT))
    batch_inv(c)
    c.modifies("self._msg_futures", "self._builder._relative_offset", "self._builder._closed")
    c.ensures("fresh-pending-future", "implies(result is not None, fresh(result) and not result.done())")
    c.ensures("paired-with-its-metadata", "implies(result is not None, len(self._msg_futures) == len(old(self._msg_futures)) + 1"
              " and self._msg_futures[len(self._msg_futures) - 1][0] == result"
              " and self._msg_futures[len(self._msg_futures) - 1][1].offset == old(self._builder._relative_offset))")
    c.ensures("earlier-pairs-kept", "forall(lambda j: implies(0 <= j < len(old(self._msg_futures)),"
              " self._msg_futures[j] == old(self._msg_futures)[j]))")
    c.ensures("refused-adds-nothing", "implies(result is None, self._msg_futures == old(self._msg_futures))")
    c.ensures("no-future-touched", "forall(lambda r: implies(0 < r < old(nalloc()), fut_same(r)))")


def _done_like(c, result_expr, extra_params=()):
    c.self_("MessageBatch")
    batch_inv(c)
    c.modifies("Future.state", "Future.nres", "Future.res")


_COORD = ("RecordMetadata(self._tp.topic, self._tp.partition, self._tp, base_offset + self._msg_futures[j][1].offset,"
          " ite({ts} == -1, some_int(self._msg_futures[j][1].timestamp), {ts}),"
          " ite({ts} == -1, 0, 1), log_start_offset)")
TRUE_COORD = _COORD.format(ts="timestamp")
# inside the loop the local `timestamp` may have been re-assigned: the invariant speaks of the argument
TRUE_COORD_INV = _COORD.format(ts="old(timestamp)")


@contract(MOD + ":MessageBatch.done", "C02")
def _(c):
    _done_like(c, None)
    c.param("base_offset", INT)
    c.param("timestamp", Opt(INT))
    c.param("log_start_offset", Opt(INT))
    c.bind("RecordMetadata", tupctor(RM))
    c.loop(0, header="for future, metadata in self._msg_futures", invariants=[
        ("resolved-prefix", "forall(lambda j: implies(0 <= j < $i, self._msg_futures[j][0].done()"
         " and (old(self._msg_futures[j][0].done()) or self._msg_futures[j][0].result() == " + TRUE_COORD_INV + ")))"),
        ("untouched-suffix", "forall(lambda j: implies($i <= j < len(self._msg_futures), fut_same(self._msg_futures[j][0])))"),
        ("batch-future-done", "self.future.done()"),
    ])
    c.ensures("true-coordinates", "forall(lambda j: implies(0 <= j < len(self._msg_futures) and not old(self._msg_futures[j][0].done()),"
              " self._msg_futures[j][0].done() and self._msg_futures[j][0].result() == " + TRUE_COORD + "))")
    c.ensures("all-resolved", "self.future.done() and forall(lambda j: implies(0 <= j < len(self._msg_futures), self._msg_futures[j][0].done()))")
    c.ensures("resolved-before-untouched", "forall(lambda j: implies(0 <= j < len(self._msg_futures) and old(self._msg_futures[j][0].done()),"
              " fut_same(self._msg_futures[j][0])))")
    c.ensures("batch-coordinates", "implies(not old(self.future.done()), self.future.result() == RecordMetadata(self._tp.topic,"
              " self._tp.partition, self._tp, base_offset, timestamp, ite(timestamp == -1, 0, 1), log_start_offset))")

    @c.replay
    def replay(model, ob=None):
        return {"script": _DONE_SCRIPT}


_DONE_SCRIPT = '''
import asyncio
from aiokafka.producer.message_accumulator import MessageBatch, BatchBuilder
from aiokafka.structs import TopicPartition
async def main():
    bad = None
    for broker_ts in (-1, 777):
        b = MessageBatch(TopicPartition("t", 3), BatchBuilder(1 << 20, 0), 100, 0)
        futs = [b.append(b"k%d" % i, b"v", ts) for i, ts in enumerate((1000, 2000, 3000))]
        b.done(100, broker_ts, 5)
        for i, (f, ts) in enumerate(zip(futs, (1000, 2000, 3000))):
            md = f.result()
            want_ts = ts if broker_ts == -1 else broker_ts
            if (md.offset, md.timestamp, md.timestamp_type, md.partition, md.topic) != (100 + i, want_ts, 0 if broker_ts == -1 else 1, 3, "t"):
                bad = (broker_ts, i, md, want_ts); break
        if bad: break
    return bad
bad = asyncio.run(main())
VIOLATED = bad is not None
DETAIL = "broker timestamp %r: record %d resolved with %r, its own timestamp is %r" % bad if bad else "three records resolve with their own coordinates"
'''


@contract(MOD + ":MessageBatch.done_noack", "C02")
def _(c):
    _done_like(c, None)
    c.loop(0, header="for future, _ in self._msg_futures", invariants=[
        ("resolved-prefix", "forall(lambda j: implies(0 <= j < $i, self._msg_futures[j][0].done()"
         " and (old(self._msg_futures[j][0].done()) or self._msg_futures[j][0].result() is None)))"),
        ("untouched-suffix", "forall(lambda j: implies($i <= j < len(self._msg_futures), fut_same(self._msg_futures[j][0])))"),
        ("batch-future-done", "self.future.done()"),
    ])
    c.ensures("no-metadata", "forall(lambda j: implies(0 <= j < len(self._msg_futures) and not old(self._msg_futures[j][0].done()),"
              " self._msg_futures[j][0].done() and self._msg_futures[j][0].result() is None))")
    c.ensures("all-resolved", "self.future.done() and forall(lambda j: implies(0 <= j < len(self._msg_futures), self._msg_futures[j][0].done()))")


@contract(MOD + ":MessageBatch.failure", "C02")
def _(c):
    c.self_("MessageBatch")
    c.param("exception", EXC)
    batch_inv(c)
    c.modifies("Future.state", "Future.nres", "Future.exc")
    c.call("copy.copy", returns="a0", note="copy.copy(exc) is an exception of the same class")
    c.loop(0, header="for future, _ in self._msg_futures", invariants=[
        ("resolved-prefix", "forall(lambda j: implies(0 <= j < $i, self._msg_futures[j][0].done()"
         " and (old(self._msg_futures[j][0].done()) or self._msg_futures[j][0].exception() == exception)))"),
        ("untouched-suffix", "forall(lambda j: implies($i <= j < len(self._msg_futures), fut_same(self._msg_futures[j][0])))"),
        ("batch-future-done", "self.future.done() and (old(self.future.done()) or self.future.exception() == exception)"),
    ])
    c.ensures("every-pending-record-fails-with-it", "forall(lambda j: implies(0 <= j < len(self._msg_futures) and not old(self._msg_futures[j][0].done()),"
              " self._msg_futures[j][0].done() and self._msg_futures[j][0].exception() == exception))")
    c.ensures("all-resolved", "self.future.done() and self._drain_waiter.done() and forall(lambda j: implies(0 <= j < len(self._msg_futures), self._msg_futures[j][0].done()))")
    c.ensures("resolved-before-untouched", "forall(lambda j: implies(0 <= j < len(self._msg_futures) and old(self._msg_futures[j][0].done()),"
              " fut_same(self._msg_futures[j][0])))")


@contract(MOD + ":MessageBatch.drain_ready", "C01")
def _(c):
    c.self_("MessageBatch")
    c.modifies("self._retry_count", "self._drain_waiter.state", "self._drain_waiter.nres")
    c.ensures("counted", "self._retry_count == old(self._retry_count) + 1")
    c.ensures("waiters-released", "self._drain_waiter.done()")


@contract(MOD + ":MessageBatch.reset_drain", "C01")
def _(c):
    c.self_("MessageBatch")
    c.modifies("self._drain_waiter")
    c.raises("not-drained", "AssertionError", when="not self._drain_waiter.done()", ensures=[("no-effect", "unchanged(self)")], exact=True)
    c.ensures("fresh-waiter", "fresh(self._drain_waiter) and not self._drain_waiter.done()")


@contract(MOD + ":MessageBatch.set_producer_state", "C01")
def _(c):
    c.self_("MessageBatch")
    c.param("producer_id", INT)
    c.param("producer_epoch", INT)
    c.param("base_sequence", INT)
    c.modifies("self._builder.g_pid", "self._builder.g_epoch", "self._builder.g_seq", "self._builder.g_stamps")
    c.raises("already-drained", "AssertionError", when="self._drain_waiter.done()", ensures=[("no-effect", "unchanged(self._builder)")], exact=True)
    c.ensures("stamped", "self._builder.g_pid == producer_id and self._builder.g_epoch == producer_epoch"
              " and self._builder.g_seq == base_sequence and self._builder.g_stamps == old(self._builder.g_stamps) + 1")


@contract(MOD + ":MessageBatch.is_empty", ["C01", "C02"])
def _(c):
    c.self_("MessageBatch")
    c.returns(BOOL)
    c.ensures("def", "result == (self._builder._relative_offset == 0)")


# ---- spec helpers -----------------------------------------------------------------------------
@specfn("is_record_future")
def is_record_future(ex, st, batch, r):
    """r is one of the batch's per-record futures (entry-state list; the list itself is never changed by done*)."""
    import z3
    from pyvc import ty as T
    base = ex.spec_old if ex.spec_old is not None else ex.entry
    lst = V(List(PAIR), z3.Select(ex.hmap(base, "MessageBatch", "_msg_futures"), batch.t))
    j = z3.FreshConst(INT.sort(), "j")
    el = V(PAIR, z3.Select(T.list_arr(lst), j))
    return V(BOOL, z3.Exists([j], z3.And(j >= 0, j < T.list_len(lst), T.tup_get(el, 0).t == r.t)))


@specfn("some_int")
def some_int(ex, st, v):
    from pyvc import ty as T
    return T.coerce(v, Opt(INT))


@specfn("old_ts")
def old_ts(ex, st):
    """the `timestamp` argument as passed by the caller (the loop body re-assigns the local)."""
    return ex.entry.env["timestamp"]
