"""C12 — aiokafka/conn.py: the idle timer of a connection (AIOKafkaConnection._idle_check).

C12 "each request's waiter receives the response carrying its correlation id ... A correlation mismatch, malformed frame or
transport loss closes the connection and fails every outstanding waiter": those three are the only reasons for which a
waiter may be failed by its connection. The idle timer is the one other caller of close() inside the connection; it may
drop the connection only when no request is in flight (a request older than max_idle_ms is request_timeout_ms' business),
otherwise a waiter whose reply is on its way over a healthy transport gets a connection error instead of its reply."""
from pyvc.contract import contract, classmodel, specfn, SPEC_TYPES, CLASSES
from pyvc.ty import V, INT, BOOL, REAL, STR, NONE, EXC, BYTES, Opt, Tup, List, Set, Dict, Ref, Opaque
from pyvc.exec_base import Fut
from . import conn as CN
from .conn_read import OCONN

MOD = CN.MOD
CLASSES["Conn"].fields.update({"_max_idle_ms": Opt(INT), "_loop": Ref("LoopObj")})
classmodel("LoopObj", {})
CLOSE_MODS = ["Conn._writer", "Conn._reader", "Conn._read_task", "Conn._requests", "Conn._on_close_cb", "Conn.g_closes",
              "Future.state", "Future.nres", "Future.exc", "Handle.cancelled"]


@contract(MOD + ":AIOKafkaConnection._idle_check", ["C12"])
def _(c):
    c.param("self_ref", Ref("WeakRef"))
    c.none_raises = True
    c.no_class_inv = True
    c.ghost("$last", OCONN, "no_conn()")
    c.ghost("$asked", BOOL, "False")
    c.ghost("$dropped", BOOL, "False")
    c.ghost("$rearmed", BOOL, "False")
    c.call("self_ref", returns=OCONN, ghost={"$last": "result", "$asked": "True"},
           note="weakref call: the connection object, or None once it has been garbage collected")
    c.call("time.monotonic", returns=REAL, note="clock")
    c.call("self.close", returns=Opt(Fut(NONE)), raises=[], modifies=CLOSE_MODS,
           note="AIOKafkaConnection.close (under contract, conn.py: fails every pending waiter with KafkaConnectionError)")
    c.call("self._loop.call_later", returns=Ref("Handle"), post=["fresh(result)", "not result.cancelled"], ghost={"$rearmed": "True"},
           note="loop.call_later: a new timer handle")
    c.modifies("Conn._idle_handle", *CLOSE_MODS)
    c.raises("idle-time-not-configured", "TypeError")
    c.hook("before", "self.close", [
        ("assert", "an-idle-drop-never-fails-a-request-in-flight", "len(self._requests) == 0"),
        ("assert", "closed-as-an-idle-drop", "a0 == CloseReason.IDLE_DROP"),
        ("set", "$dropped", "True"),
    ])
    c.hook("before", "self._loop.call_later", [
        ("assert", "the-next-check-is-this-check-for-this-connection", "a2 == self_ref"),
    ])
    c.ensures_internal("a-live-connection-is-either-dropped-as-idle-or-checked-again",
                       "$asked and implies($last is not None, $dropped != $rearmed)")
    c.replay_fn = lambda model, ob=None: {"script": _IDLE_SCRIPT}


# replay: a real AIOKafkaConnection over an in-memory reader, max_idle_ms long exceeded, one request in flight whose reply
# arrives right after the idle check ran: the waiter must get its reply
_IDLE_SCRIPT = '''
import asyncio, struct, logging, weakref
logging.disable(logging.CRITICAL)
from unittest import mock
from aiokafka.conn import AIOKafkaConnection
from aiokafka.protocol.metadata import MetadataRequest, MetadataResponse_v0

async def scenario(in_flight):
    conn = AIOKafkaConnection("h", 9092, max_idle_ms=100)
    reader = asyncio.StreamReader()
    writer = mock.MagicMock()
    conn._reader, conn._writer = reader, writer
    conn._versions = {3: (0, 0)}
    conn._read_task = conn._create_reader_task()
    futs = [asyncio.ensure_future(conn.send(MetadataRequest([]))) for _ in range(in_flight)]
    await asyncio.sleep(0)
    conn._last_action -= 1000.0                 # idle (by the clock) for far longer than max_idle_ms
    AIOKafkaConnection._idle_check(weakref.ref(conn))
    if conn._idle_handle is not None:
        conn._idle_handle.cancel()
    out = []
    if in_flight == 0:
        if conn._reader is not None:
            out.append("an idle connection without requests was not dropped")
    else:
        if conn._reader is None:
            out.append("idle check closed a connection with %d request(s) in flight" % in_flight)
        body = MetadataResponse_v0([], []).encode()
        for cid in [r[0] for r in conn._requests]:
            payload = struct.pack(">i", cid) + body
            reader.feed_data(struct.pack(">i", len(payload)) + payload)
        done, pending = await asyncio.wait(futs, timeout=1.0)
        for k, f in enumerate(futs):
            if f in pending:
                out.append("waiter %d left pending" % k)
            elif f.exception() is not None:
                out.append("waiter %d got %r instead of its reply" % (k, f.exception()))
    conn.close()
    for f in futs:
        if not f.done():
            f.cancel()
    await asyncio.sleep(0)
    return out

async def main():
    bad = []
    for n in (0, 1, 3):
        r = await scenario(n)
        if r: bad.append("in flight %d: %s" % (n, r))
    return bad
bad = asyncio.run(main())
VIOLATED = bool(bad); DETAIL = "; ".join(bad)
'''
