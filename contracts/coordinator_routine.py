"""C19 / C04 — aiokafka/consumer/group_coordinator.py: GroupCoordinator.__coordination_routine, the body of the
coordination task.

C19 "stop() always terminates": GroupCoordinator.close() resolves self._closing and then awaits this task. That the task
ends is a liveness fact; the safety discipline behind it is decided here: every wait of this routine that has no time
bound of its own also waits for self._closing (first completed), the loop is left as soon as _closing is resolved, and
nothing but the final commit follows the loop.
C04 "by the final commit on stop()": when the routine ends with an assignment in hand, the last auto-commit is attempted
for exactly that assignment (what it commits is the _maybe_do_last_autocommit contract)."""
from pyvc.contract import contract, classmodel, specfn, SPEC_TYPES, CLASSES
from pyvc.ty import V, INT, BOOL, REAL, STR, NONE, EXC, BYTES, Opt, Tup, List, Set, Dict, Ref, Opaque
from pyvc.exec_base import Fut
from . import coordinator_commit_path, coordinator_rebalance, close_paths, coordinator_rejoin      # noqa: F401

MOD = "aiokafka.consumer.group_coordinator"
TASK = Fut(NONE)
CLASSES["Subscription"].fields["unsubscribe_future"] = Fut(NONE)


SPEC_TYPES["SUBSCRIPTION"] = Ref("Subscription")
CLASSES["Subscription"].fields["g_manual"] = BOOL          # ghost: a ManualSubscription (assign()), fixed at construction
# What the application's calls (subscribe/assign/unsubscribe, any number of them, at any suspension of this task) keep true.
# Assumed after every await of the routine, listed in the evidence; each is what the named mutators establish:
RELY = [
    # Subscription._assign replaces the assignment by a new, active one; an assignment is retired only there and by
    # _unsubscribe, which retires the subscription with it
    ("an-active-subscriptions-assignment-is-active",
     "forall(SUBSCRIPTION, lambda s: implies(s.g_active and s._assignment is not None, not s._assignment.unassign_future.done()))"),
    # SubscriptionState._change_subscription / unsubscribe retire the subscription they replace or drop
    ("only-the-current-subscription-is-active",
     "forall(SUBSCRIPTION, lambda s: implies(s.g_active, self._subscription._subscription is not None"
     " and s == self._subscription._subscription))"),
    # ManualSubscription.__init__ builds its assignment; nothing ever removes it
    ("a-manual-subscription-always-has-its-assignment",
     "forall(SUBSCRIPTION, lambda s: implies(s.g_manual, s._assignment is not None))"),
]
# (two-state: what a suspension cannot change)
RELY2 = [("a-subscriptions-kind-never-changes", "forall(SUBSCRIPTION, lambda s: s.g_manual == old(s.g_manual))")]


@contract(MOD + ":GroupCoordinator.__coordination_routine", ["C19", "C04", "C13", "C06"])
def _(c):
    c.self_("GroupCoordinator")
    for lbl, e in RELY:
        c.requires(e, lbl)
        c.rely(e, lbl)
    for lbl, e in RELY2:
        c.rely(e, lbl)
    # C13 "When a partition is (re)assigned the consumer starts at the group's committed offset", C06 "the member does not
    # disturb [the group]": both are this task's work - it starts the committed-offset refresh for every new assignment and
    # keeps the membership. It checks its own view of the subscription with `assert`s; whatever the application calls while
    # the task is suspended, none of them may fail: an AssertionError ends the task for good ("Unexpected error during
    # coordination"), and nothing fetches committed offsets, heartbeats or commits afterwards
    c.never_raises("AssertionError")
    c.local("subscription", Opt(Ref("Subscription")))
    c.local("assignment", Opt(Ref("Assignment")))
    c.local("new_assignment", Opt(Ref("Assignment")))
    c.local("futures", List(Fut(NONE)))
    c.local("wait_timeout", Opt(REAL))
    c.none_raises = True
    c.owns("self._closing", "self._subscription", "self._client")
    c.ghost("$last_commit_for", Opt(Ref("Assignment")), "no_assignment()")
    c.call("self.request_rejoin", modifies=["Future.state", "Future.nres"], note="request_rejoin (under contract, C06)")
    c.call("self._subscription.wait_for_subscription", returns=Fut(NONE), post=["fresh(result)"],
           note="a future resolved by the next subscribe()/assign()")
    c.call("self._subscription.partitions_auto_assigned", returns=BOOL,
           post=["implies(self._subscription._subscription is not None, result == (not self._subscription._subscription.g_manual))"],
           note="SubscriptionState.partitions_auto_assigned: whether the current subscription is by topics/pattern (not a manual one)")
    c.call("asyncio.wait", returns=Tup(Set(TASK), Set(TASK)), havoc_all=True, raises=["CancelledError"],
           kwargs=["return_when", "timeout"], nargs=1,
           note="asyncio.wait(futures, timeout=..., return_when=FIRST_COMPLETED): suspends until one of them is done or the timeout")
    c.call("self.ensure_coordinator_known", havoc_all=True, raises=["KafkaError", "CancelledError"], note="suspends until a coordinator is known")
    c.call("self.need_rejoin", returns=BOOL, post=["result == (a0._assignment is None or self._rejoin_needed_fut.done())"],
           note="GroupCoordinator.need_rejoin (under contract, zz_small.py, with this postcondition)")
    c.call("self.ensure_active_group", returns=Opt(Ref("Assignment")), havoc_all=True, raises=["KafkaError", "CancelledError"],
           note="ensure_active_group (under contract, coordinator_rejoin.py): one rejoin attempt")
    c.call("self._maybe_do_autocommit", returns=Opt(REAL), havoc_all=True, raises=["KafkaError", "CancelledError"],
           note="_maybe_do_autocommit (under contract, C04): commits when due, returns the time to the next deadline")
    c.call("self._push_error_to_user", returns=Ref("WaitCoroutine"), post=["fresh(result)"],
           modifies=["GroupCoordinator._pending_exception", "GroupCoordinator._error_consumed_fut"],
           note="_push_error_to_user (under contract, close_paths.py: the wait it returns also waits for _closing)")
    c.call("self._maybe_do_last_autocommit", havoc_all=True, raises=["KafkaError", "CancelledError"],
           note="_maybe_do_last_autocommit (under contract, C04)")
    c.hook("before", "self._maybe_do_last_autocommit", [("set", "$last_commit_for", "some_assignment(a0)")])
    c.call("task.exception", returns=Opt(EXC), note="Task.exception() of a finished helper task")
    c.modifies("GroupCoordinator._pending_exception", "GroupCoordinator._error_consumed_fut", "Future.state", "Future.nres")
    c.raises("unexpected-error-or-cancelled", "BaseException")
    c.loop(0, header="while not self._closing.done()", invariants=[])
    c.loop(1, header="for task in *", invariants=[])
    WAKES = "fut_listed(a0, self._closing) and kw_return_when == asyncio.FIRST_COMPLETED"
    c.hook("before", "asyncio.wait", [
        ("assert", "every-wait-of-the-coordination-task-is-also-a-wait-for-close", WAKES),
    ])
    c.replay_fn = lambda model, ob=None: {"script": _RESUBSCRIBE_SCRIPT}
    c.ensures_internal("ends-only-when-closing",
                       "self._closing.done()")
    c.ensures_internal("the-final-commit-is-attempted-for-the-assignment-in-hand",
                       "implies(assignment is not None, $last_commit_for == assignment)")


@specfn("fut_listed")
def fut_listed(ex, st, lst, x):
    """x occurs in the list: written out for the first eight positions (quantifier-free for the short literal lists the
    routine builds, so that a missing future is refuted with a model instead of leaving the solver undecided), with
    the general existential kept for longer lists"""
    import z3
    from pyvc import ty as T
    arr, ln = T.list_arr(lst), T.list_len(lst)
    k = z3.FreshConst(T.INT.sort(), "kf")
    first = [z3.And(T.intval(i).t < ln, z3.Select(arr, T.intval(i).t) == x.t) for i in range(8)]
    rest = z3.And(ln > T.intval(8).t, z3.Exists([k], z3.And(T.intval(8).t <= k, k < ln, z3.Select(arr, k) == x.t)))
    return V(BOOL, z3.Or(first + [rest]))


@specfn("no_assignment")
def no_assignment(ex, st):
    from pyvc import ty as T
    return T.opt_none(Opt(Ref("Assignment")))


@specfn("some_assignment")
def some_assignment(ex, st, a):
    from pyvc import ty as T
    ty = Opt(Ref("Assignment"))
    if isinstance(a.ty, Opt):
        return V(ty, a.t)
    return T.opt_some(ty, V(Ref("Assignment"), a.t))


# replay: a real GroupCoordinator over a mocked client; the application changes the subscription while the coordination task
# is suspended (waiting for a subscription / looking the coordinator up); the task must still be running afterwards
_RESUBSCRIBE_SCRIPT = '''
import asyncio, logging
logging.disable(logging.CRITICAL)
from unittest import mock
from aiokafka.consumer.group_coordinator import GroupCoordinator
from aiokafka.consumer.subscription_state import SubscriptionState
from aiokafka.structs import TopicPartition
def manual(s, t): s.assign_from_user({TopicPartition(t, 0)})
def auto(s, t): s.subscribe({t})
async def scenario(first, change, lookup_blocks):
    subs = SubscriptionState()
    subs.register_fetch_waiters(set())
    client = mock.MagicMock()
    gate = asyncio.Event()
    async def lookup(*a, **k):
        if lookup_blocks: await gate.wait()
        return 0
    client.coordinator_lookup = lookup
    async def ready(*a, **k): return True
    client.ready = ready
    async def send(*a, **k): await asyncio.sleep(3600)
    client.send = send
    client.cluster.partitions_for_topic = lambda t: {0}
    async def nothing(*a, **k): return None
    client._maybe_wait_metadata = nothing
    client.set_topics = lambda *a, **k: asyncio.get_running_loop().create_future()
    if first is not None: first(subs, "a")
    coord = GroupCoordinator(client, subs, group_id="g", enable_auto_commit=False)
    await asyncio.sleep(0.02)          # the task is suspended: no subscription yet, or the coordinator lookup is in flight
    change(subs)
    gate.set()
    await asyncio.sleep(0.1)
    t = coord._coordination_task
    res = None
    if t.done() and not t.cancelled() and t.exception() is not None:
        res = "%r" % t.exception()
    t.cancel()
    for x in (coord._heartbeat_task, coord._commit_refresh_task):
        if x is not None: x.cancel()
    await asyncio.sleep(0)
    return res
async def main():
    bad = []
    fresh = {"subscribe();unsubscribe()": lambda s: (auto(s, "b"), s.unsubscribe()),
             "assign();unsubscribe()": lambda s: (manual(s, "b"), s.unsubscribe()),
             "subscribe();unsubscribe();assign()": lambda s: (auto(s, "b"), s.unsubscribe(), manual(s, "c"))}
    later = {"unsubscribe();assign()": lambda s: (s.unsubscribe(), manual(s, "b")),
             "unsubscribe();subscribe()": lambda s: (s.unsubscribe(), auto(s, "b")),
             "unsubscribe();subscribe();unsubscribe()": lambda s: (s.unsubscribe(), auto(s, "b"), s.unsubscribe()),
             "unsubscribe()": lambda s: s.unsubscribe()}
    for fname, first in (("nothing", None), ("assign", manual), ("subscribe", auto)):
        for cname, change in (fresh if first is None else later).items():
            r = await scenario(first, change, first is not None)
            if r: bad.append("after %s, then %s while the task was suspended: the coordination task ended with %s" % (fname, cname, r))
    return bad
bad = asyncio.run(main())
VIOLATED = bool(bad)
DETAIL = "%d schedules: %r" % (len(bad), bad[:3]) if bad else "ok"
'''
