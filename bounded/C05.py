"""C05 — bounded stand-in beside the proofs (never counted as proved). The proofs cover what a member does with the
assignment it is *sent* (adoption, revocation order, staleness checks). The first sentence of the statement also speaks of
what is *distributed*: "pairwise disjoint, containing only partitions of topics the member subscribed to" - that is the
leader's assignor. The three real assignors are run over the validity half of C14's box (3..4 members x 3 topics x 0..2
partitions x every non-empty subscription): every distributed assignment must be valid."""
import argparse
import json
import logging
logging.disable(logging.CRITICAL)
import multiprocessing as mp

from bounded.assign_common import assignors, run, check_valid, box


def emit(d):
    print("BOUNDED " + json.dumps(d, default=str))


def _chunk(args):
    name, cases = args
    A = assignors()[name]
    n, fails = 0, []
    for parts, subs in cases:
        n += 1
        try:
            errs = check_valid(parts, subs, run(A, parts, subs))
        except Exception as e:
            errs = ["raised %s: %s" % (type(e).__name__, e)]
        if errs and len(fails) < 5:
            fails.append({"assignor": name, "partitions": parts, "subscriptions": subs, "errors": errs[:3]})
    return n, fails


def sweep(max_members, max_parts, jobs=16):
    cases = [c for c in box(max_members, ["ta", "tb", "tc"], max_parts, include_no_metadata=False) if len(c[1]) >= 2]
    n, fails = 0, []
    with mp.Pool(jobs) as pool:
        for name in ("range", "roundrobin", "sticky"):
            step = max(1, len(cases) // (jobs * 2))
            for a, f in pool.imap_unordered(_chunk, [(name, cases[i:i + step]) for i in range(0, len(cases), step)]):
                n += a
                fails.extend(f)
    return n, fails[:10]


def main():
    ap = argparse.ArgumentParser()
    ap.add_argument("--tier", default="quick")
    ap.add_argument("--seed", type=int, default=0)
    a = ap.parse_args()
    mm, mp_ = (3, 2) if a.tier == "quick" else (4, 3)
    n, fails = sweep(mm, mp_)
    emit({"name": "distributed-assignments-are-valid", "exhaustive": True, "cases": n, "distinct_nontrivial": n,
          "bound": "range, round-robin and sticky assignor over 2..%d members x 3 topics x 0..%d partitions x every multiset of "
                   "non-empty subscriptions: pairwise disjoint, subscribed topics only, every partition of a subscribed topic "
                   "assigned" % (mm, mp_),
          "failures": fails, "replay": {"script": REPLAY}})


REPLAY = '''
import sys
sys.path.insert(0, "/verif")
from bounded import C05
n, fails = C05.sweep(3, 2, jobs=8)
VIOLATED = bool(fails); DETAIL = "%d groups, invalid distributed assignment: %r" % (n, fails[:1])
'''

if __name__ == "__main__":
    main()
