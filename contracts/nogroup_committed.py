"""C13 — aiokafka/consumer/group_coordinator.py: NoGroupCoordinator._reset_committed_routine.

"... the consumer starts at the group's committed offset if one exists; otherwise ... [the reset policy applies]",
quantified over "group and group-less consumers". A group-less consumer has no committed offsets: every partition that
asks for its committed offset is told UNKNOWN_OFFSET, so that Fetcher._update_fetch_positions (under contract) applies
auto_offset_reset. The routine must answer exactly the partitions that are waiting, with exactly that value."""
from pyvc.contract import contract, classmodel, specfn, SPEC_TYPES, CLASSES
from pyvc.ty import V, INT, BOOL, REAL, STR, NONE, EXC, BYTES, Opt, Tup, List, Set, Dict, Ref, Opaque
from pyvc.exec_base import Fut
from .common import TP, tupctor
from .subscription_state import OAM
from . import subscription_state, coordinator_commits, coordinator_commit_path, fetcher_handout      # noqa: F401

MOD = "aiokafka.consumer.group_coordinator"
classmodel("NoGroupCoordinator", {"_subscription": Ref("SubscriptionState")}, real=MOD + ":NoGroupCoordinator")
TASK = Fut(NONE)


@contract(MOD + ":NoGroupCoordinator._reset_committed_routine", ["C13", "C19"])
def _(c):
    c.self_("NoGroupCoordinator")
    c.owns("self._subscription")
    c.none_raises = True
    c.local("event_waiter", Opt(TASK))
    c.bind("OffsetAndMetadata", tupctor(OAM))
    c.call("self._subscription.wait_for_subscription", returns=Fut(NONE), post=["fresh(result)"],
           note="a future resolved by the next subscribe()/assign()")
    c.call("self._subscription.wait_for_assignment", returns=Fut(NONE), post=["fresh(result)"],
           note="a future resolved by the next assignment")
    c.call("commit_refresh_needed.clear", modifies=["Event.g_set"], note="asyncio.Event.clear()")
    c.call("commit_refresh_needed.wait", returns=Ref("WaitCoroutine"), post=["fresh(result)"], note="coroutine of asyncio.Event.wait()")
    # C19 "no task ... created by that client is still alive": the waiter task the routine creates per round is the only task
    # it owns; $w is the last one created
    c.ghost("$w", Opt(TASK), "None")
    c.ghost("$ev", Opt(Ref("Event")), "None")
    c.call("create_task", returns=TASK, post=["fresh(result)", "not result.done()"], ghost={"$w": "result"}, note="asyncio task creation")
    c.call("asyncio.wait", returns=Tup(Set(TASK), Set(TASK)), havoc_all=True, raises=["CancelledError"],
           note="asyncio.wait([unassign_future, event_waiter], FIRST_COMPLETED): suspends")
    c.modifies("TPState._committed_futs", "Event.g_set", "Future.state", "Future.nres", "Future.res", "Future.exc")
    c.raises("an-unexpected-error", "BaseException")
    # NoGroupCoordinator.close() cancels this task and awaits it unguarded: the cancellation must end it quietly
    c.never_raises("CancelledError")
    c.loop(0, header="while True", invariants=[
        ("no-waiter-task-of-an-earlier-round-is-left-running", "$w is None or $w.done()")])
    c.hook("before", "create_task", [
        ("assert", "a-new-waiter-task-only-when-the-last-one-has-ended", "$w is None or $w.done()")])
    # C13: the round ends when the assignment it serves ends (seek/assign/unsubscribe replace it: the next round serves the
    # new one) or when one of that assignment's partitions asks for its committed offset - not on anything else
    c.hook("before", "asyncio.wait", [
        ("assert", "waits-for-the-end-of-the-assignment-it-serves-and-for-its-requests",
         "len(a0) == 2 and a0[0] == assignment.unassign_future and a0[1] == event_waiter and event_waiter == $w"
         " and assignment == self._subscription._subscription.assignment"
         " and commit_refresh_needed == assignment.commit_refresh_needed"),
    ])
    c.ensures_internal("no-waiter-task-is-left-running-when-the-routine-ends", "$w is None or $w.done()")
    c.replay_fn = lambda model, ob=None: {"script": _NOGROUP_SCRIPT}
    c.loop(1, header="for tp in assignment.requesting_committed()", invariants=[])
    c.hook("before", "tp_state.update_committed", [
        ("assert", "a-group-less-consumer-has-nothing-committed",
         "a0 == OffsetAndMetadata(UNKNOWN_OFFSET, '')"),
        ("assert", "answers-the-waiters-of-that-partition-of-the-current-assignment",
         "tp in assignment._tp_state and tp_state == assignment._tp_state[tp] and assignment == self._subscription._subscription.assignment"),
    ])


# replay: a real NoGroupCoordinator over a real SubscriptionState: several rounds of requests, the assignment replaced within
# the same subscription, then close(); every request must be answered UNKNOWN_OFFSET and no task may be left behind
_NOGROUP_SCRIPT = '''
import asyncio, logging
logging.disable(logging.CRITICAL)
from unittest import mock
from aiokafka.consumer.group_coordinator import NoGroupCoordinator
from aiokafka.consumer.subscription_state import SubscriptionState
from aiokafka.structs import TopicPartition
async def main():
    bad = []
    subs = SubscriptionState()
    client = mock.MagicMock()
    client.cluster.partitions_for_topic = lambda t: {0, 1}
    before = set(asyncio.all_tasks())
    coord = NoGroupCoordinator(client, subs)
    t0, t1 = TopicPartition("t", 0), TopicPartition("t", 1)
    async def ask(tp, what):
        fut = subs.subscription.assignment.state_value(tp).fetch_committed()
        try:
            r = await asyncio.wait_for(fut, 1.0)
        except asyncio.TimeoutError:
            bad.append("%s: the committed offset of %s was never served" % (what, tp)); return
        if r.offset != -1:
            bad.append("%s: %s was told the committed offset %r" % (what, tp, r.offset))
    subs.subscribe({"t"})
    subs.assign_from_subscribed({t0})
    for i in range(3):
        await ask(t0, "round %d" % i)
    subs.assign_from_subscribed({t0, t1})          # the assignment is replaced, the subscription stays
    await asyncio.sleep(0)
    await ask(t1, "after the assignment was replaced")
    await ask(t0, "after the assignment was replaced")
    await coord.close()
    await asyncio.sleep(0); await asyncio.sleep(0)
    left = [t for t in asyncio.all_tasks() if t not in before and t is not asyncio.current_task() and not t.done()]
    if left:
        bad.append("%d tasks still alive after close(): %r" % (len(left), [str(t.get_coro()) for t in left][:3]))
    for t in left:
        t.cancel()
    return bad
bad = asyncio.run(main())
VIOLATED = bool(bad)
DETAIL = "group-less committed-offset routine: %r" % (bad[:3],) if bad else "ok"
'''


# ------------------------------------------------------------------ GroupCoordinator._commit_refresh_routine
@contract(MOD + ":GroupCoordinator._commit_refresh_routine", ["C13", "C19"])
def _(c):
    """the per-assignment task that refreshes the committed offsets on demand. _stop_commit_offsets_refresh_task cancels it
    and awaits it unguarded (close(), rejoin): wherever the cancellation lands the routine must end quietly"""
    c.self_("GroupCoordinator")
    c.param("assignment", Ref("Assignment"))
    c.no_class_inv = True
    c.none_raises = True
    c.local("event_waiter", Opt(TASK))
    c.local("wait_futures", List(TASK))
    c.local("timeout", Opt(REAL))
    c.owns("self._retry_backoff_ms")
    c.call("self._maybe_refresh_commit_offsets", returns=BOOL, havoc_all=True, raises=["KafkaError", "CancelledError"],
           note="GroupCoordinator._maybe_refresh_commit_offsets (under contract, coordinator_commits.py): suspends")
    c.call("commit_refresh_needed.clear", modifies=["Event.g_set"], note="asyncio.Event.clear()")
    c.call("commit_refresh_needed.set", modifies=["Event.g_set"], note="asyncio.Event.set()")
    c.call("commit_refresh_needed.wait", returns=Ref("WaitCoroutine"), post=["fresh(result)"], note="coroutine of asyncio.Event.wait()")
    c.call("create_task", returns=TASK, post=["fresh(result)", "not result.done()"], note="asyncio task creation")
    c.call("asyncio.wait", returns=Tup(Set(TASK), Set(TASK)), havoc_all=True, raises=["CancelledError"],
           note="asyncio.wait([unassign_future(, event_waiter)], timeout, FIRST_COMPLETED): suspends")
    c.modifies("Event.g_set", "Future.state", "Future.nres", "Future.res", "Future.exc", "TPState._committed_futs", "TPState._committed")
    c.raises("a-refresh-error-for-the-coordination-routine", "Exception")
    c.never_raises("CancelledError")
    c.loop(0, header="while assignment.active", invariants=[])
