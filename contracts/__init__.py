"""Sidecar contracts, one module per /repo module under contract."""
import importlib
import pkgutil


def load_all():
    import contracts
    for m in pkgutil.iter_modules(contracts.__path__):
        importlib.import_module("contracts." + m.name)
