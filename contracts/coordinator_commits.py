"""C13 / C04 — aiokafka/consumer/group_coordinator.py: committed-offset refresh (what a new owner starts from) and
the commit requests of GroupCoordinator; Assignment.requesting_committed."""
import z3
from pyvc import ty as T
from pyvc.contract import contract, classmodel, specfn, SPEC_TYPES, CLASSES
from pyvc.ty import V, INT, BOOL, REAL, STR, NONE, EXC, BYTES, Opt, Tup, List, Set, Dict, Ref, Opaque
from pyvc.exec_base import Fut, PyThing
from .common import TP, tp_ctor, tupctor
from .subscription_state import OAM
from . import subscription_state, fetcher_positions     # noqa: F401

MOD = "aiokafka.consumer.group_coordinator"
SMOD = "aiokafka.consumer.subscription_state"

classmodel("CoordClient", {})
classmodel("Lock", {})
classmodel("GroupCoordinator", {
    "_client": Ref("CoordClient"),
    "group_id": STR, "generation": INT, "member_id": STR, "coordinator_id": Opt(INT),
    "_enable_auto_commit": BOOL, "_auto_commit_interval_ms": INT, "_retry_backoff_ms": INT,
    "_next_autocommit_deadline": REAL,
    "_commit_lock": Ref("Lock"),
}, real=MOD + ":GroupCoordinator")

# OffsetFetchResponse (v1+ layout used here): topics: [(topic, [(partition, offset, metadata, error_code)])]
OFPART = Tup(INT, INT, STR, INT)
# v2+ (KIP-88) adds a group-level error_code after the topics: the broker reports COORDINATOR_LOAD_IN_PROGRESS,
# NOT_COORDINATOR, GROUP_AUTHORIZATION_FAILED there, with an EMPTY topic list (kafka: OffsetFetchRequest.getErrorResponse)
classmodel("OffsetFetchResponse", {"topics": List(Tup(STR, List(OFPART))), "API_VERSION": INT, "error_code": INT})
classmodel("OffsetFetchRequestObj", {"g_group": STR, "g_topics": List(Tup(STR, List(INT)))})


# ------------------------------------------------------------------ Assignment.requesting_committed
@contract(SMOD + ":Assignment.requesting_committed", ["C13", "C04"])
def _(c):
    c.self_("Assignment")
    c.returns(List(TP))
    c.local("requesting", List(TP))
    c.loop(0, header="for tp in self._topic_partitions", invariants=[
        ("only-partitions-with-a-waiter", "forall(lambda k: implies(0 <= k < len(requesting), requesting[k] in self._tp_state"
         " and len(self._tp_state[requesting[k]]._committed_futs) > 0))"),
        ("every-visited-partition-with-a-waiter", "forall(TP, lambda q: implies(q in $done and len(self._tp_state[q]._committed_futs) > 0,"
         " exists(lambda k: 0 <= k < len(requesting) and requesting[k] == q)))"),
    ])
    c.ensures("exactly-the-assigned-partitions-with-a-pending-committed-offset-waiter",
              "forall(lambda k: implies(0 <= k < len(result), result[k] in self._tp_state and len(self._tp_state[result[k]]._committed_futs) > 0))"
              " and forall(TP, lambda q: implies(q in self._topic_partitions and len(self._tp_state[q]._committed_futs) > 0,"
              " exists(lambda k: 0 <= k < len(result) and result[k] == q)))")


# ------------------------------------------------------------------ GroupCoordinator._maybe_refresh_commit_offsets
@contract(MOD + ":GroupCoordinator._maybe_refresh_commit_offsets", ["C13", "C04"])
def _(c):
    c.self_("GroupCoordinator")
    c.param("assignment", Ref("Assignment"))
    c.returns(BOOL)
    c.local("need_update", List(TP))
    c.local("offsets", Dict(TP, OAM))
    c.bind("OffsetAndMetadata", tupctor(OAM))
    c.ghost("$asked", List(TP), "no_partitions()")          # the partitions the OffsetFetch request was sent for
    c.owns("self._client")
    c.none_raises = True
    c.call("self._do_fetch_commit_offsets", returns=Dict(TP, OAM), havoc_all=True, raises=["KafkaError", "CancelledError"],
           post=["forall(TP, lambda q: implies(q in result, result[q].offset != UNKNOWN_OFFSET))"],
           note="_do_fetch_commit_offsets (under contract itself): the group's committed offsets for the partitions asked; "
                "a partition without a committed offset is absent")
    c.modifies("TPState._committed_futs", "Future.state", "Future.nres", "Future.res")
    c.raises("non-retriable-lookup-error-or-cancelled", "BaseException")
    c.loop(0, header="for tp in *", invariants=[("asked-list-fixed", "need_update == $asked")])
    c.hook("before", "self._do_fetch_commit_offsets", [
        ("assert", "asks-for-the-partitions-that-are-waiting", "a0 == need_update"),
        ("set", "$asked", "a0"),
    ])
    # a partition is answered only from the response to a request that named it: "no committed offset"
    # (UNKNOWN_OFFSET -> the reset policy applies) may only be concluded for a partition that was asked for
    c.hook("before", "tp_state.update_committed", [
        ("assert", "only-partitions-the-request-named-are-answered", "exists(lambda k: 0 <= k < len($asked) and $asked[k] == tp)"),
        ("assert", "answered-with-the-groups-committed-offset-else-unknown",
         "a0 == ite(tp in offsets, offsets[tp], OffsetAndMetadata(UNKNOWN_OFFSET, ''))"),
        ("assert", "answers-the-waiters-of-that-partition", "tp_state == assignment._tp_state[tp]"),
    ])

    @c.replay
    def replay(model, ob=None):
        return {"script": _REFRESH_SCRIPT}


@specfn("no_partitions")
def no_partitions(ex, st):
    ty = List(TP)
    return T.list_mk(ty, z3.K(z3.IntSort(), z3.Const("tp_dummy", TP.sort())), T.intval(0).t)


# ------------------------------------------------------------------ GroupCoordinator._do_fetch_commit_offsets
@contract(MOD + ":GroupCoordinator._do_fetch_commit_offsets", ["C13", "C04"])
def _(c):
    c.self_("GroupCoordinator")
    c.param("partitions", List(TP))
    c.returns(Dict(TP, OAM))
    c.local("partitions_by_topic", Dict(STR, List(INT), default="list"))
    c.local("offsets", Dict(TP, OAM))
    c.bind("OffsetAndMetadata", tupctor(OAM))
    c.bind("TopicPartition", tp_ctor)
    c.owns("self._client", "self.group_id", "OffsetFetchResponse.*")
    c.call("OffsetFetchRequest", returns=Ref("OffsetFetchRequestObj"), post=["fresh(result)", "result.g_group == a0"],
           note="OffsetFetchRequest(group_id, topics) builder object (wire form: bounded C11)")
    c.ghost("$reply", Opt(Ref("OffsetFetchResponse")), "no_of_reply()")
    c.call("self._send_req", returns=Ref("OffsetFetchResponse"), havoc_all=True, raises=["KafkaError", "CancelledError"],
           post=["fresh(result)", "1 <= result.API_VERSION <= 3"], ghost={"$reply": "some_of_reply(result)"},
           note="sends to the group coordinator and returns the decoded response (OffsetFetch v1..v3, the versions "
                "OffsetFetchRequestStruct lists)")
    c.call("self.coordinator_dead", modifies=["self_.coordinator_id", "Future.state", "Future.nres"],
           note="marks the coordinator unknown")
    c.modifies("self.coordinator_id", "Future.state", "Future.nres")
    c.raises("lookup-failed", "BaseException")
    c.loop(0, header="for tp in partitions", invariants=[])
    NOUNK = ("no-unknown-offset-is-reported-as-committed", "forall(TP, lambda q: implies(q in offsets, offsets[q].offset != UNKNOWN_OFFSET))")
    c.loop(1, header="for topic, topic_partitions in response.topics", invariants=[NOUNK])
    c.loop(2, header="for partition, offset, metadata, error_code in topic_partitions", invariants=[NOUNK])
    c.hook("before", "partitions_by_topic*.append", [
        ("assert", "request-names-the-partition-under-its-topic", "a0 == tp.partition"),
    ])
    c.hook("before", "OffsetFetchRequest", [
        ("assert", "asks-this-consumers-group", "a0 == self.group_id"),
    ])
    c.hook("before", "OffsetAndMetadata", [
        ("assert", "committed-offset-taken-verbatim-from-an-error-free-entry",
         "error_type == Errors.NoError and a0 == offset and a1 == metadata and offset != UNKNOWN_OFFSET"
         " and tp == TopicPartition(topic, partition)"),
    ])
    c.ensures("no-unknown-offset-is-reported-as-committed", "forall(TP, lambda q: implies(q in result, result[q].offset != UNKNOWN_OFFSET))")
    # "starts at the group's committed offset if one exists": the caller reads a partition absent from the result as
    # "nothing committed -> the reset policy applies", so a normal return is only allowed for a response that carries
    # no group-level error; since v2 such an error comes with an empty topic list and would otherwise be read as
    # "nothing committed" for every partition asked
    c.ensures_internal("a-group-level-error-is-never-read-as-nothing-committed",
                       "$reply is not None and implies($reply.API_VERSION >= 2,"
                       " Errors.for_code($reply.error_code) == Errors.NoError)")

    @c.replay
    def replay(model, ob=None):
        return {"script": _OFFSET_FETCH_SCRIPT}


# replay for _do_fetch_commit_offsets: real OffsetFetchResponse_v1..v3 objects, as a broker answers them (group-level
# errors of v2+ come with an empty topic list), through the real function; committed offsets exist for both partitions
_OFFSET_FETCH_SCRIPT = '''
import asyncio, logging
logging.disable(logging.CRITICAL)
from aiokafka.consumer.group_coordinator import GroupCoordinator
from aiokafka.protocol.commit import OffsetFetchResponse_v1, OffsetFetchResponse_v2, OffsetFetchResponse_v3
from aiokafka.structs import TopicPartition
from aiokafka import errors as Errors

async def main():
    bad = []
    tps = [TopicPartition("t", 0), TopicPartition("t", 1)]
    full = [("t", [(0, 4, "", 0), (1, 7, "", 0)])]
    for code in (0, 14, 16, 30, 15):
        for ver in (1, 2, 3):
            if ver == 1:
                if code != 0:
                    continue
                resp = OffsetFetchResponse_v1(full)
            elif ver == 2:
                resp = OffsetFetchResponse_v2(full if code == 0 else [], code)
            else:
                resp = OffsetFetchResponse_v3(0, full if code == 0 else [], code)
            class C: pass
            coord = C()
            coord.group_id = "g"
            coord.dead = 0
            async def _send_req(request, resp=resp):
                return resp
            coord._send_req = _send_req
            coord.coordinator_dead = lambda coord=coord: setattr(coord, "dead", coord.dead + 1)
            try:
                res = await GroupCoordinator._do_fetch_commit_offsets(coord, tps)
            except Errors.KafkaError as e:
                if code == 0:
                    bad.append("v%d error-free response raised %r" % (ver, e))
                continue
            if code != 0:
                bad.append("OffsetFetch v%d answered with group-level error %s (%d) and no topics; "
                           "_do_fetch_commit_offsets returned %r = nothing committed for %r (the group has 4 and 7 committed)"
                           % (ver, Errors.for_code(code).__name__, code, res, tps))
            elif {tp: o.offset for tp, o in res.items()} != {tps[0]: 4, tps[1]: 7}:
                bad.append("v%d: %r" % (ver, res))
    return bad
bad = asyncio.run(main())
VIOLATED = bool(bad); DETAIL = repr(bad)
'''


@specfn("no_of_reply")
def no_of_reply(ex, st):
    return T.opt_none(Opt(Ref("OffsetFetchResponse")))


@specfn("some_of_reply")
def some_of_reply(ex, st, r):
    return T.opt_some(Opt(Ref("OffsetFetchResponse")), V(Ref("OffsetFetchResponse"), r.t))


# replay for _maybe_refresh_commit_offsets: a second partition asks for its committed offset while the OffsetFetch
# for the first one is in flight; it must not be told "nothing committed" from a response that never named it
_REFRESH_SCRIPT = '''
import asyncio, logging
logging.disable(logging.CRITICAL)
from aiokafka.consumer.group_coordinator import GroupCoordinator
from aiokafka.consumer.subscription_state import SubscriptionState
from aiokafka.structs import TopicPartition, OffsetAndMetadata

async def main():
    bad = []
    for late in (False, True):
        subs = SubscriptionState()
        t0, t1 = TopicPartition("t", 0), TopicPartition("t", 1)
        subs.assign_from_user({t0, t1})
        assignment = subs.subscription.assignment
        s0, s1 = assignment.state_value(t0), assignment.state_value(t1)
        committed = {t0: OffsetAndMetadata(4, ""), t1: OffsetAndMetadata(7, "")}
        f0 = s0.fetch_committed()
        late_fut = []
        asked = []
        class C: pass
        coord = C()
        async def _do_fetch_commit_offsets(partitions):
            asked.append(list(partitions))
            await asyncio.sleep(0)
            if late:
                late_fut.append(s1.fetch_committed())      # t1 asks while the request for [t0] is in flight
            return {tp: committed[tp] for tp in partitions}
        coord._do_fetch_commit_offsets = _do_fetch_commit_offsets
        ok = await GroupCoordinator._maybe_refresh_commit_offsets(coord, assignment)
        if not (f0.done() and f0.result().offset == 4):
            bad.append("late=%s: t-0 answered %r, committed is 4" % (late, f0.result() if f0.done() else None))
        if late:
            f1 = late_fut[0]
            if f1.done() and f1.result().offset != 7:
                bad.append("t-1 asked while OffsetFetch%r was in flight and was answered %r; the group has 7 committed" % (asked, f1.result()))
    return bad
bad = asyncio.run(main())
VIOLATED = bool(bad); DETAIL = repr(bad)
'''
