"""C06 — aiokafka/consumer/group_coordinator.py: CoordinatorGroupRebalance (JoinGroup / SyncGroup exchange of one
rejoin) and the small state helpers of GroupCoordinator it uses."""
import z3
from pyvc import ty as T
from pyvc.contract import contract, classmodel, specfn, SPEC_TYPES, CLASSES
from pyvc.ty import V, INT, BOOL, REAL, STR, NONE, EXC, BYTES, Opt, Tup, List, Set, Dict, Ref, Opaque
from pyvc.exec_base import Fut, PyThing
from .common import TP
from . import coordinator_commits, coordinator_commit_path, fetcher_handout     # noqa: F401

MOD = "aiokafka.consumer.group_coordinator"
META = Opaque("ProtocolMetadata")                    # encoded member metadata of one assignor
PROTO = Tup(STR, META)
ASSIGNMENT_BYTES = Opaque("AssignmentBytes")

G = CLASSES["GroupCoordinator"].fields
G.update({"_rejoin_needed_fut": Fut(NONE), "_coordinator_dead_fut": Fut(NONE), "_group_instance_id": Opt(STR),
          "_rebalance_timeout_ms": INT})
classmodel("AssignorCls", {"name": STR})
CLASSES["Subscription"].fields["g_active"] = BOOL
CLASSES["Subscription"].props["active"] = "self.g_active"
CLASSES["Subscription"].fields["g_topics"] = Opaque("TopicSet")
CLASSES["Subscription"].props["topics"] = "self.g_topics"
classmodel("Rebalance", {
    "_coordinator": Ref("GroupCoordinator"), "group_id": STR, "coordinator_id": Opt(INT),
    "_subscription": Ref("Subscription"), "_assignors": List(Ref("AssignorCls")),
    "_session_timeout_ms": INT, "_rebalance_timeout_ms": INT, "_retry_backoff_ms": INT,
}, real=MOD + ":CoordinatorGroupRebalance")
classmodel("JoinGroupRequestObj", {"g_member_id": STR, "g_protocols": List(PROTO)})
classmodel("JoinGroupResponse", {"error_code": INT, "member_id": STR, "generation_id": INT, "group_protocol": STR,
                                 "leader_id": STR, "API_VERSION": INT})
classmodel("SyncGroupRequestObj", {"g_generation": INT, "g_member_id": STR})
classmodel("SyncGroupResponse", {"error_code": INT, "member_assignment": ASSIGNMENT_BYTES})


# ------------------------------------------------------------------ GroupCoordinator state helpers
@contract(MOD + ":GroupCoordinator.request_rejoin", ["C06"])
def _(c):
    c.self_("GroupCoordinator")
    c.modifies("self._rejoin_needed_fut.state", "self._rejoin_needed_fut.nres")
    c.ensures("rejoin-is-pending-afterwards", "self._rejoin_needed_fut.done() and self._rejoin_needed_fut == old(self._rejoin_needed_fut)")


@contract(MOD + ":GroupCoordinator.reset_generation", ["C06"])
def _(c):
    c.self_("GroupCoordinator")
    c.modifies("self.generation", "self.member_id", "self._rejoin_needed_fut.state", "self._rejoin_needed_fut.nres")
    c.ensures("identity-forgotten-and-rejoin-pending",
              "self.generation == OffsetCommitRequest.DEFAULT_GENERATION_ID and self.member_id == JoinGroupRequest.UNKNOWN_MEMBER_ID"
              " and self._rejoin_needed_fut.done() and self._rejoin_needed_fut == old(self._rejoin_needed_fut)")


classmodel("HeartbeatRequestObj", {})
classmodel("HeartbeatResponse", {"error_code": INT})


@contract(MOD + ":GroupCoordinator._do_heartbeat", ["C06"])
def _(c):
    c.self_("GroupCoordinator")
    c.returns(BOOL)
    c.ghost("$reply", Opt(Ref("HeartbeatResponse")), "no_hb_reply()")
    c.owns("self._client", "self.group_id", "HeartbeatResponse.*")
    c.call("HeartbeatRequest", returns=Ref("HeartbeatRequestObj"), post=["fresh(result)"], note="HeartbeatRequest builder object")
    c.call("self._send_req", returns=Ref("HeartbeatResponse"), havoc_all=True, raises=["KafkaError", "CancelledError"],
           post=["fresh(result)"], ghost={"$reply": "some_hb_reply(result)"},
           note="sends to the group coordinator and returns the decoded Heartbeat response")
    c.call("self.coordinator_dead", modifies=["self_.coordinator_id", "Future.state", "Future.nres"], note="marks the coordinator unknown")
    c.modifies("self.coordinator_id", "self.generation", "self.member_id", "Future.state", "Future.nres")
    c.raises("authorization-or-unexpected-error-or-cancelled", "BaseException")
    c.hook("before", "HeartbeatRequest", [
        ("assert", "heartbeat-carries-the-current-identity", "a0 == self.group_id and a1 == self.generation and a2 == self.member_id"),
    ])
    # the member does not disturb its own membership: each state change needs the error code that calls for it;
    # in particular a successful heartbeat changes nothing and requests no rejoin
    CODE = "$reply is not None and Errors.for_code($reply.error_code)"
    c.hook("before", "self.coordinator_dead", [
        ("assert", "coordinator-dropped-only-when-the-broker-says-so",
         CODE + " == Errors.GroupCoordinatorNotAvailableError or " + CODE + " == Errors.NotCoordinatorForGroupError"),
    ])
    c.hook("before", "self.request_rejoin", [
        ("assert", "rejoin-requested-only-when-the-group-is-rebalancing", CODE + " == Errors.RebalanceInProgressError"),
    ])
    c.hook("before", "self.reset_generation", [
        ("assert", "identity-dropped-only-when-the-broker-rejects-it",
         CODE + " == Errors.IllegalGenerationError or " + CODE + " == Errors.UnknownMemberIdError"),
    ])
    c.ensures_internal("alive-only-on-success-or-during-a-rebalance",
                       "implies(result, $reply is not None and (Errors.for_code($reply.error_code) == Errors.NoError"
                       " or Errors.for_code($reply.error_code) == Errors.RebalanceInProgressError))")
    c.ensures_internal("a-rebalancing-group-leaves-a-rejoin-pending",
                       "implies($reply is not None and Errors.for_code($reply.error_code) == Errors.RebalanceInProgressError,"
                       " self._rejoin_needed_fut.done())")
    c.ensures_internal("a-rejected-identity-is-forgotten-and-a-rejoin-is-pending",
                       "implies($reply is not None and (Errors.for_code($reply.error_code) == Errors.IllegalGenerationError"
                       " or Errors.for_code($reply.error_code) == Errors.UnknownMemberIdError),"
                       " not result and self._rejoin_needed_fut.done() and self.member_id == JoinGroupRequest.UNKNOWN_MEMBER_ID"
                       " and self.generation == OffsetCommitRequest.DEFAULT_GENERATION_ID)")


@specfn("no_hb_reply")
def no_hb_reply(ex, st):
    return T.opt_none(Opt(Ref("HeartbeatResponse")))


@specfn("some_hb_reply")
def some_hb_reply(ex, st, r):
    return T.opt_some(Opt(Ref("HeartbeatResponse")), V(Ref("HeartbeatResponse"), r.t))


# ------------------------------------------------------------------ JoinGroup
ADVERTISES_ALL = ("len(a6) == len(self._assignors) and forall(lambda k: implies(0 <= k < len(self._assignors),"
                  " a6[k][0] == self._assignors[k].name))")


@contract(MOD + ":CoordinatorGroupRebalance.perform_group_join", ["C06"])
def _(c):
    c.self_("Rebalance")
    c.returns(Opt(Tup(STR, Opt(ASSIGNMENT_BYTES))))
    c.local("metadata_list", List(PROTO))
    c.local("metadata", META)
    c.local("error_type", EXC)
    c.local("response", Ref("JoinGroupResponse"))
    c.local("try_join", BOOL)
    c.local("request", Ref("JoinGroupRequestObj"))
    c.local("group_protocol", PROTO)
    c.requires("len(self._assignors) >= 1", "at-least-one-assignor-configured")
    c.ghost("$join_granted", BOOL, "False")             # a JoinGroup reply with NoError has been received by this call
    c.ghost("$sent", BOOL, "False")                     # some JoinGroup has been answered
    c.ghost("$last_reply", Opt(Ref("JoinGroupResponse")), "no_reply()")
    # (a decoded response object is never mutated: its fields are stable across awaits)
    c.owns("self._coordinator", "self._subscription", "self._assignors", "self.group_id", "AssignorCls.name",
           "self._coordinator._group_instance_id", "JoinGroupResponse.*")
    c.call("assignor.metadata", returns=META, note="the assignor's member metadata for the subscribed topics")
    c.call("metadata.encode", returns=META, note="Struct.encode(): bytes of the metadata")
    c.call("isinstance", returns=BOOL, note="type test on the metadata object")
    c.call("JoinGroupRequest", returns=Ref("JoinGroupRequestObj"),
           post=["fresh(result)", "result.g_member_id == a3", "result.g_protocols == a6"],
           note="JoinGroupRequest builder object: stores its arguments (wire form: bounded C11)")
    c.call("self._coordinator._send_req", returns=Ref("JoinGroupResponse"), havoc_all=True, raises=["KafkaError", "CancelledError"],
           post=["fresh(result)"], ghost={"$join_granted": "$join_granted or for_code_is_noerror(result.error_code)",
                                          "$sent": "True", "$last_reply": "some_reply(result)"},
           note="sends to the group coordinator and returns the decoded JoinGroup response")
    c.call("self._on_join_leader", returns=Opt(ASSIGNMENT_BYTES), havoc_all=True, raises=["KafkaError", "CancelledError"],
           note="_on_join_leader: assignment + leader SyncGroup")
    c.call("self._on_join_follower", returns=Opt(ASSIGNMENT_BYTES), havoc_all=True, raises=["KafkaError", "CancelledError"],
           note="_on_join_follower (under contract): follower SyncGroup")
    c.call("self._coordinator.coordinator_dead", modifies=["GroupCoordinator.coordinator_id", "Future.state", "Future.nres"],
           note="marks the coordinator unknown")
    c.call("asyncio.sleep", havoc_all=True, raises=["CancelledError"], note="suspends")
    c.modifies("GroupCoordinator.member_id", "GroupCoordinator.generation", "GroupCoordinator.coordinator_id",
               "Future.state", "Future.nres")
    c.raises("fatal-group-error-or-cancelled", "BaseException")
    LISTED = ("protocols-so-far-in-configured-order", "len(metadata_list) == $i and forall(lambda k: implies(0 <= k < len(metadata_list),"
              " metadata_list[k][0] == self._assignors[k].name))")
    c.loop(0, header="for assignor in self._assignors", invariants=[LISTED, ("no-join-sent-yet", "not $join_granted and not $sent")])
    c.loop(1, header="while try_join", invariants=[
        ("all-protocols-listed", "len(metadata_list) == len(self._assignors) and forall(lambda k: implies(0 <= k < len(metadata_list),"
         " metadata_list[k][0] == self._assignors[k].name))"),
        ("a-granted-join-ends-the-loop", "implies($join_granted, not try_join)"),
        ("loop-ends-only-after-a-reply", "implies(not try_join, $sent)"),
        ("locals-describe-the-last-reply", "implies($sent, $last_reply is not None and response == $last_reply"
         " and error_type == Errors.for_code(response.error_code)"
         " and $join_granted == (response.error_code == 0))"),
    ])
    c.hook("before", "JoinGroupRequest", [
        ("assert", "every-join-advertises-all-configured-assignors-in-order", ADVERTISES_ALL),
        ("assert", "no-second-join-after-a-granted-one", "not $join_granted"),
        ("assert", "join-carries-the-current-member-id", "a3 == self._coordinator.member_id and a0 == self.group_id"),
    ])
    # ... and what is *sent* is such a request: built for the identity the coordinator has now (after MEMBER_ID_REQUIRED the
    # retry carries the id the broker handed out - a request object kept from before the reply does not)
    c.hook("before", "self._coordinator._send_req", [
        ("assert", "the-join-sent-carries-the-member-id-the-coordinator-has-now", "a0.g_member_id == self._coordinator.member_id"),
        ("assert", "the-join-sent-advertises-the-protocols-listed", "a0.g_protocols == metadata_list"),
    ])
    # a granted join is followed by this member's SyncGroup under the identity the reply assigned
    SYNC_ID = ("sync-follows-under-the-identity-the-reply-assigned", "$join_granted and self._coordinator.member_id == response.member_id"
               " and self._coordinator.generation == response.generation_id")
    c.hook("before", "self._on_join_leader", [("assert",) + SYNC_ID])
    c.hook("before", "self._on_join_follower", [("assert",) + SYNC_ID])

    @c.replay
    def replay(model, ob=None):
        return {"script": _JOIN_SCRIPT}


_JOIN_SCRIPT = '''
import sys
sys.path.insert(0, "/verif")
from specs import join_replay
bad = join_replay.sweep()
VIOLATED = bool(bad); DETAIL = "%d problem(s) in the group-request traces; first: %r" % (len(bad), bad[:2])
'''


@specfn("no_reply")
def no_reply(ex, st):
    return T.opt_none(Opt(Ref("JoinGroupResponse")))


@specfn("some_reply")
def some_reply(ex, st, r):
    return T.opt_some(Opt(Ref("JoinGroupResponse")), V(Ref("JoinGroupResponse"), r.t))


@specfn("for_code_is_noerror")
def for_code_is_noerror(ex, st, code):
    return V(BOOL, code.t == T.intval(0).t)


# ------------------------------------------------------------------ SyncGroup
def _sync_models(c):
    c.self_("Rebalance")
    c.owns("self._coordinator", "self.group_id", "self._coordinator._group_instance_id")
    c.call("SyncGroupRequest", returns=Ref("SyncGroupRequestObj"),
           post=["fresh(result)", "result.g_generation == a1", "result.g_member_id == a2"],
           note="SyncGroupRequest builder object: stores its arguments (wire form: bounded C11)")


@contract(MOD + ":CoordinatorGroupRebalance._on_join_follower", ["C06"])
def _(c):
    _sync_models(c)
    c.returns(Opt(ASSIGNMENT_BYTES))
    c.modifies("GroupCoordinator._rejoin_needed_fut", "GroupCoordinator.member_id", "GroupCoordinator.generation",
               "GroupCoordinator.coordinator_id", "Future.state", "Future.nres")
    c.raises("group-error-or-cancelled", "BaseException")
    c.hook("before", "SyncGroupRequest", [
        ("assert", "sync-carries-the-generation-and-member-id-just-joined-with",
         "a0 == self.group_id and a1 == self._coordinator.generation and a2 == self._coordinator.member_id"),
    ])
    c.hook("before", "self._send_sync_group_request", [
        ("assert", "identity-unchanged-between-build-and-send", "a0.g_generation == self._coordinator.generation"
         " and a0.g_member_id == self._coordinator.member_id"),
    ])


@contract(MOD + ":CoordinatorGroupRebalance._send_sync_group_request", ["C06"])
def _(c):
    c.self_("Rebalance")
    c.param("request", Ref("SyncGroupRequestObj"))
    c.returns(Opt(ASSIGNMENT_BYTES))
    c.ghost("$armed", Opt(Fut(NONE)), "none_fut()")
    # other tasks resolve the rejoin future (request_rejoin) but never replace it: the reference is this activation's
    c.owns("self._coordinator", "self._coordinator._rejoin_needed_fut", "self.group_id")
    c.call("self._coordinator._send_req", returns=Ref("SyncGroupResponse"), havoc_all=True, raises=["KafkaError", "CancelledError"],
           post=["fresh(result)"], note="sends to the group coordinator and returns the decoded SyncGroup response")
    c.call("self._coordinator.coordinator_dead", modifies=["GroupCoordinator.coordinator_id", "Future.state", "Future.nres"],
           note="marks the coordinator unknown")
    c.modifies("GroupCoordinator._rejoin_needed_fut", "GroupCoordinator.member_id", "GroupCoordinator.generation",
               "GroupCoordinator.coordinator_id", "Future.state", "Future.nres")
    c.raises("fatal-group-error-or-cancelled", "BaseException")
    c.hook("before", "self._coordinator._send_req", [
        ("assert", "rejoin-trigger-re-armed-before-the-request-leaves",
         "fresh(self._coordinator._rejoin_needed_fut) and not self._coordinator._rejoin_needed_fut.done()"),
        ("set", "$armed", "some_fut(self._coordinator._rejoin_needed_fut)"),
    ])
    # whatever asks for a rejoin while the SyncGroup is in flight (metadata change, failed commit, heartbeat error)
    # resolves the future armed above; it must still be the coordinator's rejoin trigger when the sync returns
    c.ensures_internal("a-rejoin-requested-during-the-sync-is-not-lost",
              "$armed is not None and self._coordinator._rejoin_needed_fut == $armed")
    c.ensures("a-failed-sync-leaves-a-rejoin-pending", "implies(result is None, self._coordinator._rejoin_needed_fut.done())")
    # the same, said about this function's own calls (a clause the solver decides at once also on changed code): whatever the
    # error of the SyncGroup reply - also one that only means "look the coordinator up again" - the member asks for a rejoin;
    # otherwise a member that re-joined keeps its stale assignment and, its heartbeat task stopped, is never heard of again
    c.ghost("$rejoin_asked", BOOL, "False")
    c.hook("before", "self._coordinator.request_rejoin", [("set", "$rejoin_asked", "True")])
    c.hook("before", "self._coordinator.reset_generation", [("set", "$rejoin_asked", "True")])
    c.ensures_internal("every-failed-sync-asks-for-a-rejoin", "implies(result is None, $rejoin_asked)")
    c.ensures("a-successful-sync-keeps-the-identity-it-was-sent-with",
              "implies(result is not None, self._coordinator.generation == old(self._coordinator.generation)"
              " and self._coordinator.member_id == old(self._coordinator.member_id))")

    @c.replay
    def replay(model, ob=None):
        return {"script": _JOIN_SCRIPT}


@specfn("none_fut")
def none_fut(ex, st):
    return T.opt_none(Opt(Fut(NONE)))


@specfn("some_fut")
def some_fut(ex, st, f):
    return T.opt_some(Opt(Fut(NONE)), V(Fut(NONE), f.t))


# ------------------------------------------------------------------ CoordinatorGroupRebalance._on_join_leader
classmodel("MemberAssignmentObj", {})
MEMBER_ASSIGNMENT = Ref("MemberAssignmentObj")


@specfn("encoded_assignment")
def encoded_assignment(ex, st, a):
    """ConsumerProtocolMemberAssignment.encode(): the wire form, a function of the object (round trip: C11's stand-in)"""
    import z3
    f = z3.Function("encoded_assignment", a.t.sort(), ASSIGNMENT_BYTES.sort())
    return V(ASSIGNMENT_BYTES, f(a.t))


@contract(MOD + ":CoordinatorGroupRebalance._on_join_leader", ["C05", "C06"])
def _(c):
    """C05 "the assignments members adopt are exactly the ones distributed for that generation": the leader sends, for every
    member the assignor produced an assignment for, exactly that assignment, and nothing for anybody else; C06: under the
    generation and member id the JoinGroup reply assigned (kept by the coordinator)"""
    c.self_("Rebalance")
    c.param("response", Ref("JoinGroupResponse"))
    c.returns(Opt(ASSIGNMENT_BYTES))
    c.no_class_inv = True
    c.none_raises = True
    GA = Dict(STR, MEMBER_ASSIGNMENT)
    c.local("group_assignment", GA)
    c.local("assignment_req", List(Tup(STR, ASSIGNMENT_BYTES)))
    c.owns("self._coordinator", "self.group_id")
    c.call("self._coordinator._perform_assignment", returns=GA, havoc_all=True, raises=["Exception", "CancelledError"],
           note="GroupCoordinator._perform_assignment: runs the chosen assignor over the members' metadata (bounded C14/C15)")
    c.call("repr", returns=STR, note="text of the error")
    c.call("isinstance", returns=BOOL, post=["not result"], note="assignor results are ConsumerProtocolMemberAssignment objects, not bytes")
    c.call("assignment.encode", returns="encoded_assignment(assignment)", note="wire form of one member's assignment")
    c.call("SyncGroupRequest", returns=Ref("SyncGroupRequestObj"), post=["fresh(result)", "result.g_generation == a1", "result.g_member_id == a2"],
           note="SyncGroupRequest builder object (wire form: bounded C11)")
    c.call("self._send_sync_group_request", returns=Opt(ASSIGNMENT_BYTES), havoc_all=True, raises=["KafkaError", "CancelledError"],
           note="_send_sync_group_request (under contract)")
    c.raises("assignment-failed-or-cancelled", "BaseException")
    c.loop(0, header="for member_id, assignment in group_assignment.items()", invariants=[
        ("every-entry-is-a-visited-members-own-assignment",
         "forall(lambda j: implies(0 <= j < len(assignment_req), assignment_req[j][0] in $done"
         " and assignment_req[j][1] == encoded_assignment(group_assignment[assignment_req[j][0]])))"),
        ("every-visited-member-has-an-entry",
         "forall(STR, lambda m: implies(m in $done, exists(lambda j: 0 <= j < len(assignment_req) and assignment_req[j][0] == m)))"),
    ])
    c.hook("before", "SyncGroupRequest", [
        ("assert", "sync-carries-the-identity-the-join-reply-assigned",
         "a0 == self.group_id and a1 == self._coordinator.generation and a2 == self._coordinator.member_id"),
        ("assert", "every-entry-is-that-members-own-assignment",
         "forall(lambda j: implies(0 <= j < len(a4), a4[j][0] in group_assignment"
         " and a4[j][1] == encoded_assignment(group_assignment[a4[j][0]])))"),
        ("assert", "every-member-the-assignor-served-gets-its-assignment",
         "forall(STR, lambda m: implies(m in group_assignment, exists(lambda j: 0 <= j < len(a4) and a4[j][0] == m)))"),
    ])


# replay: the real _on_join_leader over a stub coordinator whose assignor served 1, 3 and 20 members
_LEADER_SYNC_SCRIPT = '''
import asyncio, logging, types
logging.disable(logging.CRITICAL)
from aiokafka.consumer.group_coordinator import CoordinatorGroupRebalance
from aiokafka.coordinator.protocol import ConsumerProtocolMemberAssignment

async def one(n):
    group = {"m%02d" % i: ConsumerProtocolMemberAssignment(0, [("t", [i])], b"") for i in range(n)}
    coord = types.SimpleNamespace(generation=7, member_id="m00", _group_instance_id=None, _rebalance_timeout_ms=1000)
    async def perform(response):
        return group
    coord._perform_assignment = perform
    reb = CoordinatorGroupRebalance.__new__(CoordinatorGroupRebalance)
    reb._coordinator, reb.group_id, reb.coordinator_id = coord, "g", 1
    sent = []
    async def send_sync(request):
        sent.append(request); return b""
    reb._send_sync_group_request = send_sync
    await reb._on_join_leader(types.SimpleNamespace())
    req = sent[0]
    got = dict(req._group_assignment) if hasattr(req, "_group_assignment") else None
    if got is None:
        for name in vars(req):
            v = getattr(req, name)
            if isinstance(v, list) and v and isinstance(v[0], tuple):
                got = dict(v)
    want = {m: a.encode() for m, a in group.items()}
    if got != want:
        missing = sorted(set(want) - set(got or {}))
        wrong = sorted(m for m in (got or {}) if m in want and got[m] != want[m])
        return "group of %d: SyncGroup lacks the assignment of %r, carries another member's for %r" % (n, missing[:3], wrong[:3])
    return None

async def main():
    return [r for r in [await one(1), await one(3), await one(20)] if r]
bad = asyncio.run(main())
VIOLATED = bool(bad); DETAIL = "; ".join(bad)
'''
from pyvc.contract import REGISTRY as _RR
_RR[MOD + ":CoordinatorGroupRebalance._on_join_leader"].replay_fn = lambda model, ob=None: {"script": _LEADER_SYNC_SCRIPT}
