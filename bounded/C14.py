"""C14 — bounded stand-in (never counted as proved): the real range / round-robin / sticky assignors over the
property's own exhaustive space (members x topics x 0..P partitions or no metadata x every non-empty
subscription, up to member renaming) plus seeded random groups; checked against valid_assignment and the
balance clauses of the statement."""
import argparse
import logging
logging.disable(logging.CRITICAL)
import json
import multiprocessing as mp
import random
import time

from bounded.assign_common import assignors, run, check_valid, check_balance, box, random_case


def emit(d):
    print("BOUNDED " + json.dumps(d, default=str))


def _chunk(args):
    name, cases = args
    A = assignors()[name]
    fails, n, nontrivial = [], 0, 0
    for parts, subs in cases:
        n += 1
        try:
            res = run(A, parts, subs)
            errs = check_valid(parts, subs, res) + check_balance(name, parts, subs, res)
        except Exception as e:
            errs = ["raised %s: %s" % (type(e).__name__, e)]
        if len(subs) > 1 and sum(v or 0 for v in parts.values()) > 1:
            nontrivial += 1
        if errs:
            fails.append({"assignor": name, "partitions": parts, "subscriptions": subs, "errors": errs[:3]})
            if len(fails) >= 5:
                break
    return n, nontrivial, fails


def sweep(name, cases, jobs):
    cases = list(cases)
    step = max(1, len(cases) // (jobs * 4))
    chunks = [(name, cases[i:i + step]) for i in range(0, len(cases), step)]
    n = nontrivial = 0
    fails = []
    with mp.Pool(jobs) as pool:
        for a, b, f in pool.imap_unordered(_chunk, chunks):
            n += a
            nontrivial += b
            fails.extend(f)
    return n, nontrivial, fails[:10]


def main():
    ap = argparse.ArgumentParser()
    ap.add_argument("--tier", default="quick")
    ap.add_argument("--seed", type=int, default=0)
    a = ap.parse_args()
    topics = ["ta", "tb", "tc"]
    if a.tier == "quick":
        bm, bp, nrand = 3, 3, 300        # 3 members x 3 topics x 0..3 partitions (+ no metadata)
    else:
        bm, bp, nrand = 4, 4, 5000       # the property's full box
    cases = list(box(bm, topics, bp))
    rnd = random.Random(a.seed)
    rcases = [random_case(rnd) for _ in range(nrand)]
    for name in ("range", "roundrobin", "sticky"):
        t0 = time.time()
        n, nontrivial, fails = sweep(name, cases, 16)
        emit({"name": "%s-box" % name, "exhaustive": True, "cases": n, "distinct_nontrivial": nontrivial,
              "bound": "every group of <= %d members (up to renaming) x topics %s x 0..%d partitions or no metadata x every "
                       "non-empty subscription per member" % (bm, topics, bp),
              "failures": fails, "wall_s": round(time.time() - t0, 1),
              "replay": {"script": REPLAY % (name, bm, bp)}})
        n, nontrivial, fails = sweep(name, rcases, 16)
        emit({"name": "%s-random" % name, "exhaustive": False, "cases": n, "distinct_nontrivial": nontrivial,
              "bound": "%d seeded random groups up to 12 members x 8 topics x 12 partitions, seed %d" % (nrand, a.seed),
              "failures": fails, "replay": {"script": REPLAY % (name, 3, 3)}})


REPLAY = '''
import sys
sys.path.insert(0, "/verif")
from bounded.assign_common import assignors, run, check_valid, check_balance, box
name, bm, bp = %r, %d, %d
A = assignors()[name]
bad = None
for parts, subs in box(min(bm, 3), ["ta", "tb", "tc"], min(bp, 3)):
    try:
        res = run(A, parts, subs)
        errs = check_valid(parts, subs, res) + check_balance(name, parts, subs, res)
    except Exception as e:
        errs = ["raised %%s: %%s" %% (type(e).__name__, e)]
    if errs:
        bad = (parts, subs, errs[:2]); break
VIOLATED = bad is not None
DETAIL = "%%s assignor on partitions=%%r subscriptions=%%r: %%r" %% ((name,) + bad) if bad else "ok"
'''

if __name__ == "__main__":
    main()
