"""C12 — aiokafka/conn.py: putting a request on the wire (AIOKafkaConnection.send).

C12 "each request's waiter receives the response carrying its correlation id ... in request order": the reader matches each
incoming frame against the HEAD of the waiter queue (_handle_frame, under contract), so the queue must hold exactly the
requests that are on the wire, in the order they were written. send() therefore queues a waiter only for a request whose
bytes have been handed to the transport, under the correlation id written into those bytes; a request that could not be
serialised or written (ValueError / struct.error from encode(), OSError from write()) leaves no waiter behind - a phantom
waiter would be given the next request's reply and the mismatch would close a healthy connection."""
from pyvc.contract import contract, classmodel, specfn, SPEC_TYPES, CLASSES
from pyvc.ty import V, INT, BOOL, REAL, STR, NONE, EXC, BYTES, Opt, Tup, List, Set, Dict, Ref, Opaque
from pyvc.exec_base import Fut
from . import conn as CN, conn_idle      # noqa: F401  (Conn._loop)

MOD = CN.MOD
classmodel("RequestBuilder", {})
classmodel("ReqHeader", {"g_cid": INT})
NO_NEW_WAITER = ("len(self._requests) <= len(old(self._requests)) and forall(lambda j: implies(0 <= j < len(self._requests),"
                 " self._requests[j] == old(self._requests)[j]))")
CLOSE_MODS = ["Conn._writer", "Conn._reader", "Conn._read_task", "Conn._requests", "Conn._on_close_cb", "Conn.g_closes",
              "Future.state", "Future.nres", "Future.exc", "Handle.cancelled"]


@contract(MOD + ":AIOKafkaConnection.send", ["C12"])
def _(c):
    c.self_("Conn")
    c.param("request", Ref("RequestBuilder"))
    c.param("expect_response", BOOL, default="True")
    c.returns(Opaque("Awaitable"))
    c.none_raises = True
    c.requires("0 <= self._correlation_id < 2**31", "correlation-counter-in-range")
    c.ghost("$written", BOOL, "False")
    c.ghost("$cid_on_the_wire", INT, "-1")
    c.call("request.prepare", returns=Ref("RequestObj"), raises=["Exception"],
           note="Request.prepare (under contract, C11): the request struct of the negotiated version")
    c.call("request_struct.build_request_header", returns=Ref("ReqHeader"), post=["result.g_cid == kw_correlation_id"],
           note="RequestStruct.build_request_header: a header object carrying the given correlation id")
    c.call("header.encode", returns=BYTES, raises=["Exception"], ghost={"$cid_on_the_wire": "header.g_cid"},
           note="header bytes (the correlation id inside); struct.error / ValueError for a field out of range")
    c.call("request_struct.encode", returns=BYTES, raises=["Exception"],
           note="body bytes; struct.error / ValueError for a field that does not fit its wire type")
    c.call("struct.pack", returns=BYTES, note="4-byte size prefix")
    c.call("self._writer.write", raises=["OSError"], ghost={"$written": "True"},
           note="StreamWriter.write: hands the bytes to the transport; OSError on a broken transport")
    c.call("self._writer.drain", returns=Opaque("Awaitable"), note="StreamWriter.drain(): an awaitable")
    c.call("self._loop.create_future", returns=Fut(None), post=["fresh(result)", "not result.done()"], note="a new pending future")
    c.call("wait_for", returns=Opaque("Awaitable"), note="aiokafka.util.wait_for(fut, timeout): the coroutine the caller awaits")
    c.call("self.close", returns=Opt(Fut(NONE)), raises=[], modifies=CLOSE_MODS,
           post=["len(self._requests) == 0 or self._requests == old(self._requests)"],
           note="AIOKafkaConnection.close (under contract, conn.py): fails and drops every waiter of an open connection")
    c.modifies("self._correlation_id", *CLOSE_MODS)
    c.raises("not-connected-unserialisable-or-broken-transport", "Exception",
             ensures=[("a-request-that-did-not-reach-the-wire-leaves-no-waiter-behind", NO_NEW_WAITER)])
    c.hook("before", "self._requests.append", [
        ("assert", "a-waiter-is-queued-only-for-a-request-already-handed-to-the-transport", "$written"),
        ("assert", "under-the-correlation-id-written-into-its-header", "a0[0] == $cid_on_the_wire and a0[1] == request_struct"),
    ])
    c.ensures("exactly-one-waiter-appended-when-a-reply-is-expected",
              "implies(expect_response, len(self._requests) == len(old(self._requests)) + 1"
              " and forall(lambda j: implies(0 <= j < len(old(self._requests)), self._requests[j] == old(self._requests)[j])))"
              " and implies(not expect_response, self._requests == old(self._requests))")
    c.replay_fn = lambda model, ob=None: {"script": _SEND_SCRIPT}


# replay: a real connection over an in-memory reader: request A, a request that builds but cannot be serialised (an offset
# of 2**63 in an Int64 field), request B; then the replies to A and B arrive: both waiters must get their own reply
_SEND_SCRIPT = '''
import asyncio, struct, logging
logging.disable(logging.CRITICAL)
from unittest import mock
from aiokafka.conn import AIOKafkaConnection
from aiokafka.protocol.metadata import MetadataRequest, MetadataResponse_v0
from aiokafka.protocol.commit import OffsetCommitRequest

async def main():
    bad = []
    conn = AIOKafkaConnection("h", 9092, request_timeout_ms=40000)
    reader = asyncio.StreamReader()
    conn._reader, conn._writer = reader, mock.MagicMock()
    conn._versions = {3: (0, 0), 8: (2, 2)}
    conn._read_task = conn._create_reader_task()
    fa = asyncio.ensure_future(conn.send(MetadataRequest([])))
    await asyncio.sleep(0)
    before = len(conn._requests)
    try:
        r = conn.send(OffsetCommitRequest("g", -1, "", -1, [("t", [(0, 2 ** 63, "")])]))
        if asyncio.iscoroutine(r) or asyncio.isfuture(r):
            asyncio.ensure_future(r).cancel()
        bad.append("a request with an offset of 2**63 was serialised?")
    except Exception:
        pass
    if len(conn._requests) != before:
        bad.append("a request that could not be serialised left a waiter in the queue (%d -> %d)" % (before, len(conn._requests)))
    fb = asyncio.ensure_future(conn.send(MetadataRequest([])))
    await asyncio.sleep(0)
    body = MetadataResponse_v0([], []).encode()
    for cid in [r[0] for r in conn._requests if r[1] is not None and type(r[1]).__name__.startswith("MetadataRequest")]:
        payload = struct.pack(">i", cid) + body
        reader.feed_data(struct.pack(">i", len(payload)) + payload)
    done, pending = await asyncio.wait([fa, fb], timeout=1.0)
    for name, f in (("A", fa), ("B", fb)):
        if f in pending:
            bad.append("waiter %s left pending" % name)
        elif f.exception() is not None:
            bad.append("waiter %s got %r instead of its reply" % (name, f.exception()))
    conn.close()
    for f in (fa, fb):
        if not f.done():
            f.cancel()
    await asyncio.sleep(0)
    return bad
bad = asyncio.run(main())
VIOLATED = bool(bad); DETAIL = "; ".join(bad)
'''
