#!/usr/bin/env python3
"""Confirm a seeded change in a scratch worktree of /repo (never in /repo itself) and run our
checks against it.

usage: tools/confirm_seeded.py <seeded-id> [--pids C01,C02] [--skip-suite]
  reads  /verif/seeded/<id>/patch.diff, demo.py, meta.json
  steps  1. fresh worktree of /repo HEAD (+ in-place extension build when .pyx/.pxd is touched)
         2. demo passes without the patch
         3. patch applies; existing suite still passes; demo fails
         4. ./vc check <pid> with PYVC_REPO=<worktree> for each property in meta["checks"]
  writes /verif/seeded/<id>/confirm.json ; removes the worktree
"""
import json
import os
import shutil
import subprocess
import sys
import tempfile
import time

ROOT = os.path.dirname(os.path.dirname(os.path.abspath(__file__)))
PY = "/venv/bin/python"


def sh(cmd, cwd=None, env=None, timeout=3600):
    p = subprocess.run(cmd, shell=True, cwd=cwd, env=env, capture_output=True, text=True, timeout=timeout)
    return p.returncode, (p.stdout + p.stderr)


def main():
    sid = sys.argv[1]
    skip_suite = "--skip-suite" in sys.argv
    d = os.path.join(ROOT, "seeded", sid)
    meta = json.load(open(os.path.join(d, "meta.json")))
    pids = meta.get("checks") or [meta["property"]]
    for a in sys.argv[2:]:
        if a.startswith("--pids"):
            pids = a.split("=", 1)[1].split(",")
    patch = os.path.join(d, "patch.diff")
    demo = os.path.join(d, "demo.py")
    wt = tempfile.mkdtemp(prefix="pyvc-seed-")
    res = {"id": sid, "when": time.strftime("%Y-%m-%d %H:%M:%S"), "repo_head": sh("git -C /repo rev-parse --short HEAD")[1].strip()}
    try:
        rc, out = sh("git -C /repo worktree add --detach -f %s HEAD" % wt)
        assert rc == 0, out
        native = any(x in open(patch).read() for x in (".pyx", ".pxd", ".pxi", "crc32c.c"))
        rc, out = sh("%s setup.py build_ext --inplace" % PY, cwd=wt)
        assert rc == 0, out[-2000:]
        shutil.copy(demo, os.path.join(wt, "demo_seeded.py"))
        env = dict(os.environ, PYTHONDONTWRITEBYTECODE="1")
        demo_cmd = "%s -m pytest -q -p no:cacheprovider demo_seeded.py" % PY
        rc0, out0 = sh(demo_cmd, cwd=wt, env=env)
        res["demo_without_patch"] = {"rc": rc0, "tail": out0.strip().splitlines()[-1:]}
        rc, out = sh("git apply %s" % patch, cwd=wt)
        res["patch_applies"] = rc == 0
        if rc != 0:
            res["apply_error"] = out[-1500:]
            raise SystemExit(2)
        if native:
            rc, out = sh("%s setup.py build_ext --inplace" % PY, cwd=wt)
            assert rc == 0, out[-2000:]
        if not skip_suite:
            rcs, outs = sh("%s -m pytest -q -p no:cacheprovider -x tests" % PY, cwd=wt, env=env)
            res["suite_with_patch"] = {"rc": rcs, "tail": outs.strip().splitlines()[-1:]}
        rc1, out1 = sh(demo_cmd, cwd=wt, env=env)
        res["demo_with_patch"] = {"rc": rc1, "tail": out1.strip().splitlines()[-1:]}
        res["checks"] = {}
        for pid in pids:
            e2 = dict(os.environ, PYVC_REPO=wt)
            t0 = time.time()
            rc, out = sh("./vc check %s --tier quick" % pid, cwd=ROOT, env=e2)
            lines = [l for l in out.splitlines() if l.startswith(("VIOLATION", "KNOWN-FINDING", "UNDECIDED", "CHECKER-ERROR", pid + ":"))]
            res["checks"][pid] = {"exit": rc, "lines": [l[:400] for l in lines][:12], "wall_s": round(time.time() - t0, 1)}
        res["confirmed"] = (rc0 == 0 and rc1 != 0 and (skip_suite or res["suite_with_patch"]["rc"] == 0))
        res["caught_by"] = [p for p, r in res["checks"].items() if r["exit"] == 1]
    finally:
        sh("git -C /repo worktree remove --force %s" % wt)
        shutil.rmtree(wt, ignore_errors=True)
        # evidence files were rewritten against the scratch tree: restore them from the real tree later
        json.dump(res, open(os.path.join(d, "confirm.json"), "w"), indent=1)
    print(json.dumps(res, indent=1))


if __name__ == "__main__":
    main()
