"""C06 / C19 — aiokafka/consumer/group_coordinator.py: the heartbeat task (GroupCoordinator._heartbeat_routine).

C06 "every live member reaches the group's latest generation and keeps heartbeating": a rejoin (ensure_active_group) and
close() stop the heartbeat task by cancelling it and awaiting it, unguarded (`task.cancel(); await task`,
_stop_heartbeat_task). That is only sound if the routine ends *quietly* wherever the cancellation lands: a CancelledError
leaving the heartbeat task is re-raised by that await inside the coordination task, which treats it as its own
cancellation and ends - the member never rejoins - or inside close() (C19: stop() raises before the group is left).
Same pattern as defect f703957 (Fetcher.close)."""
from pyvc.contract import contract, classmodel, specfn, SPEC_TYPES, CLASSES
from pyvc.ty import V, INT, BOOL, REAL, STR, NONE, EXC, BYTES, Opt, Tup, List, Set, Dict, Ref, Opaque
from pyvc.exec_base import Fut
from . import coordinator_commits as CC, coordinator_rebalance, coordinator_rejoin, close_paths      # noqa: F401

MOD = CC.MOD
CLASSES["GroupCoordinator"].fields.update({"_heartbeat_interval_ms": INT})


@contract(MOD + ":GroupCoordinator._heartbeat_routine", ["C06", "C19"])
def _(c):
    c.self_("GroupCoordinator")
    c.no_class_inv = True
    c.none_raises = True
    c.local("success", BOOL)
    c.local("t0", REAL)
    c.owns("self._subscription", "self._max_poll_interval", "self._heartbeat_interval_ms", "self._session_timeout_ms",
           "self._retry_backoff_ms")
    c.call("time.monotonic", returns=REAL, note="clock")
    c.call("asyncio.sleep", havoc_all=True, raises=["CancelledError"], note="suspends")
    c.call("self.ensure_coordinator_known", havoc_all=True, raises=["KafkaError", "CancelledError"],
           note="GroupCoordinator.ensure_coordinator_known (under contract, coordinator_dead.py): suspends")
    c.call("self._do_heartbeat", returns=BOOL, havoc_all=True, raises=["KafkaError", "CancelledError"],
           note="GroupCoordinator._do_heartbeat (under contract, coordinator_rebalance.py): one Heartbeat round trip")
    c.call("self._maybe_leave_group", havoc_all=True, raises=["CancelledError"],
           note="GroupCoordinator._maybe_leave_group: LeaveGroup round trip (swallows KafkaError), then reset_generation")
    c.call("self.coordinator_dead", modifies=["self_.coordinator_id", "Future.state", "Future.nres"],
           note="GroupCoordinator.coordinator_dead (under contract, coordinator_dead.py)")
    c.call("max", returns=REAL, note="max of a pair of reals")
    c.call("min", returns=REAL, note="min of two reals")
    c.modifies("self.coordinator_id", "self.generation", "self.member_id", "Future.state", "Future.nres")
    c.raises("a-heartbeat-error-for-the-coordination-routine", "Exception")
    # wherever the cancellation of _stop_heartbeat_task lands, the task ends normally
    c.never_raises("CancelledError")
    c.loop(0, header="while self.member_id != JoinGroupRequest.UNKNOWN_MEMBER_ID", invariants=[])
    c.replay_fn = lambda model, ob=None: {"script": _HB_SCRIPT}


# replay: a real GroupCoordinator object whose heartbeat task is cancelled by the real _stop_heartbeat_task while it waits
# (a) in its sleep, (b) for the Heartbeat reply, (c) for the LeaveGroup reply after the application stopped polling for
# longer than max_poll_interval_ms: the stop must return normally each time
_HB_SCRIPT = '''
import asyncio, logging, types
logging.disable(logging.CRITICAL)
from unittest import mock
from aiokafka.consumer.group_coordinator import GroupCoordinator
from aiokafka.util import create_future, create_task

async def scenario(where):
    coord = GroupCoordinator.__new__(GroupCoordinator)
    coord.group_id, coord.generation, coord.member_id, coord.coordinator_id = "g", 3, "m-1", 1
    coord._group_instance_id = None
    coord._heartbeat_interval_ms, coord._session_timeout_ms, coord._retry_backoff_ms = (10 if where != "sleep" else 5000), 10000, 10
    coord._max_poll_interval = 300.0
    coord._coordinator_dead_fut = create_future()
    coord._rejoin_needed_fut = create_future()
    coord._closing = create_future()
    coord._subscription = types.SimpleNamespace(fetcher_idle_time=(1000.0 if where == "leave-group" else 0.0))
    arrived = asyncio.Event()
    async def send_req(request):
        name = type(request).__name__
        if (where == "heartbeat" and "Heartbeat" in name) or (where == "leave-group" and "LeaveGroup" in name):
            arrived.set()
            await asyncio.sleep(3600)                 # the reply is in flight
        return types.SimpleNamespace(error_code=0)
    coord._send_req = send_req
    coord._heartbeat_task = create_task(coord._heartbeat_routine())
    if where == "sleep":
        await asyncio.sleep(0.02)
    else:
        await asyncio.wait_for(arrived.wait(), 2)
    try:
        await asyncio.wait_for(coord._stop_heartbeat_task(), 2)
    except asyncio.CancelledError:
        return "heartbeat task cancelled while waiting in %s: CancelledError escaped the task and _stop_heartbeat_task()" % where
    except Exception as e:
        return "%s: %r" % (where, e)
    return None

async def main():
    bad = []
    for where in ("sleep", "heartbeat", "leave-group"):
        r = await scenario(where)
        if r: bad.append(r)
    return bad
bad = asyncio.run(main())
VIOLATED = bool(bad); DETAIL = "; ".join(bad)
'''
