"""Replay sweep for Fetcher._get_actions_per_node on the real Fetcher and SubscriptionState (C03 / C08 / C13): five
partitions in the states the function distinguishes - consuming, paused, awaiting a reset, consuming with a buffered
result, consuming on a node with a fetch in flight - for both isolation levels. Runs under /venv/bin/python.

sweep() -> list of problem strings."""
import asyncio
import logging

logging.disable(logging.CRITICAL)


def sweep():
    async def main():
        from aiokafka.client import AIOKafkaClient
        from aiokafka.consumer.fetcher import Fetcher, FetchResult, PartitionRecords
        from aiokafka.consumer.subscription_state import SubscriptionState
        from aiokafka.record.memory_records import MemoryRecords
        from aiokafka.structs import TopicPartition
        from specs.handout_replay import _batch
        bad = []
        for isolation in ("read_uncommitted", "read_committed"):
            client = AIOKafkaClient(bootstrap_servers=[])
            subs = SubscriptionState()
            subs.subscribe({"t"})
            tps = [TopicPartition("t", i) for i in range(5)]
            subs.assign_from_subscribed(tps)
            assignment = subs.subscription.assignment
            consuming, paused, resetting, buffered, busy = tps
            for tp, pos in ((consuming, 11), (paused, 22), (buffered, 44), (busy, 55)):
                subs.seek(tp, pos)
            subs.pause(paused)
            fetcher = Fetcher(client, subs, isolation_level=isolation)
            try:
                # leaders: node 1, except `busy` (node 2, which has a fetch in flight) and `resetting` (node 3: a node with a
                # partition to reset is not fetched from in the same round)
                client.cluster.leader_for_partition = lambda tp: 2 if tp == busy else (3 if tp == resetting else 1)
                client.cluster.broker_metadata = lambda node_id: object()
                fetcher._in_flight.add(2)
                pr = PartitionRecords(buffered, MemoryRecords(_batch(44)), [], 44, None, None, True, 0)
                fetcher._records[buffered] = FetchResult(buffered, partition_records=pr, assignment=assignment, backoff=0)
                reqs, awaiting_reset, backoff, invalid, resume = fetcher._get_actions_per_node(assignment)
                asked = {}
                for node_id, req in reqs:
                    struct = req.prepare({1: (0, 11)})
                    if struct.isolation_level != (1 if isolation == "read_committed" else 0) and struct.API_VERSION >= 4:
                        bad.append("%s consumer: FetchRequest carries isolation level %r" % (isolation, struct.isolation_level))
                    for topic, parts in struct.topics:
                        for entry in parts:
                            part, offset = entry[0], (entry[1] if struct.API_VERSION < 9 else entry[2])
                            asked[(node_id, TopicPartition(topic, part))] = offset
                want = {(1, consuming): 11}
                if asked != want:
                    bad.append("%s consumer: fetch requests ask for %r; expected %r (partition 1 is paused, 2 has no position, "
                               "3 has a buffered result, 4's node has a fetch in flight)" % (isolation, asked, want))
                got_reset = {n: sorted(v) for n, v in awaiting_reset.items()}
                if got_reset != {3: [resetting]}:
                    bad.append("%s consumer: partitions handed to the reset path %r; expected the one without a position, under "
                               "its leader" % (isolation, got_reset))
                if len(resume) != 1:
                    bad.append("%s consumer: %d resume futures for one paused partition" % (isolation, len(resume)))
            finally:
                await fetcher.close()
        return bad
    return asyncio.run(main())


if __name__ == "__main__":
    for b in sweep():
        print(b)
