"""C10 (memory safety of the compiled decoders) — aiokafka/record/_crecords/legacy_records.pyx, translated mechanically
by pyvc/pyx.py on every run. Every read of the buffer is an obligation: `buf[i]` needs 0 <= i < len, an N-byte
unpack at position p needs 0 <= p and p + N <= len, PyBytes_FromStringAndSize needs a non-negative size (CPython raises
SystemError otherwise) inside the buffer. Arithmetic is 64-bit two's complement with a no-overflow obligation per
operation (Py_ssize_t / int64_t on the supported platforms)."""
import z3
from pyvc import ty as T
from pyvc.contract import contract, classmodel, specfn, SPEC_TYPES, CLASSES
from pyvc.ty import V, INT, BOOL, REAL, STR, NONE, EXC, BYTES, Opt, Tup, List, Set, Dict, Ref, Opaque
from pyvc.exec_base import Fut, PyThing
from .common import tupctor

MOD = "aiokafka.record._crecords.legacy_records"
ADDR = Tup(BYTES, INT, names=["buf", "pos"])          # &buf[pos]
PYBYTES = Opaque("PyBytesObject")
classmodel("LegacyRecordObj", {"crc": INT, "offset": INT, "timestamp": INT, "attributes": INT})
classmodel("LegacyBatchC", {"_buffer": BYTES, "_magic": INT, "_decompressed": INT, "_main_record": Ref("LegacyRecordObj")},
           real=MOD + ":LegacyRecordBatch")
I32 = "-2**31 <= result and result < 2**31"


_LEGACY_REPLAY = '''
import sys
sys.path.insert(0, "/verif")
from specs import crecords_replay
bad = crecords_replay.sweep("legacy")
VIOLATED = bool(bad); DETAIL = "%d crafted legacy buffers misbehave on the decoder built from this tree; first: %r" % (len(bad), bad[:3])
'''


# "never reads outside the supplied buffer", over time: a batch reads through a Py_buffer view of an object it holds a
# reference to. PyBuffer_Release gives that reference back - from then on the view's pointer dangles - and PyObject_GetBuffer
# takes a new one. Whatever happens in between (a codec that is missing, a payload that does not inflate), the batch must
# leave the function still holding the object its view points into: validate_crc() or a second iteration would otherwise read
# memory that may have been freed and reused.
HOLDS_AT_EXIT = ("the-batch-still-holds-the-object-its-buffer-view-points-into", "$holds")


def HOLDS(c):
    c.ghost("$holds", BOOL, "True")
    c.call("__release__", ghost={"$holds": "False"},
           note="PyBuffer_Release(&self._buffer): the reference is given back, the view dangles")
    c.call("__getbuffer__", returns="a0", ghost={"$holds": "True"},
           note="PyObject_GetBuffer(obj, &self._buffer, PyBUF_SIMPLE): a view of obj, which is now referenced")


def c_intrinsics(c, replay=_LEGACY_REPLAY):
    """models of the C helpers the translated code calls (hton.pxd is 20 lines of ntohl arithmetic: trusted)"""
    if replay:
        c.replay_fn = lambda model, ob=None: {"script": replay}
    c.mode = "bv64"
    c.signed_bytes = True
    c.bind("__addr__", tupctor(ADDR))
    from pyvc.ty import PYOBJ
    for m in ("hton", "cutil"):                        # cimported helper modules: calls into them are modelled below
        c.bind(m, V(PYOBJ, PyThing("module", name="aiokafka.record._crecords." + m)))
    for f in ("PyBytes_FromStringAndSize", "__slice__", "__getbuffer__", "__release__", "PyMemoryView_FromMemory", "PyBytes_GET_SIZE",
              "PyBytes_AS_STRING"):
        c.bind(f, V(PYOBJ, PyThing("func", name=f, module="cpython")))
    c.call("hton.unpack_int64", returns=INT, pre=[("read-inside-the-buffer", "0 <= a0.pos and a0.pos + 8 <= len(a0.buf)")],
           note="hton.unpack_int64: 8 bytes big-endian at the address")
    c.call("hton.unpack_int32", returns=INT, pre=[("read-inside-the-buffer", "0 <= a0.pos and a0.pos + 4 <= len(a0.buf)")],
           post=[I32], note="hton.unpack_int32: 4 bytes big-endian at the address, sign-extended")
    c.call("hton.unpack_int16", returns=INT, pre=[("read-inside-the-buffer", "0 <= a0.pos and a0.pos + 2 <= len(a0.buf)")],
           post=["-2**15 <= result and result < 2**15"], note="hton.unpack_int16: 2 bytes big-endian at the address, sign-extended")
    c.call("PyBytes_FromStringAndSize", returns=PYBYTES,
           pre=[("size-not-negative-else-SystemError", "a1 >= 0"),
                ("copy-inside-the-buffer", "0 <= a0.pos and a0.pos + a1 <= len(a0.buf)")],
           note="PyBytes_FromStringAndSize(&buf[pos], n): copies n bytes; CPython raises SystemError for n < 0")
    c.call("__slice__", returns="a0[a1:a1 + a2]",
           pre=[("slice-inside-the-buffer", "0 <= a1 and 0 <= a2 and a1 + a2 <= len(a0)")],
           note="re-pointing a Py_buffer: buf = &B[p], len = n")
    c.call("__getbuffer__", returns="a0", note="PyObject_GetBuffer(obj, &view, PyBUF_SIMPLE): the object's bytes")
    c.call("__release__", note="PyBuffer_Release(&view): gives the exported buffer back; the view's pointer dangles from here on "
                               "(tracked where a contract declares the ghost $holds, LegacyRecordBatch._decompress)")


@contract(MOD + ":LegacyRecordBatch._check_bounds", ["C10"])
def _(c):
    c_intrinsics(c)
    c.self_("LegacyBatchC")
    c.param("pos", INT)
    c.param("size", INT)
    c.requires("0 <= pos and pos <= 2**40 and -2**32 <= size and size <= 2**32", "plausible-position-and-32-bit-size")
    c.raises("slice-outside-the-buffer-or-negative-size", "CorruptRecordException",
             when="size < 0 or pos + size > len(self._buffer)", exact=True)
    c.ensures("slice-inside-the-buffer", "0 <= size and pos + size <= len(self._buffer)")


@contract(MOD + ":LegacyRecordBatch._read_last_offset", ["C10"])
def _(c):
    """walks the (decompressed) inner message set to its last message"""
    c_intrinsics(c)
    c.self_("LegacyBatchC")
    c.returns(INT)
    c.requires("len(self._buffer) <= 2**40", "buffer-size-plausible")
    c.raises("corrupt-inner-message-set", "CorruptRecordException")
    # termination: every step must move forward (a hostile inner length <= -12 would not)
    c.loop(0, header="while pos < buffer_len", invariants=[
        ("position-never-negative", "0 <= pos and pos <= 2**41 and buffer_len == len(self._buffer)"),
        ("last-step-remembered", "0 <= length and length < 2**31 and (pos == 0 or pos >= LOG_OVERHEAD + length)"),
    ], decreases="buffer_len - pos")


@contract(MOD + ":LegacyRecordBatch.validate_crc", ["C10"])
def _(c):
    c_intrinsics(c)
    c.self_("LegacyBatchC")
    c.returns(BOOL)
    c.requires("len(self._buffer) <= 2**40", "buffer-size-plausible")
    # the constructors leave at least one whole message header in the buffer (their ensures). Iterating a compressed batch
    # replaces the buffer by the decompressed payload - of any length, also shorter than the 16 bytes the checksum skips,
    # and then `len - MAGIC_OFFSET` cast to size_t is huge: the call must be refused once the batch has been decompressed
    # (an iteration that then fails on a corrupt inner set leaves the batch in exactly that state), as the v2 class does
    c.requires("implies(self._decompressed == 0, len(self._buffer) >= LOG_OVERHEAD + RECORD_OVERHEAD_V0_DEF)", "constructed-batch")
    c.raises("already-iterated", "AssertionError", when="self._decompressed != 0", exact=True)
    c.call("cutil.calc_crc32", returns=Tup(INT, INT),
           pre=[("checksummed-range-inside-the-buffer", "0 <= a1.pos and 0 <= a2 and a1.pos + a2 <= len(a1.buf)")],
           note="cutil.calc_crc32(crc, buf, len, &out): reads len bytes from buf")


@contract(MOD + ":LegacyRecordBatch.__init__", ["C10"])
def _(c):
    """the public constructor: any bytes-like object, any magic"""
    c_intrinsics(c)
    c.self_("LegacyBatchC")
    c.no_class_inv = True
    c.param("buffer", BYTES)
    c.param("magic", INT)
    c.requires("len(buffer) <= 2**40", "buffer-size-plausible")
    c.modifies("self._buffer", "self._magic", "self._decompressed", "self._main_record")
    c.raises("truncated-or-corrupt", "CorruptRecordException")
    c.ensures("whole-first-message-header-inside", "len(self._buffer) >= LOG_OVERHEAD + RECORD_OVERHEAD_V0_DEF and self._decompressed == 0")


@contract(MOD + ":LegacyRecordBatch.__iter__", ["C10"])
def _(c):
    c_intrinsics(c)
    c.self_("LegacyBatchC")
    c.local("next_record", Ref("LegacyRecordObj"))
    c.requires("len(self._buffer) <= 2**40", "buffer-size-plausible")
    c.owns("self._buffer", "self._main_record", "self._magic")       # nobody else touches the batch between two next() calls
    # record offsets / timestamps are data, never positions: their arithmetic is taken to wrap
    c.wrapping("absolute_base_offset", "next_record.offset")
    c.call("self._decompress", modifies=["self_._buffer"], raises=["Exception"], post=["0 <= len(self_._buffer) and len(self_._buffer) <= 2**40"],
           note="_decompress: replaces the buffer by the codec's output (gzip/snappy/lz4 libraries; any length)")
    c.modifies("self._buffer", "self._decompressed", "LegacyRecordObj.timestamp", "LegacyRecordObj.attributes", "LegacyRecordObj.offset")
    c.raises("corrupt-or-codec-error", "Exception")
    c.loop(0, header="while pos < len(self._buffer)", invariants=[
        ("position-inside-the-buffer", "0 <= pos and pos <= len(self._buffer) and len(self._buffer) <= 2**40"),
    ], decreases="len(self._buffer) - pos")


@contract(MOD + ":LegacyRecordBatch.new", ["C10"])
def _(c):
    """the constructor MemoryRecords uses: a batch over the slice [pos, slice_end) of the fetched bytes"""
    c_intrinsics(c)
    c.param("buffer", BYTES)
    c.param("pos", INT)
    c.param("slice_end", INT)
    c.param("magic", INT)
    c.returns(Ref("LegacyBatchC"))
    # what MemoryRecords._get_next guarantees (its own contract): a whole message of at least the v0 overhead
    # (contracts of translated code are evaluated in 64-bit arithmetic too: every sum in a clause is range-guarded)
    c.requires("0 <= pos and pos <= slice_end and slice_end - pos >= LOG_OVERHEAD + RECORD_OVERHEAD_V0_DEF"
               " and slice_end <= len(buffer) and len(buffer) <= 2**40", "slice-is-a-whole-message-inside-the-bytes")
    c.call("LegacyRecordBatch.__new__", returns=Ref("LegacyBatchC"), post=["fresh(result)"], note="allocation")
    c.raises("truncated-or-corrupt", "CorruptRecordException")
    c.ensures("batch-sees-exactly-the-slice", "len(result._buffer) == slice_end - pos")


@contract(MOD + ":LegacyRecordBatch._read_record", ["C10"])
def _(c):
    c_intrinsics(c)
    c.self_("LegacyBatchC")
    c.param("read_pos__null", BOOL)
    c.param("read_pos__in", INT)
    c.returns(Tup(Ref("LegacyRecordObj"), INT))
    # callers: the constructors (NULL: position 0) and __iter__ (0 <= pos < len, the previous record's end)
    c.requires("implies(not read_pos__null, 0 <= read_pos__in and read_pos__in < len(self._buffer))", "position-inside-the-buffer")
    c.requires("len(self._buffer) <= 2**40", "buffer-size-plausible")
    c.call("LegacyRecord.new", returns=Ref("LegacyRecordObj"), post=["fresh(result)"], note="allocates the record object")
    c.raises("truncated-or-corrupt", "CorruptRecordException")
    c.ensures("next-position-inside-the-buffer", "implies(not read_pos__null, old(read_pos__in) < result[1] and result[1] <= len(self._buffer))")
    c.ensures("a-whole-minimal-message-was-there", "len(self._buffer) - ite(read_pos__null, 0, read_pos__in) >= LOG_OVERHEAD + RECORD_OVERHEAD_V0_DEF")


@contract(MOD + ":LegacyRecordBatch._decompress", ["C10"])
def _(c):
    """replaces the view of the wrapper message by a view of the decompressed inner message set"""
    from pyvc.ty import PYOBJ
    from pyvc.exec_base import PyThing
    HOLDS(c)
    c_intrinsics(c)
    c.self_("LegacyBatchC")
    c.param("compression_type", INT)
    c.returns(INT)
    for f in ("gzip_decode", "snappy_decode", "lz4_decode"):
        c.bind(f, V(PYOBJ, PyThing("func", name=f, module="aiokafka.codec")))
    c.requires("-128 <= compression_type and compression_type <= 127", "a-c-char")
    for f in ("gzip_decode", "snappy_decode", "lz4_decode"):
        c.call(f, returns=BYTES, raises=["Exception"], post=["0 <= len(result) and len(result) <= 2**40"],
               note="codec library: the decompressed payload (any content, any length)")
    c.modifies("self._buffer")
    c.raises("no-value-codec-missing-or-corrupt-payload", "Exception", ensures=[HOLDS_AT_EXIT])
    c.ensures(*HOLDS_AT_EXIT)
    c.replay_fn = lambda model, ob=None: {"script": _LEGACY_REPLAY}


@contract(MOD + ":_assert_has_codec", ["C10"])
def _(c):
    """returns only for a codec this format knows and whose library is present"""
    from pyvc.ty import PYOBJ
    from pyvc.exec_base import PyThing
    c_intrinsics(c)
    c.param("compression_type", INT)
    c.bind("codecs", V(PYOBJ, PyThing("module", name="aiokafka.codec")))
    c.requires("-128 <= compression_type and compression_type <= 127", "a-c-char")
    c.call("checker", returns=BOOL, note="codecs.has_gzip / has_snappy / has_lz4: whether the library can be imported")
    c.raises("unknown-codec-or-library-missing", "UnsupportedCodecError")
    c.ensures("a-codec-of-this-format",
              "compression_type == _ATTR_CODEC_GZIP or compression_type == _ATTR_CODEC_SNAPPY or compression_type == _ATTR_CODEC_LZ4")
