"""C05 — aiokafka/consumer/subscription_state.py: adopting an assignment (Subscription._assign).

C05 "... After a member's on_partitions_revoked callback begins it returns no record of a revoked partition until a later
on_partitions_assigned includes it, and data fetched under a superseded assignment or subscription is never delivered":
everything downstream recognises a superseded generation by its Assignment object - the fetcher drops buffered batches,
in-flight fetch answers and offset look-ups whose assignment's unassign_future is done (fetched_records, _proc_fetch_request,
_update_fetch_positions, all under contract). That only works if *every* adoption, also of the very same partition set,
retires the object of the generation it replaces and installs a new one whose positions start unset."""
from pyvc.contract import contract, classmodel, specfn, SPEC_TYPES, CLASSES
from pyvc.ty import V, INT, BOOL, REAL, STR, NONE, EXC, BYTES, Opt, Tup, List, Set, Dict, Ref, Opaque
from pyvc.exec_base import Fut
from .common import TP, tp_ctor
from . import subscription_state as SS, fetcher_handout      # noqa: F401

MOD = SS.MOD
CLASSES["Subscription"].fields.update({"_assignment": Opt(Ref("Assignment")), "_topics": Set(STR)})


@contract(MOD + ":Subscription._assign", ["C05", "C04", "C13"])
def _(c):
    c.self_("Subscription")
    c.param("topic_partitions", Set(TP))
    c.no_class_inv = True
    c.none_raises = True
    c.call("self._assignment._unassign", modifies=["Future.state", "Future.nres"], raises=["InvalidStateError"],
           post=["old(self._assignment).unassign_future.done()"],
           note="Assignment._unassign: resolves the assignment's unassign_future (one line)")
    c.call("Assignment", returns=Ref("Assignment"),
           post=["fresh(result)", "not result.unassign_future.done()", "result._topic_partitions == a0",
                 "forall(TP, lambda q: (q in result._topic_partitions) == (q in result._tp_state))"],
           note="Assignment.__init__: a new object with a pending unassign_future and a fresh, position-less state per partition")
    c.modifies("self._assignment", "self._reassignment_in_progress", "Future.state", "Future.nres")
    c.raises("partition-of-an-unsubscribed-topic", "AssertionError",
             ensures=[("nothing-adopted", "self._assignment == old(self._assignment)")])
    c.raises("assignment-already-retired", "InvalidStateError")
    c.loop(0, header="for tp in topic_partitions", invariants=[
        ("nothing-touched-yet", "self._assignment == old(self._assignment)"
                                " and self._reassignment_in_progress == old(self._reassignment_in_progress)")])
    c.ensures("a-new-generation-gets-a-new-assignment-object",
              "self._assignment is not None and fresh(self._assignment) and not self._assignment.unassign_future.done()"
              " and self._assignment._topic_partitions == topic_partitions")
    c.ensures("the-assignment-it-replaces-is-retired",
              "implies(old(self._assignment) is not None, old(self._assignment).unassign_future.done())")
    c.ensures("the-rebalance-is-over", "not self._reassignment_in_progress")
    c.replay_fn = lambda model, ob=None: {"script": _ASSIGN_SCRIPT}


# replay: a real SubscriptionState: subscribe, adopt {t-0, t-1}, consume to offset 7, rebalance, adopt the same set again
_ASSIGN_SCRIPT = '''
import asyncio, logging
logging.disable(logging.CRITICAL)
from aiokafka.consumer.subscription_state import SubscriptionState
from aiokafka.structs import TopicPartition

async def main():
    bad = []
    for second in ([0, 1], [1, 0], [0], [0, 1, 2]):
        subs = SubscriptionState()
        subs.subscribe({"t"})
        first = {TopicPartition("t", 0), TopicPartition("t", 1)}
        subs.assign_from_subscribed(first)
        old = subs.subscription.assignment
        old.state_value(TopicPartition("t", 0)).seek(7)
        subs.begin_reassignment()
        subs.assign_from_subscribed({TopicPartition("t", p) for p in second})
        new = subs.subscription.assignment
        if new is old or not old.unassign_future.done():
            bad.append("re-adopting partitions %r after a rebalance kept the Assignment object of the revoked generation "
                       "(same object: %s, old retired: %s)" % (second, new is old, old.unassign_future.done()))
        elif new.state_value(TopicPartition("t", 0)).has_valid_position:
            bad.append("the new generation starts with the old generation's position")
        if subs.reassignment_in_progress:
            bad.append("rebalance not marked as finished")
    return bad
bad = asyncio.run(main())
VIOLATED = bool(bad); DETAIL = "; ".join(bad[:3])
'''
