"""Replay sweep for SendProduceReqHandler.do on the real handler, accumulator and transaction manager (C01 / C02), with
a stub client whose send() fails or answers as scripted. Runs under /venv/bin/python.

sweep() -> list of problem strings."""
import asyncio
import logging

logging.disable(logging.CRITICAL)


class _Cluster:
    def leader_for_partition(self, tp):
        return 1


class _Client:
    def __init__(self, outcome, ready=True):
        self.outcome = outcome          # an exception instance, or a response object
        self._ready = ready
        self.sent = []
        self.refreshes = 0

    async def ready(self, node_id, group=None):
        return self._ready

    async def send(self, node_id, request, group=None):
        self.sent.append(request)
        await asyncio.sleep(0)
        if isinstance(self.outcome, BaseException):
            raise self.outcome
        return self.outcome

    def force_metadata_update(self):
        self.refreshes += 1
        f = asyncio.get_running_loop().create_future()
        f.set_result(None)
        return f

    async def _maybe_wait_metadata(self):
        await asyncio.sleep(0)


class _Sender:
    def __init__(self, acc, client, txn_manager, acks):
        self._message_accumulator = acc
        self.client = client
        self._txn_manager = txn_manager
        self._acks = acks
        self._retry_backoff = 0.01
        self._request_timeout_ms = 1000


async def scenario(kind, idempotent, acks):
    from aiokafka import errors as Errors
    from aiokafka.producer.message_accumulator import MessageAccumulator
    from aiokafka.producer.sender import SendProduceReqHandler
    from aiokafka.producer.transaction_manager import TransactionManager
    from aiokafka.structs import TopicPartition
    tps = [TopicPartition("t", 0), TopicPartition("t", 1)]
    tm = None
    if idempotent:
        tm = TransactionManager(None, 1000)
        tm.set_pid_and_epoch(7, 0)
    acc = MessageAccumulator(_Cluster(), 1 << 16, 0, 1000, txn_manager=tm)
    futs = []
    for tp in tps:
        futs.append(await acc.add_message(tp, b"k", b"first", 1))
    nodes, _ = acc.drain_by_nodes(ignore_nodes=[])
    batches = nodes[1]
    counts = {tp: b.record_count for tp, b in batches.items()}
    outcome = {"not-ready": Errors.NodeNotReadyError("node 1"), "timeout": Errors.RequestTimedOutError(),
               "fatal": Errors.TopicAuthorizationFailedError("t")}.get(kind)
    client = _Client(outcome, ready=(kind != "not-ready"))
    sender = _Sender(acc, client, tm, acks)
    h = SendProduceReqHandler(sender, batches)
    try:
        await asyncio.wait_for(h.do(1), 2)
    except Exception as e:
        # whatever the handler lets out ends the sender task; the batches must not be left behind by it either way
        pass
    bad = []
    label = "%s error, %s producer, acks=%s" % (kind, "idempotent" if idempotent else "plain", acks)
    queued = {tp: list(q) for tp, q in acc._batches.items()}
    for tp, b in batches.items():
        back = b in queued.get(tp, [])
        if not b.future.done() and not back:
            bad.append("%s: the batch of %s is neither resolved nor back in the accumulator after the round" % (label, tp))
        if kind in ("not-ready", "timeout") and idempotent and b.future.done() and b.future.exception() is not None:
            bad.append("%s: a retriable fault failed an accepted record of an idempotent producer" % label)
        if back and queued[tp][0] is not b:
            bad.append("%s: the retried batch of %s is not at the front of its queue" % (label, tp))
    # a batch that was drained has its sequence numbers; nothing may be added to it any more
    if kind in ("not-ready", "timeout"):
        for tp in tps:
            try:
                await asyncio.wait_for(acc.add_message(tp, b"k", b"late", 0.05), 1)
            except Exception:
                pass
        for tp, b in batches.items():
            if b.record_count != counts[tp]:
                bad.append("%s: the re-enqueued batch of %s (sequence numbers already assigned for %d record(s)) accepted "
                           "another record: it now holds %d" % (label, tp, counts[tp], b.record_count))
    for f in futs:
        if f.done() and not f.cancelled():
            f.exception()
    for q in acc._batches.values():
        for b in q:
            if not b.future.done():
                b.done_noack()
    for b in batches.values():
        if b.future.done() and not b.future.cancelled():
            b.future.exception()
    return bad


def sweep():
    async def main():
        out = []
        for kind in ("not-ready", "timeout", "fatal"):
            for idempotent in (False, True):
                out.extend(await scenario(kind, idempotent, 1))
        return out
    return asyncio.run(main())


if __name__ == "__main__":
    for b in sweep():
        print(b)
