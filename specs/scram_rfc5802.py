"""Oracle for C18: an independent SCRAM server (RFC 5802 §3, §5, §7), pure Python. It knows the password and
verifies the client's messages the way a conforming server does; it can also be told to tamper with one
field of its own messages. Written from the RFC, not from aiokafka/conn.py."""
import base64
import hashlib
import hmac
import re

HASHES = {"SCRAM-SHA-256": ("sha256", hashlib.sha256), "SCRAM-SHA-512": ("sha512", hashlib.sha512)}


class ProtocolError(Exception):
    pass


def saslname_decode(s):
    """RFC 5802 §5.1: ',' is sent as =2C and '=' as =3D; any other use of '=' is an error."""
    out, i = [], 0
    while i < len(s):
        ch = s[i]
        if ch == ",":
            raise ProtocolError("raw ',' inside saslname")
        if ch == "=":
            esc = s[i:i + 3]
            if esc == "=2C":
                out.append(",")
            elif esc == "=3D":
                out.append("=")
            else:
                raise ProtocolError("invalid escape %r in saslname" % esc)
            i += 3
        else:
            out.append(ch)
            i += 1
    return "".join(out)


class Server:
    def __init__(self, mechanism, users, salt, iterations, snonce="srvNONCE", tamper=None):
        self.hname, self.H = HASHES[mechanism]
        self.users, self.salt, self.iterations, self.snonce, self.tamper = users, salt, iterations, snonce, tamper
        self.accepted = False

    def hmac(self, key, msg):
        return hmac.new(key, msg, self.H).digest()

    def first(self, client_first: bytes) -> bytes:
        msg = client_first.decode("utf-8")
        m = re.fullmatch(r"n,,(n=([^,]*),r=([^,]+))", msg, re.S)
        if not m:
            raise ProtocolError("client-first-message is not `n,,n=<saslname>,r=<nonce>`: %r" % msg)
        self.client_first_bare, user, self.cnonce = m.group(1), saslname_decode(m.group(2)), m.group(3)
        if user not in self.users:
            raise ProtocolError("unknown user %r" % user)
        self.password = self.users[user]
        nonce = self.cnonce + self.snonce
        if self.tamper == "nonce-prefix":
            nonce = "X" + nonce[1:]
        # "the server's nonce does not extend its own": the client nonce must be a PREFIX, not merely occur in it
        if self.tamper == "nonce-prepended":
            nonce = "x" + nonce
        if self.tamper == "nonce-old-prepended":
            nonce = "oldNONCEoldNONCE" + nonce
        if self.tamper == "nonce-only-suffix":
            nonce = self.snonce + self.cnonce
        salt = self.salt
        if self.tamper == "salt":
            salt = bytes([salt[0] ^ 1]) + salt[1:]
        it = self.iterations + (1 if self.tamper == "iterations" else 0)
        # a server that plays this game goes along with the nonce it sent: only the client can stop the login
        self.nonce = nonce if (self.tamper or "").startswith("nonce-") else self.cnonce + self.snonce
        self.server_first = "r=%s,s=%s,i=%d" % (nonce, base64.b64encode(salt).decode(), it)
        return self.server_first.encode("utf-8")

    def final(self, client_final: bytes) -> bytes:
        msg = client_final.decode("utf-8")
        m = re.fullmatch(r"(c=biws,r=([^,]+)),p=([A-Za-z0-9+/=]+)", msg)
        if not m:
            raise ProtocolError("client-final-message malformed: %r" % msg)
        without_proof, nonce, proof = m.group(1), m.group(2), base64.b64decode(m.group(3))
        if nonce != self.nonce:
            raise ProtocolError("nonce mismatch")
        salted = hashlib.pbkdf2_hmac(self.hname, self.password.encode("utf-8"), self.salt, self.iterations)
        client_key = self.hmac(salted, b"Client Key")
        stored_key = self.H(client_key).digest()
        auth_message = (self.client_first_bare + "," + self.server_first + "," + without_proof).encode("utf-8")
        client_signature = self.hmac(stored_key, auth_message)
        if len(proof) != len(client_signature):
            raise ProtocolError("proof length")
        recovered = bytes(a ^ b for a, b in zip(proof, client_signature))
        if self.H(recovered).digest() != stored_key:
            raise ProtocolError("client proof does not verify: the client does not know the password")
        self.accepted = True
        server_key = self.hmac(salted, b"Server Key")
        sig = self.hmac(server_key, auth_message)
        if self.tamper == "signature":
            sig = bytes([sig[0] ^ 1]) + sig[1:]
        # a server that cannot compute the signature can still send *something*: every shape that is not the
        # exact ServerSignature must be refused by the client (RFC 5802 section 3, last step)
        if self.tamper == "signature-last-bit":
            sig = sig[:-1] + bytes([sig[-1] ^ 0x80])
        if self.tamper == "signature-truncated":
            sig = sig[:len(sig) // 2]
        if self.tamper == "signature-one-byte":
            sig = sig[:1]
        if self.tamper == "signature-empty":
            sig = b""
        if self.tamper == "signature-extended":
            sig = sig + b"\x00"
        if self.tamper == "no-signature":
            return b"e=other-error"
        if self.tamper == "empty-final-message":
            return b""
        return ("v=" + base64.b64encode(sig).decode()).encode("utf-8")
