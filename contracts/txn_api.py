"""C16 / C07 — aiokafka/producer/producer.py: the `async with producer.transaction():` context manager.

C16: "After an abortable error ... abort returns the producer to a state in which a new transaction succeeds; after a
fatal error ... every later transactional call ... fails". Leaving the context with an exception must therefore abort
the transaction in every state but FATAL_ERROR (where nothing can be aborted any more and the exception is let out);
leaving it without one commits. The transaction manager's own transitions are the C16 contracts in transaction_manager.py."""
from pyvc.contract import contract, classmodel, specfn, SPEC_TYPES, CLASSES
from pyvc.ty import V, INT, BOOL, REAL, STR, NONE, EXC, BYTES, Opt, Tup, List, Set, Dict, Ref, Opaque
from pyvc.exec_base import Fut
from . import transaction_manager as TM, close_paths      # noqa: F401

MOD = "aiokafka.producer.producer"
CLASSES["ProducerStop"].fields["_txn_manager"] = Opt(Ref("TransactionManager"))
classmodel("TransactionContext", {"_producer": Ref("ProducerStop")}, real=MOD + ":TransactionContext")
classmodel("ExcTypeObj", {})
classmodel("TracebackObj", {})


@contract(MOD + ":TransactionContext.__aexit__", ["C16", "C07"])
def _(c):
    c.self_("TransactionContext")
    c.param("exc_type", Opt(Ref("ExcTypeObj")))
    c.param("exc_value", Opt(EXC))
    c.param("traceback", Opt(Ref("TracebackObj")))
    c.requires("self._producer._txn_manager is not None", "transactional-producer")
    c.owns("self._producer", "ProducerStop._txn_manager")
    c.ghost("$aborted", BOOL, "False")
    c.ghost("$committed", BOOL, "False")
    c.call("self._producer.abort_transaction", havoc_all=True, raises=["KafkaError", "CancelledError", "Exception"],
           ghost={"$aborted": "True"},
           note="AIOKafkaProducer.abort_transaction: asks the transaction manager to abort and waits for the end of the transaction")
    c.call("self._producer.commit_transaction", havoc_all=True, raises=["KafkaError", "CancelledError", "Exception"],
           ghost={"$committed": "True"},
           note="AIOKafkaProducer.commit_transaction: asks the transaction manager to commit and waits for the end of the transaction")
    c.raises("the-end-of-the-transaction-failed-or-cancelled", "BaseException")
    c.ensures_internal("an-exception-in-the-body-aborts-unless-the-producer-is-beyond-repair",
                       "implies(exc_type is not None and old(self._producer._txn_manager.state) != TransactionState.FATAL_ERROR,"
                       " $aborted and not $committed)")
    c.ensures_internal("a-clean-exit-commits", "implies(exc_type is None, $committed and not $aborted)")
    from .sender_txn import TS_BIND
    c.bind("TransactionState", TS_BIND)
    c.replay_fn = lambda model, ob=None: {"script": _AEXIT_SCRIPT}


# replay: the real TransactionContext.__aexit__ over a real TransactionManager put into each state a body can leave
# behind; the producer's abort/commit calls are recorded
_AEXIT_SCRIPT = '''
import asyncio, logging
logging.disable(logging.CRITICAL)
from aiokafka.producer.producer import TransactionContext
from aiokafka.producer.transaction_manager import TransactionManager, TransactionState
from aiokafka import errors as Errors

async def main():
    bad = []
    # the body may be left by any exception: an ordinary one, the cancellation of the task (wait_for timeout, shutdown), a
    # KeyboardInterrupt / SystemExit
    for state in (TransactionState.IN_TRANSACTION, TransactionState.ABORTABLE_ERROR, TransactionState.FATAL_ERROR):
        for with_exc in (ValueError, asyncio.CancelledError, KeyboardInterrupt, GeneratorExit, False):
            tm = TransactionManager("tid", 1000)
            tm.set_pid_and_epoch(1, 0)
            tm.begin_transaction()
            if state is TransactionState.ABORTABLE_ERROR:
                tm.error_transaction(Errors.GroupAuthorizationFailedError("g"))
            elif state is TransactionState.FATAL_ERROR:
                tm.fatal_error(Errors.ProducerFenced())
            calls = []
            class P: pass
            p = P()
            p._txn_manager = tm
            async def abort_transaction(): calls.append("abort")
            async def commit_transaction(): calls.append("commit")
            p.abort_transaction, p.commit_transaction = abort_transaction, commit_transaction
            ctx = TransactionContext(p)
            if with_exc:
                await ctx.__aexit__(with_exc, with_exc("body left"), None)
                want = [] if state is TransactionState.FATAL_ERROR else ["abort"]
            else:
                if state is not TransactionState.IN_TRANSACTION:
                    continue
                await ctx.__aexit__(None, None, None)
                want = ["commit"]
            if calls != want:
                bad.append("context left %s as exception in state %s: the producer was asked to %r, expected %r"
                           % ("with " + with_exc.__name__ if with_exc else "without", state.name, calls, want))
    return bad
bad = asyncio.run(main())
VIOLATED = bool(bad); DETAIL = repr(bad)
'''
