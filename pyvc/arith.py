"""Python integer semantics in the two arithmetic modes (DESIGN.md §1.3)."""
import ast
import z3
from . import ty as T
from .ty import V, INT, BOOL, REAL
from .state import Unsupported


def is_const(t):
    return z3.is_int_value(t) or z3.is_bv_value(t)


def const_of(t):
    if z3.is_int_value(t):
        return t.as_long()
    if z3.is_bv_value(t):
        return t.as_signed_long()
    return None


def _runs(mask):
    """contiguous runs of set bits of a non-negative mask: [(lo, hi))]."""
    runs, i = [], 0
    while mask >> i:
        if (mask >> i) & 1:
            lo = i
            while (mask >> i) & 1:
                i += 1
            runs.append((lo, i))
        else:
            i += 1
    return runs


def binop(ex, st, op, a, b, line):
    """a, b: V of type INT (or REAL). Returns V. Emits overflow/div obligations via ex."""
    if a.ty == BOOL:
        a = T.coerce(a, INT)
    if b.ty == BOOL:
        b = T.coerce(b, INT)
    if a.ty == REAL or b.ty == REAL:
        return _real(ex, st, op, a, b, line)
    if a.ty != INT or b.ty != INT:
        raise Unsupported("arith on %s, %s (line %s)" % (a.ty, b.ty, line))
    ca, cb = const_of(a.t), const_of(b.t)
    if ca is not None and cb is not None:
        r = _fold(op, ca, cb)
        if r is not None:
            return T.intval(r)
    if T.mode() == "int":
        return _int(ex, st, op, a, b, ca, cb, line)
    return _bv(ex, st, op, a, b, ca, cb, line)


def _fold(op, x, y):
    try:
        if isinstance(op, ast.Add): return x + y
        if isinstance(op, ast.Sub): return x - y
        if isinstance(op, ast.Mult): return x * y
        if isinstance(op, ast.FloorDiv) and y != 0: return x // y
        if isinstance(op, ast.Mod) and y != 0: return x % y
        if isinstance(op, ast.Pow) and 0 <= y < 300: return x ** y
        if isinstance(op, ast.LShift) and 0 <= y < 300: return x << y
        if isinstance(op, ast.RShift) and y >= 0: return x >> y
        if isinstance(op, ast.BitAnd): return x & y
        if isinstance(op, ast.BitOr): return x | y
        if isinstance(op, ast.BitXor): return x ^ y
    except Exception:
        return None
    return None


def _real(ex, st, op, a, b, line):
    a = T.coerce(a, REAL) or a
    b = T.coerce(b, REAL) or b
    if a.ty != REAL or b.ty != REAL:
        raise Unsupported("real arith in bv mode (line %s)" % line)
    if isinstance(op, ast.Add): return V(REAL, a.t + b.t)
    if isinstance(op, ast.Sub): return V(REAL, a.t - b.t)
    if isinstance(op, ast.Mult): return V(REAL, a.t * b.t)
    if isinstance(op, ast.Div):
        ex.oblige(st, "div", "nonzero-divisor", b.t != 0, line)
        return V(REAL, a.t / b.t)
    raise Unsupported("real op %s (line %s)" % (type(op).__name__, line))


def _int(ex, st, op, a, b, ca, cb, line):
    x, y = a.t, b.t
    if isinstance(op, ast.Add): return V(INT, x + y)
    if isinstance(op, ast.Sub): return V(INT, x - y)
    if isinstance(op, ast.Mult): return V(INT, x * y)
    if isinstance(op, (ast.FloorDiv, ast.Mod)):
        if cb is None:
            ex.oblige(st, "div", "positive-divisor", y > 0, line)
        elif cb <= 0:
            raise Unsupported("non-positive constant divisor (line %s)" % line)
        return V(INT, x / y) if isinstance(op, ast.FloorDiv) else V(INT, x % y)
    if isinstance(op, ast.Div):
        ex.oblige(st, "div", "nonzero-divisor", y != 0, line)
        return V(REAL, z3.ToReal(x) / z3.ToReal(y))
    if isinstance(op, ast.LShift) and cb is not None and 0 <= cb < 300:
        return V(INT, x * (1 << cb))
    if isinstance(op, ast.RShift) and cb is not None and 0 <= cb < 300:
        return V(INT, x / (1 << cb))
    if isinstance(op, ast.BitAnd):
        if ca is not None and cb is None:
            x, y, ca, cb = y, x, cb, ca
        if cb is not None and cb >= 0:
            terms = []
            for lo, hi in _runs(cb):
                t = x / (1 << lo) if lo else x
                t = t % (1 << (hi - lo))
                terms.append(t * (1 << lo) if lo else t)
            if not terms:
                return T.intval(0)
            r = terms[0]
            for t in terms[1:]:
                r = r + t
            return V(INT, r)
    if isinstance(op, ast.Pow) and ca is not None and cb is not None:
        return T.intval(ca ** cb)
    raise Unsupported("int-mode op %s with non-constant operand (line %s); use bv mode" % (type(op).__name__, line))


class _NoObl:
    """stands in for the executor while a `c.wrapping(...)` target is computed: add/sub/mul/shl wrap silently"""
    def __init__(self, ex):
        self._ex = ex

    def oblige(self, st, kind, *a, **k):
        if kind != "overflow":
            return self._ex.oblige(st, kind, *a, **k)

    def __getattr__(self, n):
        return getattr(self._ex, n)


def _bv(ex, st, op, a, b, ca, cb, line):
    if getattr(ex, "wrap_ok", 0):
        ex = _NoObl(ex)
    x, y = a.t, b.t
    w = T.width()
    if isinstance(op, ast.Add):
        ex.oblige(st, "overflow", "add", z3.And(z3.BVAddNoOverflow(x, y, True), z3.BVAddNoUnderflow(x, y)), line)
        return V(INT, x + y)
    if isinstance(op, ast.Sub):
        ex.oblige(st, "overflow", "sub", z3.And(z3.BVSubNoOverflow(x, y), z3.BVSubNoUnderflow(x, y, True)), line)
        return V(INT, x - y)
    if isinstance(op, ast.Mult):
        ex.oblige(st, "overflow", "mul", z3.And(z3.BVMulNoOverflow(x, y, True), z3.BVMulNoUnderflow(x, y)), line)
        return V(INT, x * y)
    if isinstance(op, (ast.FloorDiv, ast.Mod)):
        if cb is None:
            ex.oblige(st, "div", "positive-divisor", y > 0, line)
        elif cb <= 0:
            raise Unsupported("non-positive constant divisor (line %s)" % line)
        if cb is not None and cb & (cb - 1) == 0:
            # power of two: exact on two's complement for either sign
            sh = cb.bit_length() - 1
            if isinstance(op, ast.Mod):
                if 0 < sh < w:
                    return V(INT, z3.ZeroExt(w - sh, low_bits(x, sh)))
                return V(INT, x & z3.BitVecVal(cb - 1, w))
            return V(INT, x >> z3.BitVecVal(sh, w))
        if isinstance(op, ast.Mod):
            return V(INT, z3.SRem(x, y) + z3.If(z3.And(z3.SRem(x, y) != 0, x < 0), y, z3.BitVecVal(0, w)))
        q = x / y                                  # bvsdiv: truncates toward zero
        return V(INT, z3.If(z3.And(z3.SRem(x, y) != 0, x < 0), q - 1, q))
    if isinstance(op, ast.LShift):
        ex.oblige(st, "overflow", "shl", z3.And(y >= 0, y < w, ((x << y) >> y) == x), line)
        return V(INT, x << y)
    if isinstance(op, ast.RShift):
        if cb is None:
            ex.oblige(st, "overflow", "shr-count", y >= 0, line)
        elif cb < 0:
            raise Unsupported("negative shift (line %s)" % line)
        if cb is not None:
            nz = _zero_ext_core(x)
            if nz is not None and nz.size() < w:
                m = nz.size()
                sh = z3.LShR(nz, z3.BitVecVal(cb, m)) if cb < m else z3.BitVecVal(0, m)
                return V(INT, z3.ZeroExt(w - m, sh))
        return V(INT, x >> y)                   # arithmetic on signed bv = Python floor shift
    if isinstance(op, ast.BitAnd):
        for u, cu in ((x, cb), (y, ca)):
            if cu is not None and cu > 0 and (cu & (cu + 1)) == 0 and cu.bit_length() < w:
                k = cu.bit_length()
                return V(INT, z3.ZeroExt(w - k, low_bits(u, k)))
        return V(INT, x & y)
    if isinstance(op, ast.BitOr): return V(INT, x | y)
    if isinstance(op, ast.BitXor): return V(INT, x ^ y)
    raise Unsupported("bv-mode op %s (line %s)" % (type(op).__name__, line))


_LOW = {}


def low_bits(t, k, depth=0):
    """Extract(k-1, 0, t), pushed through the operations whose low k result bits depend only
    on the low k bits of their operands (+ - * & | ^ ~ <<c, ite, zero/sign extension).
    A sound local rewrite: it lets `x * m & 0xFFFFFFFF` become a genuine 32-bit product."""
    key = (t.get_id(), k)
    hit = _LOW.get(key)
    if hit is not None and hit[0].eq(t):     # ids can be recycled: keep the term alive and re-check
        return hit[1]
    n = t.size()
    assert k <= n
    if k == n:
        r = t
    elif depth > 60 or not z3.is_app(t) or n != T.width():
        # only mode-width terms are narrowed; an already narrow term (inside a zero
        # extension) is a canonical value and is not re-sliced
        r = z3.Extract(k - 1, 0, t)
    else:
        kind = t.decl().kind()
        ch = t.children()
        if z3.is_bv_value(t):
            r = z3.BitVecVal(t.as_long() & ((1 << k) - 1), k)
        elif kind in (z3.Z3_OP_BADD, z3.Z3_OP_BMUL, z3.Z3_OP_BAND, z3.Z3_OP_BOR, z3.Z3_OP_BXOR):
            parts = [low_bits(c, k, depth + 1) for c in ch]
            r = parts[0]
            for p in parts[1:]:
                r = {z3.Z3_OP_BADD: lambda a, b: a + b, z3.Z3_OP_BMUL: lambda a, b: a * b,
                     z3.Z3_OP_BAND: lambda a, b: a & b, z3.Z3_OP_BOR: lambda a, b: a | b,
                     z3.Z3_OP_BXOR: lambda a, b: a ^ b}[kind](r, p)
        elif kind == z3.Z3_OP_BSUB:
            r = low_bits(ch[0], k, depth + 1) - low_bits(ch[1], k, depth + 1)
        elif kind == z3.Z3_OP_BNOT:
            r = ~low_bits(ch[0], k, depth + 1)
        elif kind == z3.Z3_OP_BNEG:
            r = -low_bits(ch[0], k, depth + 1)
        elif kind == z3.Z3_OP_BSHL and z3.is_bv_value(ch[1]):
            c = ch[1].as_long()
            r = z3.BitVecVal(0, k) if c >= k else (low_bits(ch[0], k, depth + 1) << z3.BitVecVal(c, k))
        elif kind == z3.Z3_OP_ITE:
            r = z3.If(ch[0], low_bits(ch[1], k, depth + 1), low_bits(ch[2], k, depth + 1))
        elif kind in (z3.Z3_OP_ZERO_EXT, z3.Z3_OP_SIGN_EXT):
            inner = ch[0]
            r = low_bits(inner, k, depth + 1) if inner.size() >= k else z3.Extract(k - 1, 0, t)
        elif kind == z3.Z3_OP_CONCAT and ch[-1].size() >= k:
            r = low_bits(ch[-1], k, depth + 1)
        elif kind in (z3.Z3_OP_BASHR, z3.Z3_OP_BLSHR) and z3.is_bv_value(ch[1]):
            # shift right of a value whose high bits are known zero: logical shift of the narrow part
            c = ch[1].as_long()
            u = ch[0]
            nz = _zero_ext_core(u)
            if nz is not None and nz.size() < n:
                m = nz.size()
                sh = z3.LShR(nz, z3.BitVecVal(c, m)) if c < m else z3.BitVecVal(0, m)
                r = z3.Extract(k - 1, 0, sh) if m > k else (z3.ZeroExt(k - m, sh) if m < k else sh)
            else:
                r = z3.Extract(k - 1, 0, t)
        else:
            r = z3.Extract(k - 1, 0, t)
    _LOW[key] = (t, r)
    return r


def _zero_ext_core(u):
    """If u is syntactically a zero-extension of a narrower term, return that term."""
    if not z3.is_app(u):
        return None
    kind = u.decl().kind()
    if kind == z3.Z3_OP_ZERO_EXT:
        inner = u.children()[0]
        return _zero_ext_core(inner) or inner
    if kind == z3.Z3_OP_CONCAT:
        ch = u.children()
        if all(z3.is_bv_value(c) and c.as_long() == 0 for c in ch[:-1]):
            return _zero_ext_core(ch[-1]) or ch[-1]
    return None


def unop(ex, st, op, a, line):
    if isinstance(op, ast.UAdd):
        return a
    if a.ty == BOOL and not isinstance(op, ast.Not):
        a = T.coerce(a, INT)
    c = const_of(a.t) if a.ty == INT else None
    if isinstance(op, ast.USub):
        if a.ty == REAL:
            return V(REAL, -a.t)
        if c is not None:
            return T.intval(-c)
        if T.mode() == "bv":
            ex.oblige(st, "overflow", "neg", z3.BVSNegNoOverflow(a.t), line)
        return V(INT, -a.t)
    if isinstance(op, ast.Invert):
        if c is not None:
            return T.intval(~c)
        if T.mode() == "bv":
            return V(INT, ~a.t)
        return V(INT, -a.t - 1)
    raise Unsupported("unary op %s" % type(op).__name__)


def compare(op, a, b):
    """INT/REAL comparison -> z3 bool."""
    if a.ty == REAL or b.ty == REAL:
        a = T.coerce(a, REAL) or a
        b = T.coerce(b, REAL) or b
    x, y = a.t, b.t
    if isinstance(op, ast.Lt): return x < y
    if isinstance(op, ast.LtE): return x <= y
    if isinstance(op, ast.Gt): return x > y
    if isinstance(op, ast.GtE): return x >= y
    raise Unsupported("compare op")
