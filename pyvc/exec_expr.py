"""Expression evaluation. ev(e, st) -> [(st, V)]; exceptional outcomes go to raises_stack."""
import ast
import z3
from . import ty as T
from .ty import V, INT, BOOL, REAL, NONE, NONEV, BYTES, EXC, PYOBJ, STR, Opt, Ref, Tup, List, Set, Dict, Enum, Opaque
from .state import St, Out, Unsupported, BindingError
from . import contract as C
from . import arith
from .exec_base import ExecBase, PyThing, Fut

OPAQUE_ATTRS = {}      # (opaque sort name, attr) -> Ty
BUILTIN_NAMES = {"len", "range", "min", "max", "abs", "isinstance", "int", "bool", "list", "set", "frozenset",
                 "dict", "tuple", "sorted", "enumerate", "zip", "any", "all", "print", "type", "bytes",
                 "bytearray", "memoryview", "str", "float", "sum", "iter", "next", "repr", "id", "hasattr",
                 "getattr", "issubclass", "divmod", "reversed", "object", "super", "callable"}
EXC_BUILTINS = {"Exception", "BaseException", "ValueError", "TypeError", "KeyError", "IndexError", "RuntimeError",
                "AssertionError", "OSError", "AttributeError", "NotImplementedError", "StopIteration",
                "LookupError", "SystemError", "MemoryError", "OverflowError", "TimeoutError",
                "UnicodeDecodeError", "ConnectionError", "StopAsyncIteration"}


class ExprMixin(ExecBase):

    # ---------------------------------------------------------------- helpers
    def ev1(self, e, st):
        """Evaluate an expression that cannot fork (spec expressions, simple terms)."""
        outs = self.ev(e, st)
        if len(outs) != 1:
            raise Unsupported("expression forks where a single value is needed: %s" % ast.unparse(e)[:80])
        return outs[0]

    def ev_list(self, exprs, st):
        res = [(st, [])]
        for e in exprs:
            nxt = []
            for s, vs in res:
                for s2, v in self.ev(e, s):
                    nxt.append((s2, vs + [v]))
            res = nxt
        return res

    def resolve_import_module(self, mod):
        """dotted name of an imported repo module (absolute, or relative to the module under contract)"""
        if mod.split(".")[0] == self.module.dotted.split(".")[0]:
            return mod
        return self.module.dotted.rsplit(".", 1)[0] + "." + mod

    def spec_eval(self, expr, st, extra=None, old=None):
        """Evaluate a contract expression (string) in state st; returns V. No side effects."""
        node = expr if isinstance(expr, ast.AST) else _parse(expr)
        s = st.copy()
        if extra:
            s.env.update(extra)
        saved_old = self.spec_old
        if old is not None:
            self.spec_old = old
        outer = self._ax_sink is None
        if outer:
            self._ax_sink = []
        self.spec += 1
        try:
            outs = self.ev(node, s)
        finally:
            self.spec -= 1
            self.spec_old = saved_old
            if outer:
                sink, self._ax_sink = self._ax_sink, None
                tgt = self.fact_target if self.fact_target is not None else st
                for a in sink:
                    # instances of spec-function definitions are valid facts: adding them to the path is sound
                    if not any(a.eq(p) for p in tgt.pc[-40:]):
                        tgt.pc.append(a)
        if len(outs) != 1:
            raise Unsupported("spec expression forks: %s" % expr)
        return outs[0][1]

    def spec_bool(self, expr, st, extra=None, old=None):
        v = self.spec_eval(expr, st, extra, old)
        return self.truthy(st, v)

    def spec_assume(self, expr, st, extra=None, old=None):
        """Like spec_bool, for a formula that is going to be *assumed*: spec functions are
        not unfolded (definition instances are only added for the terms of a goal)."""
        saved = self.unfold_on
        self.unfold_on = False
        try:
            return self.spec_bool(expr, st, extra, old)
        finally:
            self.unfold_on = saved

    # ------------------------------------------------------------------- main
    def ev(self, e, st):
        if hasattr(e, "lineno") and not self.spec:
            self.cur_line = e.lineno
        m = getattr(self, "ev_" + type(e).__name__, None)
        if m is None:
            raise Unsupported("expression %s (line %s)" % (type(e).__name__, getattr(e, "lineno", "?")))
        return m(e, st)

    def ev_Constant(self, e, st):
        v = e.value
        if v is None:
            return [(st, NONEV)]
        if isinstance(v, bool):
            return [(st, T.boolval(v))]
        if isinstance(v, int):
            return [(st, T.intval(v))]
        if isinstance(v, float):
            return [(st, V(REAL, z3.RealVal(repr(v))))]
        if isinstance(v, str):
            return [(st, self.strconst(v))]
        if isinstance(v, bytes):
            return [(st, self.bytesconst(v))]
        if v is Ellipsis:
            return [(st, NONEV)]
        raise Unsupported("constant %r" % (v,))

    def strconst(self, s):
        f = z3.Const("str_%s" % "".join(ch if ch.isalnum() else "_%02x" % ord(ch) for ch in s)[:60] + "_%d" % (hash(s) & 0xffff),
                     STR.sort())
        self.str_consts = getattr(self, "str_consts", {})
        if s not in self.str_consts:
            self.str_consts[s] = f
        return V(STR, self.str_consts[s])

    def str_distinct_axioms(self):
        cs = list(getattr(self, "str_consts", {}).values())
        return [z3.Distinct(*cs)] if len(cs) > 1 else []

    def bytesconst(self, b):
        s = BYTES.sort()
        isort = INT.sort()
        if T.mode() == "int":
            arr = z3.K(isort, z3.IntVal(0)) if False else None
        arr = z3.K(isort, self.byte_elem_val(0))
        for i, x in enumerate(b):
            arr = z3.Store(arr, T.intval(i).t, self.byte_elem_val(x))
        return V(BYTES, s.mk(arr, T.intval(len(b)).t))

    def byte_elem_val(self, x):
        return z3.BitVecVal(x, 8)

    def byte_to_int(self, bt):
        signed = bool(getattr(self.c, "signed_bytes", False))        # C `char*` buffers (translated Cython): signed char
        if T.mode() == "int":
            return z3.BV2Int(bt, signed)
        return z3.SignExt(T.width() - 8, bt) if signed else z3.ZeroExt(T.width() - 8, bt)

    def ev_Name(self, e, st):
        n = e.id
        if n in st.env:
            v = st.env[n]
            if isinstance(v, V) and v.lv is not None and v.lv[0] != "local" and not self.spec \
                    and isinstance(v.ty, (List, Set, Dict)):
                # a local bound to a mutable container that lives in the heap is an alias: re-read it
                return [(st, self.read_lv(st, v.lv))]
            return [(st, v)]
        if n in st.ghost:
            return [(st, st.ghost[n])]
        if self.spec and n in self.function_locals() and n not in self.c.binds and self.local_type_hint(n) is not None:
            # a clause mentions a local that is not bound yet in this state (e.g. a loop invariant at loop entry about a
            # variable first assigned in the body): it has to hold for an arbitrary value of the declared type
            return [(st, self.fresh(self.local_type_hint(n), n + "_unbound"))]
        if not self.spec and n in self.function_locals():
            # a local of the function under contract that no statement on this path has bound yet
            self.fork_raise(st, z3.BoolVal(True), "UnboundLocalError")
            st.assume(z3.BoolVal(False))
            return []
        return [(st, self.global_name(n, st))]

    def function_locals(self):
        fl = getattr(self, "_fn_locals", None)
        if fl is None:
            import ast as _ast
            fl = set()
            root = getattr(self, "fnode", None)
            if root is not None:
                for x in _ast.walk(root):
                    if isinstance(x, _ast.Name) and isinstance(x.ctx, (_ast.Store, _ast.Del)):
                        fl.add(x.id)
                    elif isinstance(x, (_ast.Global, _ast.Nonlocal)):
                        fl.difference_update(x.names)
            self._fn_locals = fl
        return fl

    def global_name(self, n, st=None):
        ctx = getattr(self, "spec_ctx", None)
        c = ctx[0] if (ctx and self.spec) else self.c          # a callee's clauses resolve names in *its* module
        if n in c.binds:
            b = c.binds[n]
            return b if isinstance(b, V) else self.py_const(b)
        if self.spec and n in C.SPECFNS:
            return V(PYOBJ, PyThing("specfn", name=n))
        mod = ctx[1] if (ctx and self.spec) else self.module
        if n in mod.consts:
            return self.py_const(mod.consts[n])
        if n in mod.enums:
            return V(PYOBJ, PyThing("enumcls", name=n, ty=self.enum_ty(n, mod)))
        if n in mod.classes:
            if n in self.exc_names():
                return V(EXC, z3.IntVal(self.exc_id(n)))
            return V(PYOBJ, PyThing("class", name=n, module=mod.dotted))
        if n in mod.funcs:
            return V(PYOBJ, PyThing("func", name=n, module=mod.dotted))
        if n in mod.imports:
            im = mod.imports[n]
            if im[0] and im[0].endswith("errors") and im[1] and im[1] in self.exc_names():
                return V(EXC, z3.IntVal(self.exc_id(im[1])))
            if im[1] is None or (im[0] and im[0].endswith("errors") and im[1] is None):
                return V(PYOBJ, PyThing("module", name=im[0]))
            if im[1] == "errors" or n == "Errors":
                return V(PYOBJ, PyThing("module", name="aiokafka.errors"))
            return V(PYOBJ, PyThing("import", name=im[1], module=im[0], alias=n))
        if n in EXC_BUILTINS:
            return V(EXC, z3.IntVal(self.exc_id(n)))
        if n in BUILTIN_NAMES:
            return V(PYOBJ, PyThing("builtin", name=n))
        if self.spec and n in C.SPECFNS:
            return V(PYOBJ, PyThing("specfn", name=n))
        raise Unsupported("unbound name %s (line %s)" % (n, self.cur_line))

    def exc_names(self):
        self.exc_id("Exception")
        return self.exc["ids"]

    def enum_ty(self, name, module=None):
        mod = module or self.module
        k = ("enum", mod.dotted, name)
        self._enum_cache = getattr(self, "_enum_cache", {})
        if k not in self._enum_cache:
            mem = mod.enums[name]
            vals = [v for _, v in mem]
            if len(set(map(repr, vals))) != len(vals):
                raise Unsupported("enum %s has aliases" % name)
            ety = Enum(name, [m for m, _ in mem])
            ety.values = dict(mem)
            self._enum_cache[k] = ety
        return self._enum_cache[k]

    def py_const(self, v):
        if isinstance(v, V):
            return v
        if v is None:
            return NONEV
        if isinstance(v, bool):
            return T.boolval(v)
        if isinstance(v, int):
            return T.intval(v)
        if isinstance(v, float):
            return V(REAL, z3.RealVal(repr(v)))
        if isinstance(v, str):
            return self.strconst(v)
        if isinstance(v, bytes):
            return self.bytesconst(v)
        if isinstance(v, PyThing):
            return V(PYOBJ, v)
        if isinstance(v, tuple):
            vs = [self.py_const(x) for x in v]
            ty = Tup(*[x.ty for x in vs])
            return T.tup_mk(ty, vs)
        raise Unsupported("constant %r" % (v,))

    # ------------------------------------------------------------- attributes
    def ev_Attribute(self, e, st):
        res = []
        for s, o in self.ev(e.value, st):
            res.extend(self.getattr_(s, o, e.attr, e))
        return res

    def getattr_(self, st, o, attr, node=None):
        ty = o.ty
        if isinstance(ty, Opt) and isinstance(ty.inner, (Ref, Tup, Opaque)):
            if not self.spec:
                if self.c.none_raises:
                    self.fork_raise(st, T.opt_is_none(o), "AttributeError")
                else:
                    self.oblige(st, "none", "deref-%s" % attr, z3.Not(T.opt_is_none(o)))
            o = T.opt_val(o)
            ty = o.ty
        if isinstance(ty, Ref):
            cls = ty.cls
            if cls == "Future":
                return [(st, V(PYOBJ, PyThing("method", recv=o, name=attr)))]
            cm = C.CLASSES.get(cls)
            if cm is None:
                raise Unsupported("no class model %s" % cls)
            if attr in cm.fields:
                return [(st, self.hread(st, o.t, cls, attr))]
            if attr in cm.props:
                s2 = st.copy()
                s2.env = dict(st.env)
                s2.env["self"] = o
                # a @property modelled by an expression over the object's fields: evaluated like code
                # (heap reads get their validity facts), in the caller's spec/non-spec mode
                npc = len(s2.pc)
                self.no_oblige += 1          # the model expression is total: no obligations, no exceptional forks
                try:
                    outs = self.ev(_parse(cm.props[attr]), s2)
                finally:
                    self.no_oblige -= 1
                if len(outs) != 1:
                    raise Unsupported("property %s.%s forks" % (cls, attr))
                for f in outs[0][0].pc[npc:]:
                    st.assume(f)
                return [(st, outs[0][1])]
            con = C.BY_METHOD.get((cls, attr))
            if con is not None and getattr(con, "is_property", False):
                # a @property with real logic (e.g. an assertion) is under contract like a method: reading it is a call
                if self.spec:
                    return [(st, self.apply_contract(st, con, o, [], {}, node)[0][1])]
                return self.apply_contract(st, con, o, [], {}, node)
            return [(st, V(PYOBJ, PyThing("method", recv=o, name=attr)))]
        if ty == PYOBJ:
            th = o.t
            if th.kind == "enumcls":
                if attr in th.ty.members:
                    return [(st, th.ty.member(attr))]
                return [(st, V(PYOBJ, PyThing("method", recv=o, name=attr)))]
            if th.kind == "module":
                if th.name.endswith("errors"):
                    if attr in self.exc_names():
                        return [(st, V(EXC, z3.IntVal(self.exc_id(attr))))]
                    return [(st, V(PYOBJ, PyThing("func", name=attr, module=th.name)))]
                return [(st, V(PYOBJ, PyThing("modattr", module=th.name, name=attr)))]
            if th.kind == "class":
                from . import source as _src
                consts = _src.module(th.module).class_attr_consts(th.name)
                if attr in consts:
                    return [(st, self.py_const(consts[attr]))]      # plain constant class attribute (e.g. OffsetResetStrategy.NONE)
            if th.kind == "import" and th.module and th.name:
                # constant attribute of a class imported from another repo module (OffsetCommitRequest.DEFAULT_GENERATION_ID)
                from . import source as _src
                try:
                    consts = _src.module(self.resolve_import_module(th.module)).class_attr_consts(th.name)
                except Exception:
                    consts = {}
                if attr in consts:
                    return [(st, self.py_const(consts[attr]))]
            if th.kind in ("class", "import", "modattr", "classattr") or (th.kind == "builtin" and not self.spec):
                # (a method of a builtin type, e.g. int.from_bytes, likewise: meaningful only through a call model)
                # (also an attribute of a class attribute, e.g. ConsumerProtocol.ASSIGNMENT.decode: an opaque callable
                # that only a call model of the contract can give a meaning)
                return [(st, V(PYOBJ, PyThing("classattr", owner=th, name=attr)))]
            if th.kind == "selfcls":
                cm_mod = self.module
                if getattr(th, "module", None) and th.module != self.module.dotted:
                    from . import source as _src
                    cm_mod = _src.module(th.module)          # `cls` of a callee defined in another module
                if th.name in cm_mod.enums:
                    ety = self.enum_ty(th.name, cm_mod)
                    if attr in ety.members:
                        return [(st, ety.member(attr))]
                cac = cm_mod.class_attr_consts(th.name)
                if attr in cac:
                    return [(st, self.py_const(cac[attr]))]
                return [(st, V(PYOBJ, PyThing("classattr", owner=th, name=attr)))]
            raise Unsupported("attribute %s of %r (line %s)" % (attr, th, self.cur_line))
        if isinstance(ty, Tup) and ty.names and attr in ty.names:
            v = T.tup_get(o, ty.names.index(attr))
            self.assume_valid(st, v)
            return [(st, v)]
        if isinstance(ty, Opaque):
            k = (ty.name, attr)
            if k in OPAQUE_ATTRS:
                rt = OPAQUE_ATTRS[k]
                f = z3.Function("attr_%s_%s" % k, ty.sort(), rt.sort())
                return [(st, V(rt, f(o.t)))]
            return [(st, V(PYOBJ, PyThing("method", recv=o, name=attr)))]
        if ty == EXC:
            exh = self.exc
            if attr in ("retriable", "invalid_metadata", "errno"):
                # class attribute table
                names = self.exc_names()
                dflt = T.boolval(False).t if attr != "errno" else T.intval(-1).t
                t = dflt
                for n, i in names.items():
                    val = self.exc["attr"](n, attr)
                    if val is None:
                        continue
                    vt = T.boolval(val).t if isinstance(val, bool) else T.intval(val).t
                    t = z3.If(o.t == i, vt, t)
                return [(st, V(BOOL if attr != "errno" else INT, t))]
            if attr in ("with_traceback", "add_note"):
                return [(st, V(PYOBJ, PyThing("method", recv=o, name=attr)))]
            # any other attribute of an exception object (exc.partial, exc.args, ...): an unknown value of that object -
            # in particular its truth value is open (it used to be read as a bound method, i.e. always true)
            aty = Opaque("ExcAttr")
            return [(st, V(aty, z3.Function("excattr_" + attr, EXC.sort(), aty.sort())(o.t)))]
        if isinstance(ty, (List, Set, Dict)) or ty in (BYTES, STR, INT):
            return [(st, V(PYOBJ, PyThing("method", recv=o, name=attr)))]
        if isinstance(ty, Enum):
            if attr == "value" and hasattr(ty, "values"):
                t = None
                for m in ty.members:
                    val = ty.values[m]
                    if not isinstance(val, int):
                        raise Unsupported("enum value type")
                    t = T.intval(val).t if t is None else z3.If(o.t == ty.member(m).t, T.intval(val).t, t)
                return [(st, V(INT, t))]
            return [(st, V(PYOBJ, PyThing("method", recv=o, name=attr)))]
        raise Unsupported("attribute %s on %s (line %s)" % (attr, ty, self.cur_line))

    # ------------------------------------------------------------- lvalue paths
    def read_lv(self, st, lv):
        k = lv[0]
        if k == "field":
            _, cls, fld, ref_t, ty = lv
            return V(ty, z3.Select(self.hmap(st, cls, fld, ty), ref_t), lv=lv)
        if k == "local":
            v = st.env[lv[1]]
            return V(v.ty, v.t, lv=lv)
        if k == "item":
            _, plv, key = lv
            parent = self.read_lv(st, plv)
            pty = parent.ty
            if isinstance(pty, Dict):
                dflt = getattr(pty, "default", None)
                return V(pty.v, z3.Select(T.dict_val(parent), key.t), lv=lv)
            if isinstance(pty, List):
                return V(pty.elem, z3.Select(T.list_arr(parent), key.t), lv=lv)
        raise Unsupported("lvalue %r" % (lv,))

    def write_lv(self, st, lv, v):
        k = lv[0]
        if k == "field":
            _, cls, fld, ref_t, ty = lv
            self.hwrite(st, ref_t, cls, fld, v, ty)
            return
        if k == "local":
            old = st.env.get(lv[1])
            st.env[lv[1]] = V(v.ty, v.t, lv=lv)
            return
        if k == "item":
            _, plv, key = lv
            parent = self.read_lv(st, plv)
            pty = parent.ty
            if isinstance(pty, Dict):
                cv = T.coerce(v, pty.v)
                nd = T.dict_mk(pty, z3.Store(T.dict_dom(parent), key.t, True), z3.Store(T.dict_val(parent), key.t, cv.t))
                self.write_lv(st, plv, nd)
                return
            if isinstance(pty, List):
                cv = T.coerce(v, pty.elem)
                nl = T.list_mk(pty, z3.Store(T.list_arr(parent), key.t, cv.t), T.list_len(parent))
                self.write_lv(st, plv, nl)
                return
        raise Unsupported("write lvalue %r" % (lv,))

    # -------------------------------------------------------------- subscripts
    def ev_Subscript(self, e, st):
        res = []
        for s, o in self.ev(e.value, st):
            if isinstance(e.slice, ast.Slice):
                res.extend(self.slice_(s, o, e.slice))
                continue
            for s2, k in self.ev(e.slice, s):
                res.append((s2, self.getitem(s2, o, k)))
        return res

    def getitem(self, st, o, k):
        o = self.deref_dictlike(st, o)
        ty = o.ty
        if isinstance(ty, Opt):
            if not self.spec:
                self.oblige(st, "none", "subscript", z3.Not(T.opt_is_none(o)))
            o = T.opt_val(o)
            ty = o.ty
        if isinstance(ty, List) or ty == BYTES:
            if k.ty != INT:
                raise Unsupported("index type %s" % k.ty)
            n = T.list_len(o)
            idx = k.t
            zero = T.intval(0).t
            ck = arith.const_of(idx)
            if ck is not None and ck < 0:
                idx = n + idx          # Python negative index
            inb = z3.And(idx >= zero, idx < n)
            if not self.spec:
                if self.c.index_raises:
                    self.fork_raise(st, z3.Not(inb), "IndexError")
                else:
                    self.oblige(st, "bounds", "index", inb)
            if ty == BYTES:
                return V(INT, self.byte_to_int(z3.Select(T.list_arr(o), idx)))
            v = V(ty.elem, z3.Select(T.list_arr(o), idx), lv=("item", o.lv, V(INT, idx)) if o.lv else None)
            self.assume_valid(st, v)
            return v
        if isinstance(ty, Dict):
            ck = self.coerce_to(st, k, ty.k, "key")
            if ck is None:
                raise Unsupported("dict key type %s for %s" % (k.ty, ty))
            dom = T.dict_dom(o)
            has = z3.Select(dom, ck.t)
            dflt = getattr(ty, "default", None)
            if dflt is not None:
                # defaultdict: missing key is created with the default (write-back through the lvalue)
                dv = self.default_value(ty)
                val = z3.If(has, z3.Select(T.dict_val(o), ck.t), dv.t)
                if not self.spec and o.lv is not None:
                    nd = T.dict_mk(ty, z3.Store(dom, ck.t, True), z3.Store(T.dict_val(o), ck.t, val))
                    self.no_oblige += 1          # creation of the default entry is not a frame event of interest
                    try:
                        self.write_lv(st, o.lv, nd)
                    finally:
                        self.no_oblige -= 1
                v = V(ty.v, val, lv=("item", o.lv, ck) if o.lv else None)
                self.assume_valid(st, v)
                return v
            if not self.spec:
                self.fork_raise(st, z3.Not(has), "KeyError")
            v = V(ty.v, z3.Select(T.dict_val(o), ck.t), lv=("item", o.lv, ck) if o.lv else None)
            self.assume_valid(st, v)
            return v
        if isinstance(ty, Tup):
            c = arith.const_of(k.t) if k.ty == INT else None
            if c is None:
                raise Unsupported("tuple index must be constant")
            v = T.tup_get(o, c if c >= 0 else len(ty.items) + c)
            self.assume_valid(st, v)
            return v
        raise Unsupported("subscript on %s (line %s)" % (ty, self.cur_line))

    def default_value(self, dty):
        d = dty.default
        if d == "list":
            return self.empty_container(dty.v)
        if d == "dict":
            return self.empty_container(dty.v)
        return T.coerce(self.py_const(d), dty.v)

    def empty_container(self, ty):
        if isinstance(ty, List):
            return T.list_mk(ty, z3.K(INT.sort(), self.zero_of(ty.elem)), T.intval(0).t)
        if ty == BYTES:
            return self.bytesconst(b"")
        if isinstance(ty, Set):
            return V(ty, z3.K(ty.elem.sort(), False))
        if isinstance(ty, Dict):
            return T.dict_mk(ty, z3.K(ty.k.sort(), False), z3.K(ty.k.sort(), self.zero_of(ty.v)))
        raise Unsupported("empty %s" % ty)

    def zero_of(self, ty):
        self._zero = getattr(self, "_zero", {})
        k = (ty.key(), T.mode(), T.width())
        if k not in self._zero:
            self._zero[k] = z3.Const("zero_%s" % T._san(ty.key()), ty.sort())
        return self._zero[k]

    def slice_(self, st, o, sl):
        if sl.step is not None:
            raise Unsupported("slice step")
        ty = o.ty
        if not (isinstance(ty, List) or ty == BYTES):
            raise Unsupported("slice of %s" % ty)
        n = T.list_len(o)
        zero = T.intval(0).t
        res = []
        los = self.ev(sl.lower, st) if sl.lower is not None else [(st, T.intval(0))]
        for s1, lo in los:
            his = self.ev(sl.upper, s1) if sl.upper is not None else [(s1, V(INT, n))]
            for s2, hi in his:
                def clamp(x):
                    x = z3.If(x < zero, z3.If(n + x < zero, zero, n + x), x)
                    return z3.If(x > n, n, x)
                a, b = clamp(lo.t), clamp(hi.t)
                ln = z3.If(b > a, b - a, zero)
                j = z3.Const("j!sl", INT.sort())
                arr = z3.Lambda([j], z3.Select(T.list_arr(o), j + a))
                res.append((s2, V(ty, ty.sort().mk(arr, ln))))
        return res

    # ----------------------------------------------------------------- operators
    def ev_BinOp(self, e, st):
        res = []
        lit, cnt = (e.left, e.right) if isinstance(e.left, ast.List) else (e.right, e.left)
        if isinstance(e.op, ast.Mult) and isinstance(lit, ast.List) and not self.spec:
            # `[x, ...] * n` allocates n * len cells at once: beyond PY_SSIZE_T_MAX / 8 cells CPython raises MemoryError
            # before anything else happens (well below that it may too: that depends on the machine and is not claimed)
            for s, n in self.ev(cnt, st):
                if n.ty != INT:
                    raise Unsupported("sequence repetition by %s (line %s)" % (n.ty, self.cur_line))
                self.oblige(s, "alloc", "sequence-repetition-cannot-raise-MemoryError",
                            n.t * T.intval(max(len(lit.elts), 1)).t <= T.intval(2 ** 60).t, e.lineno, assume=True)
            if all(isinstance(x, ast.Constant) and x.value is None for x in lit.elts):
                raise Unsupported("a list of None placeholders (line %s)" % self.cur_line)
        for s, (a, b) in [(s, vs) for s, vs in self.ev_list([e.left, e.right], st)]:
            res.append((s, self.binop_v(s, e.op, a, b)))
        return res

    def binop_v(self, st, op, a, b):
        if isinstance(a.ty, Opt) or isinstance(b.ty, Opt):
            if isinstance(a.ty, Opt):
                if not self.spec:
                    self.fork_raise(st, T.opt_is_none(a), "TypeError")
                a = T.opt_val(a)
            if isinstance(b.ty, Opt):
                if not self.spec:
                    self.fork_raise(st, T.opt_is_none(b), "TypeError")
                b = T.opt_val(b)
        if isinstance(a.ty, List) and isinstance(op, ast.Add) and a.ty == b.ty:
            if not self.spec and st is not None and isinstance(a.ty.elem, (Ref, Fut)):
                return self.list_concat_ax(st, a, b)
            return self.list_concat(a, b)
        if a.ty == BYTES and b.ty == BYTES and isinstance(op, ast.Add):
            return self.list_concat(a, b)
        if isinstance(a.ty, Set) and a.ty == b.ty:
            if isinstance(op, ast.BitOr):
                return V(a.ty, z3.Map(_or_decl(), a.t, b.t))
            if isinstance(op, ast.BitAnd):
                return V(a.ty, z3.Map(_and_decl(), a.t, b.t))
            if isinstance(op, ast.Sub):
                return V(a.ty, z3.Map(_and_decl(), a.t, z3.Map(_not_decl(), b.t)))
        if a.ty == STR or b.ty == STR:
            # opaque string construction: result is an unconstrained string
            f = z3.Function("str_op_%s" % type(op).__name__, a.ty.sort(), b.ty.sort(), STR.sort())
            return V(STR, f(a.t, b.t))
        return arith.binop(self, st, op, a, b, self.cur_line)

    def list_concat_ax(self, st, a, b):
        """a + b as a fresh list tied to its operands by three pointwise facts with explicit triggers (the lambda form
        of list_concat leaves `Select(arr, k - len(a))` as the only term to match on, which no quantified fact about
        the elements of b ever meets)."""
        c = self.fresh(a.ty, "cat")
        la, lb = T.list_len(a), T.list_len(b)
        ca, aa, ba = T.list_arr(c), T.list_arr(a), T.list_arr(b)
        j = z3.FreshConst(INT.sort(), "jc")
        zero = T.intval(0).t
        st.assume(T.list_len(c) == la + lb)
        st.assume(z3.ForAll([j], z3.Implies(z3.And(zero <= j, j < la), z3.Select(ca, j) == z3.Select(aa, j)),
                            patterns=[z3.Select(aa, j)]))
        st.assume(z3.ForAll([j], z3.Implies(z3.And(zero <= j, j < lb), z3.Select(ca, la + j) == z3.Select(ba, j)),
                            patterns=[z3.Select(ba, j)]))
        st.assume(z3.ForAll([j], z3.Implies(z3.And(zero <= j, j < la + lb),
                                            z3.Select(ca, j) == z3.If(j < la, z3.Select(aa, j), z3.Select(ba, j - la))),
                            patterns=[z3.Select(ca, j)]))
        return c

    def list_concat(self, a, b):
        j = z3.Const("j!cat", INT.sort())
        la = T.list_len(a)
        arr = z3.Lambda([j], z3.If(j < la, z3.Select(T.list_arr(a), j), z3.Select(T.list_arr(b), j - la)))
        return V(a.ty, a.ty.sort().mk(arr, la + T.list_len(b)))

    def ev_UnaryOp(self, e, st):
        if isinstance(e.op, ast.Not):
            return [(s, V(BOOL, z3.Not(t))) for s, t in self.ev_truth(e.operand, st)]
        return [(s, arith.unop(self, s, e.op, v, self.cur_line)) for s, v in self.ev(e.operand, st)]

    def ev_truth(self, e, st):
        """[(st, z3 bool)] — truth value with Python short-circuit semantics."""
        if isinstance(e, ast.BoolOp):
            return self.boolop_truth(e, st)
        if isinstance(e, ast.UnaryOp) and isinstance(e.op, ast.Not):
            return [(s, z3.Not(t)) for s, t in self.ev_truth(e.operand, st)]
        return [(s, self.truthy(s, v)) for s, v in self.ev(e, st)]

    def boolop_truth(self, e, st):
        is_and = isinstance(e.op, ast.And)
        res = []
        work = [(st, None)]
        for i, sub in enumerate(e.values):
            nxt = []
            for s, acc in work:
                # evaluate `sub` under the assumption that evaluation got this far
                guard = acc if acc is not None else z3.BoolVal(True)
                probe = s.copy()
                if acc is not None:
                    probe.assume(acc if is_and else z3.Not(acc))
                nraise = len(self.raises_stack[-1]) if self.raises_stack else 0
                nobl = len(self.obls)
                npc = len(probe.pc)
                outs = self.ev_truth(sub, probe)
                pure = (len(outs) == 1 and (not self.raises_stack or len(self.raises_stack[-1]) == nraise)
                        and len(self.obls) == nobl and outs[0][0].heap == s.heap and outs[0][0].env == s.env)
                if pure:
                    # facts learned while evaluating `sub` (validity of heap reads, cardinality
                    # axioms) hold under the guard that evaluation got this far
                    for f in outs[0][0].pc[npc:]:
                        s.assume(f if acc is None else z3.Implies(acc if is_and else z3.Not(acc), f))
                    t = outs[0][1]
                    comb = t if acc is None else (z3.And(acc, t) if is_and else z3.Or(acc, t))
                    nxt.append((s, comb))
                else:
                    if acc is not None:
                        # short-circuited path: evaluation stopped before `sub`
                        sc = s.copy().assume(z3.Not(acc) if is_and else acc)
                        res.append((sc, z3.BoolVal(not is_and)))
                    for s2, t in outs:
                        nxt.append((s2, t))
            work = nxt
        for s, acc in work:
            res.append((s, acc))
        return res

    def ev_BoolOp(self, e, st):
        # value semantics: if all operands are BOOL this is just the truth value
        outs = self.ev_truth(e, st)
        # check operand types cheaply: non-bool operands returning operands are handled for `x or default`
        if len(e.values) == 2 and isinstance(e.op, ast.Or):
            try:
                self.spec += 1
                (sa, a) = self.ev1(e.values[0], st.copy())
                (sb, b) = self.ev1(e.values[1], st.copy())
            except Unsupported:
                a = b = None
            finally:
                self.spec -= 1
            if a is not None and b.ty == PYOBJ and getattr(b.t, "kind", None) in ("emptylist", "emptyset", "emptydict"):
                inner = a.ty.inner if isinstance(a.ty, Opt) else a.ty
                if isinstance(inner, (List, Set, Dict)):
                    # `xs or []`: xs itself when it is there and not empty, else a new empty container
                    av = T.opt_val(a) if isinstance(a.ty, Opt) else a
                    return [(st, V(inner, z3.If(self.truthy(st, a), av.t, self.empty_container(inner).t)))]
            if a is not None and a.ty != BOOL:
                target = b.ty
                ca = T.coerce(a, target) if not isinstance(a.ty, Opt) else (T.opt_val(a) if a.ty.inner == target else None)
                if ca is not None and ca.ty == b.ty and b.ty != PYOBJ:
                    return [(st, V(b.ty, z3.If(self.truthy(st, a), ca.t, b.t)))]
                raise Unsupported("`or` over %s, %s (line %s)" % (a.ty, b.ty, self.cur_line))
        return [(s, V(BOOL, t)) for s, t in outs]

    def ev_Compare(self, e, st):
        res = []
        for s, vals in self.ev_list([e.left] + list(e.comparators), st):
            acc = []
            for i, op in enumerate(e.ops):
                acc.append(self.cmp(s, op, vals[i], vals[i + 1]))
            res.append((s, V(BOOL, z3.And(acc) if len(acc) > 1 else acc[0])))
        return res

    def cmp(self, st, op, a, b):
        if isinstance(op, (ast.Eq, ast.Is)):
            return self.eq(st, a, b)
        if isinstance(op, (ast.NotEq, ast.IsNot)):
            return z3.Not(self.eq(st, a, b))
        if isinstance(op, (ast.In, ast.NotIn)):
            r = self.contains(st, b, a)
            return z3.Not(r) if isinstance(op, ast.NotIn) else r
        if isinstance(a.ty, Opt) or isinstance(b.ty, Opt):
            if isinstance(a.ty, Opt):
                if not self.spec:
                    self.fork_raise(st, T.opt_is_none(a), "TypeError")
                a = T.opt_val(a)
            if isinstance(b.ty, Opt):
                if not self.spec:
                    self.fork_raise(st, T.opt_is_none(b), "TypeError")
                b = T.opt_val(b)
        if a.ty == BOOL:
            a = T.coerce(a, INT)
        if b.ty == BOOL:
            b = T.coerce(b, INT)
        if a.ty in (INT, REAL) and b.ty in (INT, REAL):
            return arith.compare(op, a, b)
        raise Unsupported("ordering between %s and %s (line %s)" % (a.ty, b.ty, self.cur_line))

    def contains(self, st, coll, x):
        coll = self.deref_dictlike(st, coll)
        ty = coll.ty
        if isinstance(ty, Opt):
            coll = T.opt_val(coll)
            ty = coll.ty
        if isinstance(ty, Set):
            cx = self.coerce_to(st, x, ty.elem, "member")
            if cx is None:
                raise Unsupported("`in` set elem type %s vs %s" % (x.ty, ty.elem))
            return z3.Select(coll.t, cx.t)
        if isinstance(ty, Dict):
            cx = self.coerce_to(st, x, ty.k, "key")
            if cx is None:
                raise Unsupported("`in` dict key type")
            return z3.Select(T.dict_dom(coll), cx.t)
        if isinstance(ty, List):
            cx = self.coerce_to(st, x, ty.elem, "member")
            if cx is None:
                raise Unsupported("`in` list elem type %s vs %s" % (x.ty, ty.elem))
            ln = T.list_len(coll)
            lc = arith.const_of(ln)
            if lc is not None and lc <= 16:
                return z3.Or([self.eq(st, V(ty.elem, z3.Select(T.list_arr(coll), T.intval(i).t)), cx) for i in range(lc)]) \
                    if lc else z3.BoolVal(False)
            j = z3.FreshConst(INT.sort(), "j")
            return z3.Exists([j], z3.And(j >= T.intval(0).t, j < ln, z3.Select(T.list_arr(coll), j) == cx.t))
        if isinstance(ty, Tup):
            return z3.Or([self.eq(st, T.tup_get(coll, i), x) for i in range(len(ty.items))])
        raise Unsupported("`in` on %s (line %s)" % (ty, self.cur_line))

    def ev_IfExp(self, e, st):
        res = []
        for s, t in self.ev_truth(e.test, st):
            sa = s.copy().assume(t)
            sb = s.copy().assume(z3.Not(t))
            nra = len(self.raises_stack[-1]) if self.raises_stack else 0
            no = len(self.obls)
            npa, npb = len(sa.pc), len(sb.pc)
            oa = self.ev(e.body, sa)
            ob = self.ev(e.orelse, sb)
            pure = (len(oa) == 1 and len(ob) == 1 and len(self.obls) == no
                    and (not self.raises_stack or len(self.raises_stack[-1]) == nra)
                    and oa[0][0].heap == s.heap and ob[0][0].heap == s.heap)
            if pure:
                for f in oa[0][0].pc[npa:]:
                    s.assume(z3.Implies(t, f))
                for f in ob[0][0].pc[npb:]:
                    s.assume(z3.Implies(z3.Not(t), f))
                a, b = oa[0][1], ob[0][1]
                if a.ty != b.ty:
                    if a.ty == NONE and b.ty != NONE and b.ty != PYOBJ:
                        oty = b.ty if isinstance(b.ty, Opt) else Opt(b.ty)
                        a, b = T.coerce(a, oty), T.coerce(b, oty)
                    elif b.ty == NONE and a.ty != PYOBJ:
                        oty = a.ty if isinstance(a.ty, Opt) else Opt(a.ty)
                        a, b = T.coerce(a, oty), T.coerce(b, oty)
                    else:
                        ca = T.coerce(a, b.ty)
                        cb = T.coerce(b, a.ty)
                        if ca is not None:
                            a = ca
                        elif cb is not None:
                            b = cb
                if a.ty == b.ty and a.ty != PYOBJ:
                    res.append((s, V(a.ty, z3.If(t, a.t, b.t))))
                    continue
            for x in oa:
                if self.feasible(x[0]):
                    res.append(x)
            for x in ob:
                if self.feasible(x[0]):
                    res.append(x)
        return res

    def ev_Tuple(self, e, st):
        res = []
        for s, vs in self.ev_list(e.elts, st):
            if any(v.ty == PYOBJ for v in vs):
                res.append((s, V(PYOBJ, PyThing("pytuple", items=vs))))
            else:
                vs = [V(Opt(INT), None) if False else v for v in vs]
                ty = Tup(*[v.ty for v in vs])
                res.append((s, T.tup_mk(ty, vs)))
        return res

    def ev_List(self, e, st):
        res = []
        for s, vs in self.ev_list(e.elts, st):
            if not vs:
                res.append((s, V(PYOBJ, PyThing("emptylist"))))
                continue
            if any(v.ty == PYOBJ for v in vs):
                res.append((s, V(PYOBJ, PyThing("pytuple", items=vs))))
                continue
            ety = vs[0].ty
            for v in vs[1:]:
                if T.coerce(v, ety) is None and isinstance(v.ty, Opt) and v.ty.inner == ety:
                    ety = v.ty                      # [x, maybe_x]: the element type is the optional one
            lty = List(ety)
            arr = z3.K(INT.sort(), self.zero_of(ety))
            for i, v in enumerate(vs):
                cv = T.coerce(v, ety)
                if cv is None:
                    raise Unsupported("heterogeneous list literal")
                arr = z3.Store(arr, T.intval(i).t, cv.t)
            res.append((s, T.list_mk(lty, arr, T.intval(len(vs)).t)))
        return res

    # ---- list comprehensions ------------------------------------------------------------------------------------
    # [x.f for x in S]  /  [y.f for xs in D.values() for y in xs]   (one or two generators, no `if`, no await)
    # The element expression is the bound variable itself or one attribute of it, the variable being a non-optional
    # value: nothing in the comprehension can raise or write. The result R is a fresh list tied to the domain by two
    # Skolemised facts - every domain element has an index in R, every index of R has a domain element - and, for a
    # single generator over a list, by the exact order-preserving equation.
    def _comp_strip(self, it):
        if isinstance(it, ast.Call) and isinstance(it.func, ast.Name) and it.func.id in ("list", "tuple") and len(it.args) == 1 \
                and not it.keywords:
            return it.args[0]
        return it

    def _comp_level(self, v):
        """-> (bound constants, guard, element value, is_list)"""
        if v.ty == PYOBJ and v.t.kind in ("dictvalues", "dictkeys"):
            d = v.t.dict
            q = z3.FreshConst(d.ty.k.sort(), "cq")
            g = z3.Select(T.dict_dom(d), q)
            el = V(d.ty.v, z3.Select(T.dict_val(d), q)) if v.t.kind == "dictvalues" else V(d.ty.k, q)
            return [q], g, el, False
        if isinstance(v.ty, List):
            j = z3.FreshConst(INT.sort(), "cj")
            g = z3.And(T.intval(0).t <= j, j < T.list_len(v))
            return [j], g, V(v.ty.elem, z3.Select(T.list_arr(v), j)), True
        if isinstance(v.ty, Set):
            x = z3.FreshConst(v.ty.elem.sort(), "cx")
            return [x], z3.Select(v.t, x), V(v.ty.elem, x), False
        if isinstance(v.ty, Dict):
            q = z3.FreshConst(v.ty.k.sort(), "cq")
            return [q], z3.Select(T.dict_dom(v), q), V(v.ty.k, q), False
        raise Unsupported("comprehension over %s (line %s)" % (v.ty, self.cur_line))

    def ev_ListComp(self, e, st):
        gens = e.generators
        if self.spec or len(gens) not in (1, 2) or any(g.is_async or not isinstance(g.target, ast.Name) for g in gens) \
                or any(g.ifs for g in gens[:-1]):
            raise Unsupported("comprehension shape (line %s)" % getattr(e, "lineno", "?"))
        filters = gens[-1].ifs
        if any(isinstance(x, (ast.Call, ast.Await, ast.NamedExpr, ast.Yield, ast.Lambda)) for f in filters for x in ast.walk(f)):
            raise Unsupported("comprehension filter with a call (line %s)" % e.lineno)
        last = gens[-1].target.id
        elt = e.elt
        if not (isinstance(elt, ast.Name) and elt.id == last) and not (
                isinstance(elt, ast.Attribute) and isinstance(elt.value, ast.Name) and elt.value.id == last):
            raise Unsupported("comprehension element must be the loop variable or one attribute of it (line %s)" % e.lineno)
        res = []
        for s, v0 in self.ev(self._comp_strip(gens[0].iter), st):
            bvs, guard, el, is_list = self._comp_level(v0)
            env = {gens[0].target.id: el}
            if len(gens) == 2:
                it1 = self._comp_strip(gens[1].iter)
                if not (isinstance(it1, ast.Name) and it1.id == gens[0].target.id):
                    raise Unsupported("inner generator must iterate the outer variable (line %s)" % e.lineno)
                if isinstance(el.ty, Opt):
                    raise Unsupported("comprehension over an optional value (line %s)" % e.lineno)
                bvs1, g1, el1, _ = self._comp_level(el)
                bvs, guard, el = bvs + bvs1, z3.And(guard, g1), el1
                env[gens[1].target.id] = el
                is_list = False
            if isinstance(el.ty, Opt) and isinstance(elt, ast.Attribute):
                raise Unsupported("attribute of an optional comprehension variable (line %s)" % e.lineno)
            for f in filters:
                # `[x for x in xs if cond(x)]` (cond pure): exactly the members that satisfy cond, each of them present
                # (the order of the result is not modelled)
                guard = z3.And(guard, self.truthy(s, self.spec_eval(f, s, extra=env)))
                is_list = False
            ev = self.spec_eval(elt, s, extra=env)
            if ev.ty == PYOBJ:
                raise Unsupported("comprehension element %s (line %s)" % (ast.unparse(elt), e.lineno))
            rty = List(ev.ty)
            r = self.fresh(rty, "comp")
            self.assume_valid(s, r)
            arr, ln = T.list_arr(r), T.list_len(r)
            if is_list:
                s.assume(ln == T.list_len(v0))
                s.assume(z3.ForAll(bvs, z3.Implies(guard, z3.Select(arr, bvs[0]) == ev.t)))
            else:
                n = self.__dict__["_comp_n"] = self.__dict__.get("_comp_n", 0) + 1
                idx = z3.Function("comp_idx%d" % n, *([b.sort() for b in bvs] + [INT.sort()]))
                ix = idx(*bvs)
                # trigger: the domain element itself (`D[q][j]`, `x in S`), so that a goal about an element finds its index
                pat = guard if z3.is_const(el.t) else el.t
                fact = z3.Implies(guard, z3.And(T.intval(0).t <= ix, ix < ln, z3.Select(arr, ix) == ev.t))
                try:
                    if z3.is_app(pat) and not z3.is_and(pat):
                        q = z3.ForAll(bvs, fact, patterns=[pat])
                    else:
                        q = z3.ForAll(bvs, fact)
                except z3.Z3Exception:          # e.g. an if-then-else inside the would-be pattern
                    q = z3.ForAll(bvs, fact)
                s.assume(q)
                k = z3.FreshConst(INT.sort(), "ck")
                srcs = [z3.Function("comp_src%d_%d" % (n, i), INT.sort(), b.sort())(k) for i, b in enumerate(bvs)]
                body = z3.substitute(z3.And(guard, z3.Select(arr, k) == ev.t), *zip(bvs, srcs))
                s.assume(z3.ForAll([k], z3.Implies(z3.And(T.intval(0).t <= k, k < ln), body), patterns=[z3.Select(arr, k)]))
            res.append((s, r))
        return res

    # {k for k in S if cond} / {k for k, v in D.items() if cond(k, v)}: the element is the (key) variable itself, the filters
    # are pure; the result is exactly the set of domain members that pass the filters (a set needs no order)
    def ev_SetComp(self, e, st):
        gens = e.generators
        if self.spec or len(gens) != 1 or gens[0].is_async:
            raise Unsupported("set comprehension shape (line %s)" % getattr(e, "lineno", "?"))
        g = gens[0]
        if any(isinstance(x, (ast.Call, ast.Await, ast.NamedExpr, ast.Yield, ast.Lambda)) for f in g.ifs for x in ast.walk(f)):
            raise Unsupported("set comprehension filter with a call (line %s)" % e.lineno)
        res = []
        for s, v0 in self.ev(g.iter, st):
            env = {}
            if v0.ty == PYOBJ and v0.t.kind == "dictitems":
                d = self.deref_dictlike(s, v0.t.dict)
                if not (isinstance(g.target, ast.Tuple) and len(g.target.elts) == 2 and all(isinstance(x, ast.Name) for x in g.target.elts)):
                    raise Unsupported("set comprehension over items() needs a (key, value) target (line %s)" % e.lineno)
                q = z3.FreshConst(d.ty.k.sort(), "sq")
                guard = z3.Select(T.dict_dom(d), q)
                env[g.target.elts[0].id] = V(d.ty.k, q)
                env[g.target.elts[1].id] = V(d.ty.v, z3.Select(T.dict_val(d), q))
                keyname = g.target.elts[0].id
                kty = d.ty.k
            else:
                if not isinstance(g.target, ast.Name):
                    raise Unsupported("set comprehension target (line %s)" % e.lineno)
                bvs, guard, el, _ = self._comp_level(self.deref_dictlike(s, v0) if v0.ty != PYOBJ else v0)
                if len(bvs) != 1 or not z3.is_const(el.t) or not z3.eq(el.t, bvs[0]):
                    raise Unsupported("set comprehension over %s (line %s)" % (v0.ty, e.lineno))
                q, kty, keyname = bvs[0], el.ty, g.target.id
                env[keyname] = el
            if not (isinstance(e.elt, ast.Name) and e.elt.id == keyname):
                raise Unsupported("set comprehension element must be the (key) variable (line %s)" % e.lineno)
            for f in g.ifs:
                guard = z3.And(guard, self.truthy(s, self.spec_eval(f, s, extra=env)))
            res.append((s, V(Set(kty), z3.Lambda([q], guard))))
        return res

    def ev_Dict(self, e, st):
        if e.keys:
            # a literal dict is only supported as an opaque payload (e.g. an exception argument)
            res = []
            for s, vs in self.ev_list([k for k in e.keys if k is not None] + list(e.values), st):
                res.append((s, V(PYOBJ, PyThing("pydict", items=vs))))
            return res
        return [(st, V(PYOBJ, PyThing("emptydict")))]

    def ev_Set(self, e, st):
        raise Unsupported("set literal")

    def ev_JoinedStr(self, e, st):
        res = [(st, None)]
        for part in e.values:
            if isinstance(part, ast.FormattedValue):
                if not any(isinstance(x, (ast.Call, ast.Await, ast.NamedExpr, ast.Yield)) for x in ast.walk(part.value)):
                    continue          # a call-free interpolation has no effect; the text itself is opaque
                nxt = []
                for s, _ in res:
                    for s2, _v in self.ev(part.value, s):
                        nxt.append((s2, None))
                res = nxt
        return [(s, self.fresh(STR, "fstr")) for s, _ in res]

    def ev_Lambda(self, e, st):
        return [(st, V(PYOBJ, PyThing("lambda", node=e, env=dict(st.env))))]

    def ev_NamedExpr(self, e, st):
        res = []
        for s, v in self.ev(e.value, st):
            s.env[e.target.id] = v
            res.append((s, v))
        return res

    def ev_Starred(self, e, st):
        raise Unsupported("starred expression")

    def ev_Await(self, e, st):
        res = []
        self.awaited_call = e.value          # a suspending call model (havoc_all) applied to this node *is* the await
        for s, v in self.ev(e.value, st):
            res.extend(self.await_point(s, v, e))
        if isinstance(e.value, ast.Call) and not self.spec:
            # hooks of kind "after-await": run when the awaiting task resumes (ghost flags reset by the yield
            # point can be re-armed here, e.g. 'the rebalance gate was just passed')
            ftext = ast.unparse(e.value.func)
            import fnmatch
            for h in self.c.hooks:
                if h[0] == "after-await" and any(fnmatch.fnmatchcase(t, h[1]) for t in self.call_texts(ftext)):
                    for s, _ in res:
                        self.run_hook(s, h, e)
        return res


_CACHE = {}


def _parse(s):
    if s not in _CACHE:
        _CACHE[s] = ast.parse(s.strip().replace("$", "G_"), mode="eval").body
    return _CACHE[s]


def _or_decl():
    x, y = z3.Bools("x y")
    return z3.Or(x, y).decl()


def _and_decl():
    x, y = z3.Bools("x y")
    return z3.And(x, y).decl()


def _not_decl():
    x = z3.Bool("x")
    return z3.Not(x).decl()
