#!/usr/bin/env python3
"""Regenerates MANIFEST.json from the table below (kept in one place so it stays valid)."""
import json, os
ROOT = os.path.dirname(os.path.dirname(os.path.abspath(__file__)))
CLAIMS = json.load(open(os.path.join(ROOT, "tools", "claims.json")))
props = [json.loads(l)["id"] for l in open(os.path.join(ROOT, "properties.jsonl"))]
checks, na = [], []
for pid in props:
    c = CLAIMS.get(pid)
    if not c or c.get("not_applicable"):
        na.append({"property_id": pid, "reason": (c or {}).get("not_applicable", "no check built yet in this session; see DESIGN.md §4 for the plan")})
        continue
    checks.append({
        "property_id": pid,
        "quick_cmd": "./vc check %s --tier quick" % pid,
        "thorough_cmd": "./vc check %s --tier thorough" % pid,
        "evidence_file": "/verif/evidence/%s.json" % pid,
        "replay_cmd_template": "./vc replay {path}",
        "engine": "pyvc",
        "level_claimed": {"category": c["category"], "text": c["text"], "design_ref": c.get("design_ref", "DESIGN.md §4 " + pid)},
        "level_note": c["note"],
        "technique": c["technique"],
    })
m = {
    "version": 1,
    "setup_cmd": "python3-vt -c \"import z3, sys; sys.path.insert(0,'/verif'); import contracts; contracts.load_all(); print('pyvc ready, z3', z3.get_version_string())\"",
    "hooks": {"guard": "AIO_LIBS_AIOKAFKA_VERIF", "enable": "none needed: pyvc re-reads /repo's sources on every run; no hook code exists in /repo",
              "baseline_off_cmd": "cd /repo && /venv/bin/python -m pytest -ra -q -p no:cacheprovider --timeout=900 --continue-on-collection-errors",
              "source_commits": [], "add_only": True},
    "engines": [{"name": "pyvc", "path": "/verif/pyvc", "serves_properties": [c["property_id"] for c in checks],
                 "kind_free_text": "contract-based deductive verifier built here: VC generation by symbolic execution of the real function ASTs re-read from /repo on every run, sidecar contracts in /verif/contracts, discharge by z3 5.1 with cvc5 on unknowns, counter-model replay on the real code under /venv/bin/python"}],
    "checks": checks,
    "not_applicable": na,
    "notes": "exit codes: 0 held, 1 violation (VIOLATION line), 2 undecided, 3 checker error. Known findings: /verif/known_findings.txt.",
}
json.dump(m, open(os.path.join(ROOT, "MANIFEST.json"), "w"), indent=1)
print("checks:", [c["property_id"] for c in checks], "n/a:", len(na))
