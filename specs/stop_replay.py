"""Replay scenario for AIOKafkaProducer.stop() on the real producer, sender and accumulator over a stubbed client (C02 / C19):
records accepted before stop() are resolved - acknowledged or failed - when stop() returns, also when the partition leader
answers slowly and with a retriable error first. Runs under /venv/bin/python.

sweep() -> list of problem strings."""
import asyncio
import logging

logging.disable(logging.CRITICAL)


async def scenario(first_answer_after, first_code, request_timeout_ms, retry_backoff_ms, second_stop=False):
    from unittest import mock
    from aiokafka.producer.producer import AIOKafkaProducer
    from aiokafka.protocol.metadata import MetadataResponse_v1
    from aiokafka.protocol.produce import ProduceRequest, ProduceResponse_v2
    p = AIOKafkaProducer(bootstrap_servers="h:1", request_timeout_ms=request_timeout_ms, retry_backoff_ms=retry_backoff_ms,
                         linger_ms=0, acks=1)
    client = p.client
    client.api_version = (2, 0, 0)

    async def boot():
        return None

    async def sync():
        await asyncio.sleep(3600)
    client._md_synchronizer = sync
    client.cluster.update_metadata(MetadataResponse_v1([(0, "h", 1, None)], 0, [(0, "t", False, [(0, 0, 0, [0], [0])])]))

    async def ready(node, group=None):
        return True
    client.ready = ready
    state = {"n": 0, "offset": 0}

    async def send(node, request, group=None):
        if not isinstance(request, ProduceRequest):
            await asyncio.sleep(3600)
        state["n"] += 1
        if state["n"] == 1:
            await asyncio.sleep(first_answer_after)
            return ProduceResponse_v2([("t", [(0, first_code, -1, -1)])], 0)
        await asyncio.sleep(0.01)
        state["offset"] += 1
        return ProduceResponse_v2([("t", [(0, 0, state["offset"] - 1, -1)])], 0)
    client.send = send

    def fmu():
        f = asyncio.get_running_loop().create_future()
        f.set_result(True)
        return f
    client.force_metadata_update = fmu
    with mock.patch.object(type(client), "bootstrap", new=lambda self: boot()):
        await p.start()
    futs = [await p.send("t", b"v%d" % i, partition=0) for i in range(2)]
    t0 = asyncio.get_running_loop().time()
    if second_stop:
        # two shutdown paths of an application (a signal handler and a finally block) both call stop()
        first = asyncio.ensure_future(p.stop())
        await asyncio.sleep(0)
        await asyncio.wait_for(p.stop(), 10)
        took = asyncio.get_running_loop().time() - t0
        pending = [i for i, f in enumerate(futs) if not f.done()]
        await asyncio.wait_for(first, 10)
        for f in futs:
            if f.done() and not f.cancelled():
                f.exception()
        if pending:
            return ("a second stop() issued while the first one was flushing returned after %.2f s with the futures of records %r "
                    "unresolved" % (took, pending))
        return None
    await asyncio.wait_for(p.stop(), 10)          # a stop() that never returns is a harness failure: propagates
    took = asyncio.get_running_loop().time() - t0
    pending = [i for i, f in enumerate(futs) if not f.done()]
    for f in futs:
        if f.done() and not f.cancelled():
            f.exception()
    if pending:
        return ("leader answers the first Produce after %.1f s with error %d, request_timeout_ms=%d, retry_backoff_ms=%d: stop() "
                "returned after %.2f s with the futures of records %r unresolved (the retry would have succeeded)"
                % (first_answer_after, first_code, request_timeout_ms, retry_backoff_ms, took, pending))
    return None


def sweep():
    bad = []

    async def main():
        # NOT_LEADER_FOR_PARTITION / REQUEST_TIMED_OUT answered late: stop()'s own patience, if it had any, would end inside the back-off
        for first_after, code, rt, backoff in ((0.4, 6, 500, 300), (0.35, 7, 400, 200), (0.0, 6, 300, 100)):
            r = await scenario(first_after, code, rt, backoff)
            if r:
                bad.append(r)
        r = await scenario(0.3, 0, 2000, 100, second_stop=True)
        if r:
            bad.append(r)
    asyncio.run(main())
    return bad


if __name__ == "__main__":
    for b in sweep():
        print(b)
