"""C18 — aiokafka/conn.py: the SASL exchange of a connection (AIOKafkaConnection._do_sasl_handshake).

"... so it never completes authentication with a server that does not know the password": the authenticator
(ScramAuthenticator: bounded stand-in bounded/C18.py) aborts on a wrong nonce or signature - provided it is shown what the
server sent. The driver of the exchange therefore has two duties, for every number of rounds: every token of the broker is
handed, unchanged, to the authenticator's next step, and the login completes only when the authenticator itself has ended
the exchange (its step returned None) - never because a reply was empty, an error code was overlooked or a round skipped."""
from pyvc.contract import contract, classmodel, specfn, SPEC_TYPES
from pyvc.ty import V, INT, BOOL, REAL, STR, NONE, EXC, BYTES, Opt, Tup, List, Set, Dict, Ref, Opaque
from pyvc.exec_base import Fut
from . import conn as CN

MOD = CN.MOD
# what self.send answers here: a SaslHandShakeResponse or a SaslAuthenticateResponse (one model with the fields of both)
classmodel("SaslReply", {"API_VERSION": INT, "error_code": INT, "enabled_mechanisms": List(STR), "error_message": Opt(STR),
                         "sasl_auth_bytes": Opt(BYTES)})
classmodel("Authenticator", {})
CLOSE_MODS = ["Conn._writer", "Conn._reader", "Conn._read_task", "Conn._requests", "Conn._on_close_cb", "Conn.g_closes",
              "Future.state", "Future.nres", "Future.exc", "Handle.cancelled"]


@contract(MOD + ":AIOKafkaConnection._do_sasl_handshake", ["C18"])
def _(c):
    c.self_("Conn")
    c.none_raises = True
    c.no_class_inv = True
    c.ghost("$reply", Opt(BYTES), "None")         # the broker's latest token
    c.ghost("$steps", INT, "0")                   # rounds of the authenticator so far
    c.ghost("$finished", BOOL, "False")           # the authenticator has ended the exchange
    c.ghost("$refused", BOOL, "False")            # the broker answered a round with an error code
    c.local("auth_bytes", Opt(BYTES))
    c.owns("self._sasl_mechanism", "self._security_protocol")
    c.call("SaslHandShakeRequest", returns=Ref("RequestObj"), note="request object")
    c.call("SaslAuthenticateRequest", returns=Ref("RequestObj"), note="request object")
    c.call("self.send", returns=Ref("SaslReply"), havoc_all=True, raises=["KafkaError", "CancelledError"],
           ghost={"$reply": "result.sasl_auth_bytes", "$refused": "$refused or Errors.for_code(result.error_code) != Errors.NoError"},
           note="AIOKafkaConnection.send (under contract, conn.py): suspends; the decoded reply")
    c.call("self._send_sasl_token", returns=Opt(BYTES), havoc_all=True, raises=["KafkaError", "CancelledError"],
           ghost={"$reply": "result"},
           note="pre-1.0 brokers: the token framed by its length only; the broker's token, or None when no reply is expected")
    for m in ("gssapi", "scram", "oauth", "plain"):
        c.call("self.authenticator_" + m, returns=Ref("Authenticator"), note="constructs the mechanism's authenticator")
    c.call("authenticator.step", returns=Opt(Tup(BYTES, BOOL)), havoc_all=True, raises=["Exception", "CancelledError"],
           ghost={"$finished": "result is None"},
           note="SaslAuthenticator.step(token): next client message and whether a reply is expected, None when the "
                "exchange is complete; raises when the server's message does not verify (ScramAuthenticator: bounded/C18.py)")
    c.call("self.close", returns=Opt(Fut(NONE)), raises=[], modifies=CLOSE_MODS,
           note="AIOKafkaConnection.close (under contract, conn.py)")
    c.modifies(*CLOSE_MODS)
    c.raises("refused-failed-or-cancelled", "BaseException")
    c.loop(0, header="while True", invariants=[
        ("no-refusal-was-overlooked", "not $refused"),
        ("the-token-kept-for-the-next-round-is-the-brokers-latest",
         "$steps >= 0 and ((auth_bytes is None) if $steps == 0 else (auth_bytes == $reply))")])
    c.hook("before", "authenticator.step", [
        ("assert", "every-token-of-the-broker-is-handed-to-the-authenticator-unchanged",
         "(a0 is None) if $steps == 0 else (a0 == $reply)"),
        ("set", "$steps", "$steps + 1"),
    ])
    c.ensures_internal("the-login-completes-only-when-the-authenticator-has-ended-the-exchange", "$finished and not $refused")
    c.replay_fn = lambda model, ob=None: {"script": _SASL_SCRIPT}


# replay: the real _do_sasl_handshake of a real AIOKafkaConnection object, its send / _send_sasl_token answered by the
# independent RFC 5802 server of specs/scram_rfc5802.py - honest, and with each tampering of the server's messages
_SASL_SCRIPT = '''
import sys, logging
logging.disable(logging.CRITICAL)
sys.path.insert(0, "/verif")
from bounded import C18
n, fails = C18.handshakes("quick", 0)
VIOLATED = bool(fails); DETAIL = "%d of %d SASL handshakes ended wrongly; first: %r" % (len(fails), n, fails[:1])
'''
