"""C19 — aiokafka/client.py: waiting for a metadata refresh (AIOKafkaClient._maybe_wait_metadata).

C19 "Afterwards no task, timer or connection created by that client is still alive": close() stops the metadata synchroniser
(_md_synchronizer) and then closes every connection. The synchroniser completes the future `_md_update_fut`, which every
caller waiting for a refresh shares. asyncio propagates the cancellation of a task to the future it is waiting on, so a
caller that gives up (wait_for timeout of an offsets lookup, request_timeout_ms) while awaiting that future *bare* cancels it
for everybody: the synchroniser's set_result then raises InvalidStateError, the task dies, and close() re-raises that error
before a single connection is closed. Every wait on the shared future therefore goes through asyncio.shield."""
from pyvc.contract import contract, classmodel, specfn, SPEC_TYPES, CLASSES
from pyvc.ty import V, INT, BOOL, REAL, STR, NONE, EXC, BYTES, Opt, Tup, List, Set, Dict, Ref, Opaque
from pyvc.exec_base import Fut

MOD = "aiokafka.client"
classmodel("LoopObj3", {})
classmodel("KafkaClient", {"_md_update_fut": Opt(Fut(BOOL)), "_md_update_waiter": Fut(NONE), "_loop": Ref("LoopObj3")},
           real=MOD + ":AIOKafkaClient")


@contract(MOD + ":AIOKafkaClient._maybe_wait_metadata", ["C19"])
def _(c):
    c.self_("KafkaClient")
    c.no_class_inv = True
    c.none_raises = True
    c.shared("self._md_update_fut")
    c.call("asyncio.shield", returns=Fut(BOOL), post=["fresh(result)"],
           note="asyncio.shield(fut): a new outer future that follows fut; cancelling the outer one does not cancel fut")
    c.raises("cancelled-or-the-refresh-failed", "BaseException")
    c.replay_fn = lambda model, ob=None: {"script": _WAIT_SCRIPT}


@contract(MOD + ":AIOKafkaClient.force_metadata_update", ["C19"])
def _(c):
    c.self_("KafkaClient")
    c.returns(Fut(BOOL))
    c.no_class_inv = True
    c.none_raises = True
    c.call("asyncio.shield", returns=Fut(BOOL), post=["fresh(result)"],
           note="asyncio.shield(fut): a new outer future that follows fut; cancelling the outer one does not cancel fut")
    c.call("self._loop.create_future", returns=Fut(BOOL), post=["fresh(result)", "not result.done()"], note="a new pending future")
    c.modifies("self._md_update_fut", "Future.state", "Future.nres")
    c.ensures("callers-get-a-shield-never-the-shared-future-itself",
              "self._md_update_fut is not None and result != self._md_update_fut and fresh(result)")
    c.ensures("a-refresh-in-progress-is-joined-not-replaced",
              "implies(old(self._md_update_fut) is not None, self._md_update_fut == old(self._md_update_fut))")
    c.ensures("the-synchroniser-is-woken-for-a-new-refresh",
              "implies(old(self._md_update_fut) is None, self._md_update_waiter.done())")
    c.replay_fn = lambda model, ob=None: {"script": _WAIT_SCRIPT}


# replay: a real AIOKafkaClient object (never bootstrapped): a refresh is pending, a caller waiting for it is cancelled
# (through _maybe_wait_metadata and through force_metadata_update): the shared future must survive
_WAIT_SCRIPT = '''
import asyncio, logging
logging.disable(logging.CRITICAL)
from aiokafka.client import AIOKafkaClient

async def main():
    bad = []
    for how in ("_maybe_wait_metadata", "force_metadata_update"):
        client = AIOKafkaClient(bootstrap_servers=[])
        if how == "_maybe_wait_metadata":
            client._md_update_fut = asyncio.get_running_loop().create_future()
            waiter = asyncio.ensure_future(client._maybe_wait_metadata())
        else:
            async def caller():
                await client.force_metadata_update()
            waiter = asyncio.ensure_future(caller())
        await asyncio.sleep(0.01)
        shared = client._md_update_fut
        waiter.cancel()
        await asyncio.gather(waiter, return_exceptions=True)
        if shared is None or shared.cancelled():
            bad.append("a caller cancelled while waiting in %s cancelled the metadata future shared with the synchroniser "
                       "(its set_result would raise InvalidStateError)" % how)
        elif shared.done():
            bad.append("%s: shared future unexpectedly done" % how)
        else:
            shared.set_result(True)
    return bad
bad = asyncio.run(main())
VIOLATED = bool(bad); DETAIL = "; ".join(bad)
'''


# ------------------------------------------------------------------ AIOKafkaClient._md_synchronizer
# C06 "the members' assignments together cover every partition of every subscribed topic": the leader computes the assignment
# from the metadata of the topics the group follows; set_topics() asks for them and _maybe_wait_metadata() waits for the
# update future. The synchronizer may resolve that future only with metadata that was fetched for the topic set that is
# current when it resolves it - if the set changed while the request was on the wire (in whatever way: grown, shrunk,
# replaced), it fetches again first.
# Modelling assumption (listed in the evidence): the set of followed topics is an object that set_topics() *replaces* (it
# rebinds the attribute; the group coordinator only uses set_topics()); the code's `topics = self._topics` keeps the object
# that was current when the request was built and `topics != self._topics` is read as "it has been replaced since". An
# in-place add_topic() on that object during the fetch is invisible to the code's own comparison, and to this model.
CLASSES["KafkaClient"].fields.update({"_topics": Ref("TopicSetObj"), "_metadata_max_age_ms": INT, "cluster": Ref("ClusterObj2")})
classmodel("ClusterObj2", {})
classmodel("TopicSetObj", {})


@contract(MOD + ":AIOKafkaClient._md_synchronizer", ["C06"])
def _(c):
    c.self_("KafkaClient")
    c.no_class_inv = True
    c.none_raises = True
    c.local("topics", Ref("TopicSetObj"))
    c.local("ret", BOOL)
    c.owns("self._md_update_fut", "self._md_update_waiter", "self.cluster", "self._metadata_max_age_ms")
    c.call("asyncio.wait", returns=Tup(Set(Fut(NONE)), Set(Fut(NONE))), havoc_all=True, raises=["CancelledError"],
           note="asyncio.wait([waiter], timeout=max age): suspends until an update is asked for or the metadata is old")
    c.call("create_future", returns=Fut(NONE), post=["fresh(result)", "not result.done()"], note="a new pending future")
    c.ghost("$fetched_for", Opt(Ref("TopicSetObj")), "None")      # the topic set the last Metadata request was built for
    c.call("self._metadata_update", returns=BOOL, havoc_all=True, raises=["CancelledError", "Exception"], ghost={"$fetched_for": "a1"},
           note="AIOKafkaClient._metadata_update(cluster, topics): one Metadata round trip for the topics given; suspends")
    c.modifies("self._md_update_fut", "self._md_update_waiter", "Future.state", "Future.nres", "Future.res")
    c.raises("cancelled-or-the-update-failed-unexpectedly", "BaseException")
    c.loop(0, header="while True", invariants=[])
    c.hook("before", "self._md_update_fut.set_result", [
        ("assert", "an-update-is-announced-only-when-it-was-fetched-for-the-topics-followed-now",
         "$fetched_for is not None and $fetched_for == self._topics"),
        ("assert", "with-the-outcome-of-that-fetch", "a0 == ret"),
    ])
    c.replay_fn = lambda model, ob=None: {"script": _SYNC_SCRIPT}


# replay: a real AIOKafkaClient whose _metadata_update is a stub that records the topics it is asked for and waits for a gate;
# the followed topics change while the first request is on the wire; the update future may resolve only after a fetch for the
# topics followed then
_SYNC_SCRIPT = '''
import asyncio, logging
logging.disable(logging.CRITICAL)
from aiokafka.client import AIOKafkaClient
async def scenario(before, after):
    client = AIOKafkaClient(bootstrap_servers=[])
    asked, gates = [], []
    async def metadata_update(cluster, topics):
        asked.append(set(topics))
        g = asyncio.Event(); gates.append(g)
        await g.wait()
        return True
    client._metadata_update = metadata_update
    client._topics = set(before)
    sync = asyncio.ensure_future(client._md_synchronizer())
    fut = client.force_metadata_update()
    await asyncio.sleep(0.01)                       # the first request is on the wire
    client.set_topics(after)                        # e.g. the group's subscription changed
    fut2 = client.force_metadata_update()
    gates[0].set()
    await asyncio.sleep(0.01)
    problem = None
    if fut2.done() and set(after) not in asked:
        problem = "followed topics %r -> %r while a metadata request was on the wire: the update was announced with metadata fetched for %r only" % (sorted(before), sorted(after), [sorted(a) for a in asked])
    for g in gates: g.set()
    sync.cancel()
    try: await sync
    except BaseException: pass
    return problem
async def main():
    bad = []
    for before, after in ((["tA"], ["tB"]), (["tA", "tB"], ["tA", "tC"]), (["tA"], ["tA", "tB"]), (["tA", "tB"], ["tA"])):
        r = await scenario(before, after)
        if r: bad.append(r)
    return bad
bad = asyncio.run(main())
VIOLATED = bool(bad)
DETAIL = "%r" % (bad[:2],) if bad else "ok"
'''


# ------------------------------------------------------------------ AIOKafkaClient._get_conn
# C02 "With idempotence enabled, retriable faults alone never fail an accepted record" / C01: an unreachable broker is a
# retriable fault. Whatever way a connect attempt fails - refused, reset, no route to the host, name resolution, time-out, a
# Kafka-level failure of the handshake - _get_conn answers None (client.send turns that into the retriable NodeNotReadyError)
# and asks for fresh metadata; no raw OSError may escape into the sender or the metadata synchronizer, which would die of it.
CONNS = Dict(Tup(INT, INT), Ref("ConnObj2"))
CLASSES["KafkaClient"].fields.update({"_conns": CONNS, "_get_conn_lock": Ref("LockObj2"), "_client_id": STR, "_request_timeout_ms": INT})
for _f in ("_ssl_context", "_security_protocol", "_connections_max_idle_ms", "_sasl_mechanism", "_sasl_plain_username",
           "_sasl_plain_password", "_sasl_kerberos_service_name", "_sasl_kerberos_domain_name", "_sasl_oauth_token_provider",
           "_on_connection_closed"):
    CLASSES["KafkaClient"].fields.setdefault(_f, Opaque("Setting"))
classmodel("ConnObj2", {})
classmodel("LockObj2", {})
classmodel("BrokerObj2", {"host": STR, "port": INT})


@contract(MOD + ":AIOKafkaClient._get_conn", ["C02", "C01", "C19"])
def _(c):
    c.self_("KafkaClient")
    c.no_class_inv = True
    c.param("node_id", INT)
    c.param("group", INT, default="0")
    c.param("no_hint", BOOL, default="False")
    c.returns(Opt(Ref("ConnObj2")))
    c.local("conn", Ref("ConnObj2"))
    c.local("broker", Opt(Ref("BrokerObj2")))
    c.owns("self._conns", "self.cluster", "self._get_conn_lock")
    c.lock("self._get_conn_lock")
    c.call("conn.connected", returns=BOOL, note="whether the cached connection is still open")
    c.call("self.cluster.broker_metadata", returns=Opt(Ref("BrokerObj2")), note="host and port of the node, if the metadata knows it")
    c.call("StaleMetadata", returns=EXC, note="exception constructor")
    c.call("create_conn", returns=Ref("ConnObj2"), havoc_all=True, post=["fresh(result)"],
           raises=["OSError", "TimeoutError", "KafkaError", "CancelledError"],
           note="aiokafka.conn.create_conn: connects and performs the handshake; fails with any OSError (refused, reset, no route, "
                "name resolution, 'Multiple exceptions'), a time-out or a KafkaError")
    c.call("self.force_metadata_update", returns=Fut(BOOL), modifies=["KafkaClient._md_update_fut", "Future.state", "Future.nres"],
           note="force_metadata_update (under contract): asks the synchronizer for fresh metadata")
    c.modifies("self._conns", "KafkaClient._md_update_fut", "Future.state", "Future.nres")
    c.raises("cancelled", "CancelledError")
    c.ghost("$asked_for_metadata", BOOL, "False")
    c.hook("before", "self.force_metadata_update", [("set", "$asked_for_metadata", "True")])
    c.ensures_internal("a-failed-connect-asks-for-fresh-metadata", "implies(result is None, $asked_for_metadata)")
    c.replay_fn = lambda model, ob=None: {"script": _GET_CONN_SCRIPT}


_GET_CONN_SCRIPT = '''
import asyncio, errno, logging, socket
logging.disable(logging.CRITICAL)
from unittest import mock
from aiokafka import client as C
from aiokafka.errors import KafkaConnectionError
async def main():
    bad = []
    faults = [ConnectionRefusedError(errno.ECONNREFUSED, "refused"), ConnectionResetError(errno.ECONNRESET, "reset"),
              OSError(errno.EHOSTUNREACH, "No route to host"), OSError(errno.ENETUNREACH, "Network is unreachable"),
              socket.gaierror(socket.EAI_NONAME, "Name or service not known"), OSError("Multiple exceptions: [Errno 111] ..., [Errno 99] ..."),
              asyncio.TimeoutError(), KafkaConnectionError("handshake failed")]
    for fault in faults:
        cl = C.AIOKafkaClient(bootstrap_servers=[])
        cl.cluster.broker_metadata = lambda node_id: mock.MagicMock(host="h", port=1)
        async def create_conn(*a, fault=fault, **k):
            raise fault
        with mock.patch.object(C, "create_conn", create_conn):
            try:
                r = await cl._get_conn(0)
                if r is not None:
                    bad.append("%r: a connection object came back" % (fault,))
            except Exception as e:
                bad.append("connect attempt failing with %s(%s): %s escaped _get_conn (the sender / the metadata task dies of it)"
                           % (type(fault).__name__, fault, type(e).__name__))
    return bad
bad = asyncio.run(main())
VIOLATED = bool(bad)
DETAIL = "%r" % (bad[:3],) if bad else "ok"
'''


# ------------------------------------------------------------------ AIOKafkaClient.send
# C12 "for any ... mix of concurrent, timed-out and cancelled requests, each request's waiter receives the response carrying
# its correlation id": a connection is shared by every request to that node; the client layer may close it under the other
# waiters' feet only for the reason the connection layer cannot see itself - this request's reply did not arrive in time. A
# request that is merely *cancelled* leaves the connection alone (its reply is read and dropped by the connection: conn.py).
classmodel("ReqBuilder2", {"required_acks": INT})
classmodel("RespObj2", {})
CLASSES["ConnObj2"].fields["g_closed_by_client"] = BOOL


@contract(MOD + ":AIOKafkaClient.send", ["C12"])
def _(c):
    c.self_("KafkaClient")
    c.no_class_inv = True
    c.param("node_id", INT)
    c.param("request", Ref("ReqBuilder2"))
    c.param("group", INT, default="0")
    c.returns(Ref("RespObj2"))
    c.local("future", Fut(Ref("RespObj2")))
    c.local("expect_response", BOOL)
    c.owns("self._conns")
    c.index_raises = True
    c.call("self.ready", returns=BOOL, havoc_all=True, raises=["CancelledError"], note="AIOKafkaClient.ready -> _get_conn (under contract): suspends")
    c.call("NodeNotReadyError", returns=EXC, note="exception constructor")
    c.call("RequestTimedOutError", returns=EXC, note="exception constructor")
    c.call("isinstance", returns=BOOL, note="whether the request is a Produce request")
    c.call("*.send", returns=Fut(Ref("RespObj2")), post=["fresh(result)"],
           note="AIOKafkaConnection.send (under contract, conn_send.py): queues the waiter, returns the awaitable of the reply "
                "(bounded by the request timeout)")
    c.call("*.close", modifies=["ConnObj2.g_closed_by_client"], note="AIOKafkaConnection.close (under contract): fails every waiter of the connection")
    c.modifies("ConnObj2.g_closed_by_client", "Future.state", "Future.nres", "Future.res", "Future.exc")
    c.raises("not-ready-timed-out-connection-error-or-cancelled", "BaseException")
    c.hook("before", "*.close", [
        ("assert", "the-shared-connection-is-closed-by-the-client-only-when-this-requests-reply-timed-out", "is_exc(exc, 'TimeoutError')"),
    ])
    c.replay_fn = lambda model, ob=None: {"script": _CLIENT_SEND_SCRIPT}


# replay: a real client over a fake connection object: three requests outstanding on one connection, one of them cancelled or
# timing out; the connection may be closed by the client only in the second case
_CLIENT_SEND_SCRIPT = '''
import asyncio, logging
logging.disable(logging.CRITICAL)
from aiokafka.client import AIOKafkaClient
from aiokafka.protocol.metadata import MetadataRequest
class FakeConn:
    def __init__(self): self.closed = []; self.futs = []
    def connected(self): return True
    def send(self, request, expect_response=True):
        f = asyncio.get_running_loop().create_future(); self.futs.append(f); return f
    def close(self, reason=None, exc=None): self.closed.append(reason)
async def scenario(what, position):
    cl = AIOKafkaClient(bootstrap_servers=[])
    conn = FakeConn()
    cl._conns[(0, 0)] = conn
    from aiokafka.client import ConnectionGroup
    cl._conns[(0, ConnectionGroup.DEFAULT)] = conn
    tasks = [asyncio.ensure_future(cl.send(0, MetadataRequest([]))) for _ in range(3)]
    await asyncio.sleep(0.01)
    if what == "cancelled":
        tasks[position].cancel()
    else:
        conn.futs[position].set_exception(asyncio.TimeoutError())
    await asyncio.sleep(0.01)
    closed = list(conn.closed)
    for f in conn.futs:
        if not f.done(): f.set_result("reply")
    await asyncio.gather(*tasks, return_exceptions=True)
    if what == "cancelled" and closed:
        return "request %d of 3 on one connection cancelled: the client closed the connection (%r) under the two other waiters" % (position, closed)
    if what == "timed-out" and not closed:
        return "request %d timed out and the connection was not renewed" % position
    return None
async def main():
    bad = []
    for what in ("cancelled", "timed-out"):
        for pos in (0, 1, 2):
            r = await scenario(what, pos)
            if r: bad.append(r)
    return bad
bad = asyncio.run(main())
VIOLATED = bool(bad)
DETAIL = "%r" % (bad[:2],) if bad else "ok"
'''
